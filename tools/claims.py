# one claim(...) per property whose check is built and clean on the tree
claim('C15',
      'CFG must-pass-through + def-use fold-shape check + cross-module table agreement (ast)',
      'Static conformance to the structural necessary conditions of C15 listed in DESIGN 4.15: '
      'peak updaters post-dominate the region calculation on every path, each updater is a running-max '
      'fold of the named field storing the compared value, height and a copy of the arg-max pin row, the '
      'pin-temperature column convention agrees in all six modules, every reader of the per-duct peak list '
      'indexes it like the writer, outlet columns read final-plane fields. Exhaustive over all sites in the '
      'parsed tree; does not decide numerical equality.',
      'Trusted: the frozen column convention and accepted copy idioms listed in dsa/rules/c15.py; the ast '
      'parser. Numerical behaviour is not decided.',
      'DESIGN.md 4 C15')
