# one claim(...) per property whose check is built and clean on the tree
claim('C15',
      'CFG must-pass-through + def-use fold-shape check + cross-module table agreement (ast)',
      'Static conformance to the structural necessary conditions of C15 listed in DESIGN 4.15: '
      'peak updaters post-dominate the region calculation on every path, each updater is a running-max '
      'fold of the named field storing the compared value, height and a copy of the arg-max pin row, the '
      'pin-temperature column convention agrees in all six modules, every reader of the per-duct peak list '
      'indexes it like the writer, outlet columns read final-plane fields. Exhaustive over all sites in the '
      'parsed tree; does not decide numerical equality.',
      'Trusted: the frozen column convention and accepted copy idioms listed in dsa/rules/c15.py; the ast '
      'parser. Numerical behaviour is not decided.',
      'DESIGN.md 4 C15')
claim('C14',
      'interval-shape + accumulation/homogeneity + key-set agreement + who-may-write (ast, CFG)',
      'Static conformance to the structural necessary conditions of C14 in DESIGN 4.14: half-open grid '
      'interval with counting, += accumulation of every component from its own increment function with '
      'degree 1 (friction, gravity) / 0 (grid) in dz, agreement of the component key sets across region '
      'classes, Assembly and tables, single writer of the static friction factor / flow split, finished '
      'regions added exactly once. Exhaustive over the sites in the parsed tree; closed-form equality is '
      'not decided.',
      'Trusted: ast parser; accepted forms enumerated in dsa/rules/c14.py. Numerical values not decided.',
      'DESIGN.md 4 C14')
claim('C17',
      'schema-vs-converter coverage (access-path resolution), purity/once rules, exact rational affine composition of converter pairs',
      'Static conformance to the structural necessary conditions of C17 in DESIGN 4.17: every schema key classified as '
      'length/temperature/mass-flow is the target of exactly one store P = conv(P) of the right kind and direction; converters '
      'make no other store into the input; convert_units runs once after all raw-value checks; every _x_to_y/_y_to_x pair '
      'composes to the identity as exact rational affine maps and equals an independent reference; dispatchers return the '
      'member matching their branch. Exhaustive over all 125 schema keys and 22 converter functions; an unclassified new key '
      'is an analysis error. Does not decide equality of meshes/temperatures.',
      'Trusted: the frozen classification of schema keys and reference conversion constants in dsa/rules/c17.py.',
      'DESIGN.md 4 C17')
claim('C18',
      'error-discipline rules on the CFG (terminators, fall-through), guard wiring via call graph, key-influence analysis, '
      'path-sensitive definite assignment, schema-conformance of input reads (interprocedural access-path binding)',
      'Static conformance to the structural necessary conditions of C18 in DESIGN 4.18: LoggedClass.log terminates on error/critical; '
      'every LoggedClass.log call has a literal level and a message; every module-level error log is followed by exit/raise on all '
      'paths; every check_* is wired into input reading; the keys of each impossible-input class still influence an error decision; '
      'no local of any solver function is read unassigned on a feasible path (guard-correlated refinement); every constant key read '
      'from the parsed input (through parameters bound interprocedurally) exists in the schema or is created by read_input. '
      'Exhaustive over all call sites / functions of the parsed tree. Does not decide that each numeric guard rejects every member '
      'of its class.',
      'Trusted: exception tables in dsa/rules/c18.py (each entry with its reason), the receiver/callee resolution of dsa/resolve.py.',
      'DESIGN.md 4 C18')
claim('C05',
      'bounded-loop / terminating-guard check on the CFG (must-pass-through + concrete evaluation of the guard polarity), comparator-shape rules, source-merge completeness',
      'Static conformance to the structural necessary conditions of C05 in DESIGN 4.5: the mesh loop advances unconditionally by the value of _check_dz; '
      'a terminating guard rejects a non-positive step requirement on every path after its last definition (single writer); _check_dz returns req_dz or '
      'the distance to the first strictly-crossed boundary; the boundary set merges all four sources with rounding and np.unique; the requirement is the '
      'floored minimum over every assembly and the gap, a user step only replaces it when not larger, caps only lower it. Does not decide round-off of '
      'nearly coincident bounds.',
      'Trusted: ast/CFG construction; numpy semantics of np.unique (sorted) and np.around.',
      'DESIGN.md 4 C05')
claim('C20',
      'syntax-directed ordering/once rules, bounded-loop check on the CFG, enumeration of abstract loop-exit states against the post-loop guard, guard dominance, sibling-store limit check',
      'Static conformance to the structural necessary conditions of C20 in DESIGN 4.20: descending sort before the sweep, each parameter appended exactly once into contiguous '
      'groups, loop bounds with increments on every path, the post-loop guard rejecting every exit state with a wrong group count (20 abstract states enumerated), '
      'mass-conservation and group-count guards dominating the return of distribute, remainder to the last group, every store into the flow vector masked by a group '
      'and compared with the pressure-drop limit. Does not decide the partition/sum numerically nor convergence.',
      'Trusted: ast/CFG; three-valued evaluator of guard conditions (dsa/util.eval_test).',
      'DESIGN.md 4 C20')
claim('C03',
      'def-use / sibling-expression agreement, bundle-bounds predicate agreement across all z-evaluating methods, mask provenance, scale-tag and counter rules (ast, CFG)',
      'Static conformance to the structural necessary conditions of C03 in DESIGN 4.3: the tallied step power is exactly the dict handed to the region; the three component '
      'evaluations are identical and renormalised; every method that evaluates the profiles along z applies the same bundle-bounds predicate as the sweep and the '
      'renormalisation sums only in-bundle steps against avg_power times their height; both scaling passes hit the same three targets and the returned total is '
      'pcalc*renorm*pscalar; W/m<->W/cm scale tags are applied once in and once out; the sweep counter advances by one only on its own branch. Does not decide the '
      'midpoint-sum/integral equality numerically.',
      'Trusted: ast/CFG; the recognised source forms listed in dsa/rules/c03.py.',
      'DESIGN.md 4 C03')
claim('C02',
      'sibling data-flow rule at the three gap->duct transfer sites, CFG ordering of a step, provenance of the perimeter table, flow-sensitive independence (taint) of adiabatic branches',
      'Static conformance to the structural necessary conditions of C02 in DESIGN 4.2: at every transfer site the duct receives map(h*T)/map(h) on the gap2duct map (never a bare map(T)); '
      'a step advances all assemblies with their own index, then the gap from the mapped outer duct surface temperatures, then region changes; the gap energy equation and the heat tally '
      'use the same perimeter table and adjacency, the tally uses old-level gap temperatures; adiabatic branches read nothing derived from gap arguments and the gap update is skipped by the '
      'predicate that makes assemblies adiabatic. Does not decide discrete conservation across unequal meshes (C10) nor run-time adjacency symmetry (C09).',
      'Trusted: ast/CFG; recognised source forms in dsa/rules/c02.py.',
      'DESIGN.md 4 C02')
claim('C19',
      'table agreement + interval (sign) abstract interpretation of the straight-line hot-spot formula + def-use wiring (ast)',
      'Static conformance to the structural necessary conditions of C19 in DESIGN 4.19: the location list, subfactor column counts, schema options and profile-slice table agree and the '
      'number of temperature rises equals the number of subfactor terms for all six locations; interval abstract interpretation of calculate_temps proves, under dT >= 0, direct >= 1, '
      'statistical >= 1, IN_sigma > 0, OUT_sigma >= 0, that the result is the cumulative nominal part times a factor >= 1 plus an increment >= 0 that is linear in OUT_sigma/IN_sigma and '
      'exactly zero (factor exactly one) when all subfactors are one; reductions run along the right axes; the rises come from the profile stored with the peak of the same key. '
      'Does not decide numerical values nor eval() of dT-dependent subfactor expressions.',
      'Trusted: the NumPy models of dsa/interval.py (unknown constructs evaluate to TOP and can only lose a proof); stated input assumptions.',
      'DESIGN.md 4 C19')
claim('C13',
      'interval (sign) abstract interpretation of the clad/fuel temperature recurrences incl. loop bodies, geometric-fact derivation from the constructor, bounded-loop check on the CFG',
      'Static conformance to the structural necessary conditions of C13 in DESIGN 4.13: every statement deriving a pin temperature from another adds an increment proved >= 0 under q >= 0, '
      'htc > 0, k > 0, dz > 0 and the log/shell terms shown >= 0 from the constructor (and exactly 0 when q = 0), in both the pre-loop and in-loop assignments; shells are chained surface to '
      'centre; the clad array is returned in [OD, MW, ID] order as consumed; the zero-gap branch returns the clad temperature; the three conductivity iterations are bounded; the pin coolant '
      'temperature is the pin-fraction weighted sum over adjacent subchannels. Does not decide the radiating gap, clad ID >= MW, nor conduction residuals numerically.',
      'Trusted: NumPy models of dsa/interval.py; assumption that conductivity callables return positive values.',
      'DESIGN.md 4 C13')
claim('C11',
      'exact polynomial / rational-function algebra (D_poly) on the straight-line closed-form coefficients extracted from the AST; mirror-pair and independence rules',
      'Static conformance to C11 in DESIGN 4.11, decided algebraically for all values of the atoms: with T(x) = -q x^2/(2k) + c1 x + c2 the coefficients the code computes satisfy '
      'h_in (t_in - T(-L/2)) = -q L/2 - k c1 and h_out (T(L/2) - t_out) = q L/2 - k c1 identically (coupled), the outer conduction flux vanishes identically (adiabatic), the stored mid-wall '
      'and surface temperatures are T(0), T(-L/2), T(L/2), the geometry constants are L/2 and L^2/8 of the wall thickness, the low-fidelity formulas satisfy the same identities with q = 0, '
      'and without heating every wall temperature is a convex combination of the two coolant temperatures. The identities are checked by exact coefficient comparison (Fractions), not by '
      'sampling. Not decided: floating-point evaluation error.',
      'Trusted: the atom table mapping source expressions to symbols in dsa/rules/c11.py; dsa/poly.py; positivity of k, h, L.',
      'DESIGN.md 4 C11')
claim('C07',
      'constant folding and algebraic consistency checks of hard-coded hexagonal direction/angle tables across modules; def-use pairing of the swirl donor column',
      'Only the hard-coded tables of C07 are decided (DESIGN 4.7): every direction/angle table (core._dirs and its rotations, the two ring walks, assembly-walk normals, pin index and x-y steps, '
      'edge/corner/interior subchannel angles) is hexagonally consistent (closed six-cycles, antipodal entries, constant 60-degree progression, 30-degree corner offset, one linear map between '
      'index steps and coordinate steps) and sibling tables in different modules agree; the swirl donor column chosen per wire direction is the column the closed exterior ring writes for that '
      'direction. These are necessary conditions: one wrong entry breaks rotation equivariance of every bundle/core. Equivariance of computed fields is NOT decided.',
      'Trusted: constant folder dsa/util.const_eval; the geometric meaning attached to each table.',
      'DESIGN.md 4 C07')
claim('C10',
      'provenance / sibling-agreement rules on the map construction (ast), tuple-order and call-site orientation checks',
      'Structural necessary conditions of C10 (DESIGN 4.10): both transfer matrices derive from one interval-overlap matrix whose entries are minima of interval lengths along a monotone walk; '
      'the region-row matrix is normalised by region cell widths and the gap-row matrix by gap cell widths (so rows sum to one when the overlap is complete), both get the identical split-corner '
      'fold; every return yields (fine->coarse, coarse->fine) and the caller stores them as gap2duct / duct2gap for every region of every assembly; all 9 map_across_gap call sites use the map of '
      'the right orientation; the identity shortcut is taken only for equal-shape allclose bounds. Positivity / exactness / conservation of the run-time matrices are NOT decided numerically.',
      'Trusted: recognised source forms in dsa/rules/c10.py; NumPy broadcasting semantics of (M.T / w).T and (M / w).T.',
      'DESIGN.md 4 C10')
claim('C09',
      'abstract interpretation of the finer-mesh selection over the finite domain of flag/ordering cases (exhaustive), normalised-AST sibling comparison, normalisation provenance',
      'Structural necessary conditions of C09 (DESIGN 4.9): the finer-mesh selection reads only the has_rodded flags, ring counts and pin pitches and, interpreted over all 36 abstract '
      'flag/ordering cases in both argument orders, selects the same physical assembly and edge count from both sides whenever a compared key differs, the pin-bundle assembly over an unrodded '
      'one, more rings first and then the smaller pitch; the side and corner count-once decisions are identical modulo the direction index; the gap flow is split by area fraction. The '
      'combinatorial facts of the run-time maps (cover once, 1-3 neighbours, symmetric adjacency, total area) are NOT decided.',
      'Trusted: the abstract interpreter in dsa/rules/c09.py (raises an analysis error on any construct it does not model).',
      'DESIGN.md 4 C09')
claim('C08',
      'rank domain (np.where index arrays vs scalar element stores), list-length domain, exact polynomial identities in n_ring (D_poly)',
      'Structural necessary conditions of C08 (DESIGN 4.8): no value indexed by np.where index arrays is stored into a single array element (constructibility of every bundle under the installed '
      'NumPy), every fixed-length list indexed by a loop variable is at least as long as the loop range (constructibility with several bypass gaps), and the subchannel/pin count formulas satisfy '
      'for every ring count the identities interior+edge+corner = 6(n^2-n+1), duct = 6n, bypass mirrors duct, pin count 3n(n-1)+1, pin-side incidence 6/5/5 = 3/2/1, and each pin class hands out '
      'fractions summing to one. Symmetry of the run-time adjacency, area tiling and centroids are NOT decided.',
      'Trusted: NumPy indexing semantics modelled in dsa/rules/c08.py; dsa/poly.py.',
      'DESIGN.md 4 C08')
claim('C12',
      'registry-slot agreement: record-shape inference (D_shape) of every calc_constants vs every reachable corr_constants read over all 240 accepted combination x grid contexts with exception-typed guard matching; call-shape vs signature check; exact polynomial algebra (D_poly) for the mass-conservation identities',
      'Structural necessary conditions of C12 (DESIGN 4.12): for every accepted (friction, flow split, mixing) combination with and without spacer grid, every corr_constants[slot][k...] read reachable '
      'through the correlations call graph from the installed handlers is looked up in the inferred record shape of the module occupying that slot; a miss is classified KeyError/TypeError/IndexError and '
      'must be caught by an enclosing try of that type (exhaustive over 240 contexts x reachable reads); every slot occupant accepts every call shape used on the slot; schema options map to exactly one '
      'import branch; and the normalisation sum_i (N_i A_i / A_b) x_i = 1 is verified as an exact algebraic identity for the constant CTD/UCTD splits, the transition iteration update, the approximate '
      'transition split and the NOV, MIT and SE2 splits. 21 unguarded foreign-slot read sites (mixed-family combinations, reproduced: 200 of 720 constructed cases raise) are listed as known findings. '
      'Pressure-gradient equality and positivity/finiteness as numbers are NOT decided.',
      'Trusted: shape inference of dsa/shape.py (opaque on anything it cannot model: no verdict), resolver of dsa/resolve.py, positivity of geometric quantities for the power-symbol rules.',
      'DESIGN.md 4 C12')
claim('C16',
      'interprocedural alias/effect analysis (K6): access-path binding of input sub-dictionaries through parameters, locals and attributes, with clone/deepcopy/shallow-copy barriers; Material hand-off analysis; sibling-call comparison of serial vs parallel driver (CFG)',
      'Structural necessary conditions of C16 (DESIGN 4.16): outside the input reader no statement stores through, deletes from, or calls a mutating method on a reference to the parsed input '
      'dictionary - whether reached directly, through a parameter bound at any call site (fixpoint over the call graph), a local alias, or an attribute that was bound to an input container '
      '(540 stores / mutator calls examined, synthetic positive example must fire on every run); input Material objects are cloned before being handed to anything that updates them, and the '
      'one save/restore helper provably restores; the serial and parallel drivers make the same call with per-time-point directories and collect every result; no nondeterministic source flows '
      'into solver state. Serial = parallel then follows because pool workers get pickled copies and the serial loop shares one object. Bitwise float identity is NOT decided.',
      'Trusted: root names of the input object (dassh_input/inp/dassh_inp/...), resolver, schema-based container classification.',
      'DESIGN.md 4 C16')
claim('C06',
      'clone-ownership set algebra over attribute effects (K6): mutated-attribute sets from the per-object call closure vs attributes re-bound on the copy, with update-before-use dominance checks on the CFG; layering / module-state who-may-write rules',
      'Structural necessary conditions of C06 (DESIGN 4.6): for each of the six classes cloned with copy.copy, every attribute through which code reachable from the per-assembly entry points '
      '(sweep, region change, post-clone setup; self-call and property closure over the class hierarchy, plus state-changing methods of field objects) mutates an object is given a fresh object '
      'on the copy - by clone(), by a method clone() calls on the copy, or by the caller - or the shared object obeys an update-before-use discipline verified by dominance on the CFG; no '
      'assembly-level module refers to the reactor, the core or the assembly list; no function writes module-level state after import (positive example must fire). Numerical identity with a '
      'stand-alone run is NOT decided.',
      'Trusted: receiver table, entry-point list and caller-side rebind sites in dsa/rules/c06.py.',
      'DESIGN.md 4 C06')
claim('C01',
      'exact polynomial algebra (D_poly) on the heat-transfer constants and update terms extracted from the AST, per subchannel-type pair; def-use / once-and-order rules on the CFG; sibling-branch agreement',
      'Structural necessary conditions of C01 (DESIGN 4.1), decided algebraically where possible: the pin heat fractions partition every pin class and the same weights go both ways; m_i cp dT_i from the '
      'heat source equals q_i identically (flow split and area share cancel); the exchange coefficient of every subchannel-type pair reduces to keff d_ij / L_ij and is symmetric (so conduction and '
      'turbulent mixing cancel in the mass-flow weighted sum), also for bypass gaps; m_i cp x swirl coefficient is cp rho d v for edge and corner cells alike with one swirl velocity (closed ring '
      'telescopes); wall heat equals wetted wall length x h x dT, the tallied quantity, with the same wall length in sibling branches; the state is advanced once per step by += in the right order; '
      'a region change carries the overall mixed mean; low-fidelity models satisfy Q = m cp dT with a cancelling ring exchange. The numeric residual and run-time adjacency symmetry are NOT decided.',
      'Trusted: atom tables in dsa/rules/c01.py (unknown quantities become fresh symbols and surface as residuals), dsa/poly.py.',
      'DESIGN.md 4 C01')
claim('C04',
      'exact polynomial algebra (D_poly) with algebraic evaluation of each step-criterion function on its call-site arguments, compared with the coefficient sum of the update operator for every criterion x scenario; normalisation identities; orientation and aggregation rules',
      'Structural necessary conditions of C04 (DESIGN 4.4), decided algebraically: for each of the 12 live pin-bundle and bypass step criteria, in every boundary scenario (coupled / convection '
      'approximation / adiabatic), the reciprocal of the criterion evaluated on the arguments bound at its call site equals exactly the sum of the coefficients the update operator applies to that '
      'cell (conduction per neighbour in the suffix, wall term, swirl), so dz <= criterion makes the own-temperature weight 1 - dz*sum >= 0 with weights summing to one; the same identity holds for '
      'the flowing-gap criterion (sum of d/L_j) and the single-node and six-node low-fidelity criteria; the no-flow gap and stagnant-bypass models are normalised convex combinations; every exchange '
      'term is coefficient x (T_neighbour - T_self); requirements are aggregated with min over types, temperatures, regions, assemblies and the gap and rounded down. Non-negativity of the physical '
      'inputs is assumed; agreement of run-time neighbour multisets with the criterion chosen by pin count is NOT decided.',
      'Trusted: atom tables and call-site bindings in dsa/rules/c04.py, dsa/poly.py, dsa/algeval.py (straight-line evaluation along the path selected by the boolean flags; no path search, no solver).',
      'DESIGN.md 4 C04')
