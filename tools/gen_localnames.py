#!/venv/bin/python
"""Regenerate dsa/localnames.json (parameter and local names of every function of /repo/dassh in
order of first binding).  Run after a fix: commit to /repo that adds or removes a local."""
import ast, json, os, sys
sys.path.insert(0, os.path.dirname(os.path.dirname(os.path.abspath(__file__))))
os.environ['DSA_NO_ALIGN'] = '1'
from dsa import core
out = {}
root = os.path.join(core.REPO, 'dassh')
for dp, dn, fn in os.walk(root):
    for f in sorted(fn):
        if not f.endswith('.py'):
            continue
        p = os.path.join(dp, f)
        rel = os.path.relpath(p, core.REPO)
        mod = rel[:-3].replace('/', '.')
        if mod.endswith('.__init__'):
            mod = mod[:-9]
        tree = ast.parse(open(p).read())
        t = {}
        for q, node in core._qualfuncs(tree):
            params, locs = core.local_order(node)
            t[q] = {'params': params, 'locals': locs}
        out[mod] = t
json.dump(out, open(os.path.join(core.VERIF, 'dsa', 'localnames.json'), 'w'), indent=0, sort_keys=True)
print(sum(len(v) for v in out.values()), 'functions')
