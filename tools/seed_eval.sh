#!/bin/bash
# tools/seed_eval.sh <Cxx> <worktree> [props]: confirm a sub-agent's seed in its scratch worktree
# (demo passes on clean, fails with patch), then apply to /repo, run checks, undo.
P=$1; WT=$2; PROPS=${3:-$P}
set -u
cd $WT || exit 2
git diff -- dassh > /tmp/seed_$P.diff
cmp -s /tmp/seed_$P.diff _seed/patch.diff || echo "note: patch.diff differs from worktree diff"
echo "--- demo on modified tree"; PYTHONPATH=$WT timeout 900 /venv/bin/python _seed/demo.py > /tmp/seed_$P.mod.out 2>&1; echo "exit $?"; tail -3 /tmp/seed_$P.mod.out
git apply -R _seed/patch.diff || { echo 'cannot reverse patch'; exit 2; }
echo "--- demo on clean tree"; PYTHONPATH=$WT timeout 900 /venv/bin/python _seed/demo.py > /tmp/seed_$P.clean.out 2>&1; echo "exit $?"; tail -2 /tmp/seed_$P.clean.out
git apply _seed/patch.diff
echo "--- checks on a scratch copy of /repo/dassh with the patch (fix agents read /repo concurrently)"
SC=$(mktemp -d -p /dev/shm dsa-se-XXXX); cp -r /repo/dassh $SC/
patch -p1 -s -f -d $SC -i $WT/_seed/patch.diff || { echo PATCHFAIL; rm -rf $SC; exit 2; }
for p in $(echo $PROPS | tr , ' '); do
  /verif/check $p --tier quick --repo $SC > /tmp/seed_$P.$p.out 2>&1; echo "$p exit $?"; grep -E 'VIOLATED|ANALYSIS' /tmp/seed_$P.$p.out | head -4
done
rm -rf $SC
