#!/bin/bash
# tools/seed_eval.sh <Cxx> <worktree> [props]: confirm a sub-agent's seed in its scratch worktree
# (demo passes on clean, fails with patch), then apply to /repo, run checks, undo.
P=$1; WT=$2; PROPS=${3:-$P}
set -u
cd $WT || exit 2
git diff -- dassh > /tmp/seed_$P.diff
cmp -s /tmp/seed_$P.diff _seed/patch.diff || echo "note: patch.diff differs from worktree diff"
echo "--- demo on modified tree"; PYTHONPATH=$WT timeout 900 /venv/bin/python _seed/demo.py > /tmp/seed_$P.mod.out 2>&1; echo "exit $?"; tail -3 /tmp/seed_$P.mod.out
git apply -R _seed/patch.diff || { echo 'cannot reverse patch'; exit 2; }
echo "--- demo on clean tree"; PYTHONPATH=$WT timeout 900 /venv/bin/python _seed/demo.py > /tmp/seed_$P.clean.out 2>&1; echo "exit $?"; tail -2 /tmp/seed_$P.clean.out
git apply _seed/patch.diff
echo "--- checks on /repo with patch"
git -C /repo status --porcelain | grep -v '^??' && { echo "/repo dirty"; exit 2; }
git -C /repo apply $WT/_seed/patch.diff || exit 2
for p in $(echo $PROPS | tr , ' '); do
  /verif/check $p --tier quick --repo /repo > /tmp/seed_$P.$p.out 2>&1; echo "$p exit $?"; grep -E 'VIOLATED|ANALYSIS' /tmp/seed_$P.$p.out | head -4
done
git -C /repo checkout -- .
rm -rf /repo/.dsa-evidence
