#!/bin/bash
# tools/merge_branch.sh <G>: merge the work of fix agent <G> (/tmp/vf-<G>, branch fix-<G>) into /verif at definition level
g=$1; V=/tmp/vf-$g
base=$(git -C $V log --format=%H --grep="^local paths$" -1)
mb=$(git -C $V rev-parse $base~1)     # the /verif commit the clone started from
cd /verif
for f in $(git -C $V diff --name-only $base fix-$g | grep -v "^evidence/"); do
  case $f in
    *.py)
      if git cat-file -e $mb:$f 2>/dev/null && [ -f /verif/$f ]; then
        git show $mb:$f > /tmp/mb_base.py; git -C $V show fix-$g:$f > /tmp/mb_theirs.py
        tools/merge_py.py /tmp/mb_base.py /verif/$f /tmp/mb_theirs.py /verif/$f || echo "MERGE FAILED $f"
      else
        mkdir -p $(dirname /verif/$f); git -C $V show fix-$g:$f > /verif/$f; echo "new file $f"
      fi;;
    benign/UNRESOLVED.txt)
      # remove the lines the agent removed
      git -C $V diff $base fix-$g -- $f | grep "^-b" | sed 's/^-//' | while read l; do k=$(echo $l | cut -d' ' -f1); grep -v "^$k " /verif/$f > /tmp/unres.txt; cp /tmp/unres.txt /verif/$f; done; echo "unresolved list updated";;
    NOTES-*) mkdir -p /verif/notes; git -C $V show fix-$g:$f > /verif/notes/$f; echo "notes $f";;
    DESIGN.md) git -C $V diff $base fix-$g -- DESIGN.md > /verif/notes/DESIGN-$g.diff; echo "DESIGN diff saved to notes/";;
    *) echo "OTHER FILE $f (not merged)";;
  esac
done
