#!/bin/bash
# Run the pinned baseline (guard off) and compare with BASELINE.json stable_pass.
out=${1:-/dev/shm/baseline.xml}
cd /repo && /venv/bin/python -m pytest -q -p no:cacheprovider --timeout=900 --continue-on-collection-errors --junitxml=$out >/dev/null 2>&1
/venv/bin/python - "$out" <<'PY'
import json,sys,xml.etree.ElementTree as ET
b=json.load(open('/root/.vp/BASELINE.json'))
t=ET.parse(sys.argv[1]).getroot()
passed=set()
for tc in t.iter('testcase'):
    if not any(c.tag in('failure','error','skipped') for c in tc):
        passed.add(tc.get('classname')+'::'+tc.get('name'))
miss=[x for x in b['stable_pass'] if x not in passed]
print('BASELINE passed=%d stable_missing=%s extra_passing=%d'%(len(passed),miss,len(passed-set(b['stable_pass']))))
PY
