#!/bin/bash
# tools/all.sh quick|thorough : run every property's check in parallel; print only failures
T=${1:-quick}; D=$(mktemp -d -p /dev/shm dsa-all-XXXX)
for i in $(seq -w 1 20); do ( /verif/check C$i --tier $T >$D/C$i.out 2>&1; echo "C$i exit $?" >$D/C$i.rc ) & done
wait
cat $D/*.rc | grep -v "exit 0$"; grep -h "ANALYSIS-ERROR\|^VIOLATION" $D/*.out | cut -c1-400
n=$(cat $D/*.rc | grep -c "exit 0$"); echo "$n/20 ok ($T)"; rm -rf $D
