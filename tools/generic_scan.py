#!/venv/bin/python
"""tools/generic_scan.py <patch.diff>... : apply each patch to a scratch copy of /repo/dassh and list every hit
of the generic nets G1-G4 (regardless of property scope).  For measuring false alarms / detections."""
import sys, os, shutil, subprocess, tempfile, concurrent.futures
sys.path.insert(0, '/verif'); sys.dont_write_bytecode = True
def run(pf):
    sc = tempfile.mkdtemp(prefix='dsa-gs-', dir='/dev/shm')
    try:
        shutil.copytree('/repo/dassh', sc + '/dassh', ignore=shutil.ignore_patterns('__pycache__'))
        r = subprocess.run(['patch', '-p1', '-s', '-f', '-d', sc, '-i', pf], capture_output=True, text=True)
        if r.returncode != 0:
            return pf, ['PATCH-FAILED']
        code = r'''
import sys; sys.path.insert(0,'/verif'); sys.dont_write_bytecode=True
from dsa import core
core.REPO=%r
from dsa.rules import _generic
repo=core.Repo()
class Ctx:
    def __init__(s): s.repo=repo; s.v=[]; s.instances=[]; s.decided=[]; s.extra={}
    def violation(s,rule,fi,node,what,key=None): s.v.append((rule,key))
    def advisory(s,*a,**k): pass
    def ok(s,*a,**k): pass
ctx=Ctx()
rel={f.full for f in repo.all_funcs()}
for g in (_generic.g1,_generic.g2,_generic.g3,_generic.g4,_generic.g5,_generic.g6):
    g(ctx,'X',rel,'X.'+g.__name__.upper())
for v in ctx.v: print(v)
''' % sc
        r = subprocess.run(['/venv/bin/python', '-c', code], capture_output=True, text=True, env=dict(os.environ, DASSH_VERIF_REPO=sc))
        out = [l for l in r.stdout.splitlines() if l.strip()]
        if r.returncode != 0:
            out.append('ERR ' + r.stderr.strip().splitlines()[-1][:300])
        return pf, out
    finally:
        shutil.rmtree(sc, ignore_errors=True)
files = sys.argv[1:]
with concurrent.futures.ThreadPoolExecutor(max_workers=10) as ex:
    for pf, out in ex.map(run, files):
        if out:
            print(pf.replace('/verif/', ''), out)
print('scanned', len(files))
