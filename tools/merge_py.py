#!/venv/bin/python
"""tools/merge_py.py BASE OURS THEIRS OUT: three-way merge of a Python module at the level of top-level
definitions (functions, classes, assignments, other statements).  New definitions of THEIRS are
inserted after the definition that precedes them in THEIRS; a definition changed on one side only
is taken from that side; one changed on both sides is merged with `git merge-file --union` and
reported (review needed)."""
import ast, sys, subprocess, tempfile, os

def units(text):
    """[(key, start, end, text)] covering the whole file; key = def name or ('stmt', source)"""
    tree = ast.parse(text)
    lines = text.splitlines(keepends=True)
    out = []
    prev_end = 0
    body = tree.body
    for i, n in enumerate(body):
        start = n.lineno - 1
        if getattr(n, 'decorator_list', None):
            start = min(d.lineno for d in n.decorator_list) - 1
        # leading comments / blank lines belong to this unit
        s = prev_end
        end = n.end_lineno
        if isinstance(n, (ast.FunctionDef, ast.ClassDef, ast.AsyncFunctionDef)):
            key = 'def ' + n.name
        elif isinstance(n, ast.Assign) and len(n.targets) == 1 and isinstance(n.targets[0], ast.Name):
            key = 'var ' + n.targets[0].id
        else:
            key = 'stmt ' + ast.unparse(n)[:80]
        k = key; c = 1
        while any(k == u[0] for u in out):
            c += 1; k = '%s #%d' % (key, c)
        out.append([k, ''.join(lines[s:end])])
        prev_end = end
    tail = ''.join(lines[prev_end:])
    return out, tail

def main():
    b, o, t, outp = sys.argv[1:5]
    skip = set(sys.argv[5:])
    B, bt = units(open(b).read()); O, ot = units(open(o).read()); T, tt = units(open(t).read())
    Bd = dict((k, v) for k, v in B); Od = dict((k, v) for k, v in O); Td = dict((k, v) for k, v in T)
    result = [list(u) for u in O]
    keys = [u[0] for u in result]
    review = []
    # changed / deleted in theirs
    for k, v in T:
        if k in Bd:
            if v != Bd[k]:
                if k in Od and Od[k] == Bd[k]:
                    result[keys.index(k)][1] = v
                elif k in Od and Od[k] != v and k in skip:
                    review.append(k + ' (SKIPPED: ours kept)')
                elif k in Od and Od[k] != v:
                    with tempfile.TemporaryDirectory() as d:
                        for nm, tx in (('b', Bd[k]), ('o', Od[k]), ('t', v)):
                            open(os.path.join(d, nm), 'w').write(tx)
                        r = subprocess.run(['git', 'merge-file', '-p', os.path.join(d, 'o'), os.path.join(d, 'b'), os.path.join(d, 't')], capture_output=True, text=True)
                        if r.returncode == 0:
                            result[keys.index(k)][1] = r.stdout
                        else:
                            # keep ours; write the conflict for manual resolution
                            cf = '/tmp/conflict_%s.py' % k.replace(' ', '_')
                            open(cf, 'w').write(r.stdout)
                            review.append(k + ' (CONFLICT: ours kept, see %s)' % cf)
    for k in Bd:
        if k not in Td and k in Od and Od[k] == Bd[k]:
            i = keys.index(k); del result[i]; del keys[i]
    # new in theirs
    prev = None
    for k, v in T:
        if k not in Bd and k not in Od:
            if prev is not None and prev in keys:
                i = keys.index(prev) + 1
            else:
                i = len(result)
            result.insert(i, [k, v]); keys.insert(i, k)
        elif k not in Bd and k in Od and Od[k] != v:
            review.append(k + ' (added on both sides differently)')
        prev = k
    text = ''.join(v for k, v in result) + (ot if ot.strip() or not tt.strip() else tt)
    ast.parse(text)
    open(outp, 'w').write(text)
    print('merged %s: review=%s' % (os.path.basename(outp), review))

main()
