#!/venv/bin/python
"""tools/seed_meta.py <seed-id> <detected-by text>: record which rule reports a stored seed (enables it in the self-test)."""
import sys, json
p = '/verif/seeded/%s/meta.json' % sys.argv[1]
m = json.load(open(p))
m['detected_by'] = sys.argv[2]
m.pop('selftest', None)
json.dump(m, open(p, 'w'), indent=1)
