#!/bin/bash
# tools/seed_try.sh <seed-id> [props]: apply a stored seed to a scratch copy of /repo/dassh and run the checks on it
S=$1; P=${2:-${S%%-*}}
SC=$(mktemp -d -p /dev/shm dsa-st-XXXX); cp -r /repo/dassh $SC/
patch -p1 -s -f -d $SC -i /verif/seeded/$S/patch.diff || echo PATCHFAIL
for p in $(echo $P | tr , ' '); do /verif/check $p --repo $SC > $SC/out.txt 2>&1; echo "$S $p exit $?"; grep -E "VIOLATED|ANALYSIS" $SC/out.txt | cut -c1-${W:-330} | head -6; done
rm -rf $SC
