#!/venv/bin/python
"""Regenerate MANIFEST.json from the table below (single source of truth)."""
import json
import os

HERE = os.path.dirname(os.path.dirname(os.path.abspath(__file__)))
BASE = ("cd /repo && /venv/bin/python -m pytest -ra -q -p no:cacheprovider "
        "--timeout=900 --continue-on-collection-errors")

# property -> (technique, level text, level note)   (claimed checks only)
CLAIMED = {}
NOT_YET = {}


def claim(pid, technique, text, note, ref):
    CLAIMED[pid] = dict(technique=technique, text=text, note=note, ref=ref)


exec(open(os.path.join(HERE, 'tools', 'claims.py')).read())
exec(open(os.path.join(HERE, 'tools', 'claims_extra.py')).read())
for _p, (_t, _s) in EXTRA.items():
    if _p in CLAIMED:
        CLAIMED[_p]['technique'] += _t
        CLAIMED[_p]['text'] += _s
for _p, (_t, _s) in EXTRA2.items():
    if _p in CLAIMED:
        CLAIMED[_p]['technique'] += _t
        CLAIMED[_p]['text'] += _s
for _p, (_t, _s) in EXTRA3.items():
    if _p in CLAIMED:
        CLAIMED[_p]['technique'] += _t
        CLAIMED[_p]['text'] += _s

props = [json.loads(l)['id'] for l in open(os.path.join(HERE, 'properties.jsonl'))]
checks = []
na = []
for p in props:
    if p in CLAIMED:
        c = CLAIMED[p]
        checks.append({
            'property_id': p,
            'quick_cmd': './check %s --tier quick' % p,
            'thorough_cmd': './check %s --tier thorough' % p,
            'evidence_file': 'evidence/%s.json' % p,
            'replay_cmd_template': './check %s --replay {path}' % p,
            'engine': 'dsa',
            'level_claimed': {'category': 'other', 'text': c['text'],
                              'design_ref': c['ref']},
            'level_note': c['note'],
            'technique': c['technique'],
        })
    else:
        na.append({'property_id': p, 'reason': NOT_YET.get(
            p, 'static check not built yet (see DESIGN.md section 4 for the '
               'planned rules); not claimed until it runs clean')})
m = {
    'version': 1,
    'setup_cmd': 'true',
    'hooks': {'guard': 'DASSH_VERIF', 'enable': 'none needed: the checks '
              'parse /repo sources, nothing is instrumented',
              'baseline_off_cmd': BASE, 'source_commits': [],
              'add_only': True},
    'engines': [{'name': 'dsa', 'path': '/verif/dsa',
                 'serves_properties': sorted(CLAIMED),
                 'kind_free_text': 'repository-specific static analyser: '
                 'ast loader, statement CFG (dominance / must-pass-through),'
                 ' call graph, access paths, alias/effect analysis, '
                 'sign/interval, rank, record-shape and exact rational-'
                 'function abstract domains (incl. symbolic array index); '
                 'nothing under /repo is imported or executed'}],
    'checks': checks,
    'notes': 'All checks are static (technique family: static analysis). '
             'Exit 2 + ANALYSIS-ERROR means the analyser lost an anchor, '
             'never a property violation. See DESIGN.md.',
    'not_applicable': na,
}
with open(os.path.join(HERE, 'MANIFEST.json'), 'w') as fh:
    json.dump(m, fh, indent=1)
print('claimed', sorted(CLAIMED), 'not claimed', [x['property_id'] for x in na])
