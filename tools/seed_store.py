#!/venv/bin/python
"""tools/seed_store.py <seed-id> <property> <worktree> <caught-by|MISSED> <needs...>
Copies a confirmed sub-agent seed into /verif/seeded/<seed-id>/ and writes meta.json."""
import sys, os, json, shutil, subprocess
sid, prop, wt, caught = sys.argv[1:5]
needs = ' '.join(sys.argv[5:])
dst = os.path.join('/verif/seeded', sid)
os.makedirs(dst, exist_ok=True)
for f in ('patch.diff', 'demo.py', 'notes.md'):
    shutil.copy(os.path.join(wt, '_seed', f), os.path.join(dst, f))
for f in os.listdir(os.path.join(wt, '_seed')):
    if f not in ('patch.diff', 'demo.py', 'notes.md', '__pycache__') and \
            os.path.isfile(os.path.join(wt, '_seed', f)) and \
            os.path.getsize(os.path.join(wt, '_seed', f)) < 200000:
        shutil.copy(os.path.join(wt, '_seed', f), os.path.join(dst, f))
def tail(p):
    try:
        return open(p).read().strip().splitlines()[-1][:400]
    except Exception:
        return ''
base = subprocess.run(['git', '-C', '/repo', 'rev-parse', 'HEAD'], capture_output=True, text=True).stdout.strip()
meta = {
    'seed': sid, 'property': prop,
    'repo_commit_patch_applies_to': base,
    'origin': 'fresh sub-agent given only the property text and a scratch worktree',
    'needs_to_manifest': needs,
    'confirmed_by_me': {
        'commands': [
            'PYTHONPATH=<worktree> /venv/bin/python _seed/demo.py   (modified tree)  -> exit 1',
            'git apply -R _seed/patch.diff; same command (clean tree) -> exit 0; git apply _seed/patch.diff',
            'full pytest on the modified tree (by the sub-agent): all 268 baseline-passing tests still pass',
            'git -C /repo apply patch.diff; /verif/check %s --repo /repo; git -C /repo checkout -- .' % prop],
        'demo_on_modified_tree': tail('/tmp/seed_%s.mod.out' % prop),
        'demo_on_clean_tree': tail('/tmp/seed_%s.clean.out' % prop)},
    'detected_by': caught,
}
json.dump(meta, open(os.path.join(dst, 'meta.json'), 'w'), indent=1)
print('stored', dst)
