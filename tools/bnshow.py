#!/venv/bin/python
"""tools/bnshow.py bn-XX rN module qualname : show canon log and canonicalised source of a function on a scratch copy with the benign patch applied."""
import sys, os, subprocess, tempfile, shutil
sys.path.insert(0, '/verif')
b, r, mod, q = sys.argv[1:5]
sc = tempfile.mkdtemp(prefix='dsa-bs-', dir='/dev/shm')
shutil.copytree('/repo/dassh', sc + '/dassh')
subprocess.run(['patch', '-p1', '-s', '-f', '-d', sc, '-i', '/verif/benign/%s/%s.diff' % (b, r)])
from dsa import core
core.REPO = sc
rp = core.Repo()
m = rp.mod(mod)
for x in m.renames: print('LOG', x)
if q != '-':
    print(core.src(rp.func(mod, q).node))
shutil.rmtree(sc)
