#!/bin/bash
# tools/benign_store4.sh <N>: copy a finished benign-wave-4 agent's patches into /verif/benign/b4-0N, drop the worktree, evaluate
N=$1; D=/verif/benign/b4-0$N; mkdir -p $D
cp /tmp/b4-$N/_benign/r*.diff $D/ && cp /tmp/b4-$N/_benign/notes.md $D/ 2>/dev/null
git -C /repo worktree remove --force /tmp/b4-$N
/verif/tools/benign_eval.py $D | cut -c1-520
