#!/bin/bash
# tools/bn1.sh bn-XX rN [props]: apply one benign patch to a scratch copy and run checks verbosely; keeps scratch dir path in /tmp/bn1.dir
B=$1; R=$2; PROPS=${3:-}
SC=$(mktemp -d -p /dev/shm dsa-b1-XXXX); cp -r /repo/dassh $SC/; patch -p1 -s -f -d $SC -i /verif/benign/$B/$R.diff || echo PATCHFAIL
echo $SC > /tmp/bn1.dir
for p in $(echo $PROPS | tr , ' '); do /verif/check $p --repo $SC | grep -E "VIOLATED|ANALYSIS|construct|canonical" | cut -c1-330 | head -12; done
