#!/venv/bin/python
"""Generate selftest/Cxx.json: single-construct mutants (must be reported by
the named rule) and behaviour-preserving variants (must stay silent).
Every entry is a textual edit (first occurrence) of one file under /repo."""
import json
import os

HERE = os.path.dirname(os.path.dirname(os.path.abspath(__file__)))
C = {}


def M(prop, name, file, old, new, expect=None):
    C.setdefault(prop, []).append({'kind': 'mutant', 'name': name,
                                   'file': file, 'old': old, 'new': new,
                                   'expect': expect or prop})


def B(prop, name, file, old, new):
    C.setdefault(prop, []).append({'kind': 'benign', 'name': name,
                                   'file': file, 'old': old, 'new': new})


RR = 'dassh/region_rodded.py'
RU = 'dassh/region_unrodded.py'
AS = 'dassh/assembly.py'
CO = 'dassh/core.py'
RX = 'dassh/reactor.py'
RI = 'dassh/read_input.py'
PW = 'dassh/power.py'
PM = 'dassh/pin_model.py'
OR = 'dassh/orificing.py'
TB = 'dassh/table.py'
SC = 'dassh/subchannel.py'
MF = 'dassh/mesh_functions.py'
HS = 'dassh/hotspot.py'
FC = 'dassh/correlations/flowsplit_ctd.py'

# ---------------------------------------------------------------- C01
M('C01', 'receiver-area-swapped', RR,
  "                         / rr.L[i][j] / rr.int_flow_rate\n"
  "                         / rr.params['area'][i])\n                else:",
  "                         / rr.L[i][j] / rr.int_flow_rate\n"
  "                         / rr.params['area'][j])\n                else:",
  'C01.R3')
M('C01', 'asymmetric-branch', RR,
  "                if i == 0 or j == 0:\n                    ht_consts[i][j]",
  "                if i == 0:\n                    ht_consts[i][j]", 'C01.R3')
M('C01', 'two-swirl-velocities', RR,
  "            self.coolant_int_params['swirl'][2] = tmp",
  "            self.coolant_int_params['swirl'][2] = tmp * 0.5", 'C01.R4')
M('C01', 'assign-instead-of-increment', RR,
  "        self.temp['coolant_int'] += \\\n"
  "            self._calc_coolant_int_temp(dz, q['pins'], q['cool'], ebal)",
  "        self.temp['coolant_int'] = \\\n"
  "            self._calc_coolant_int_temp(dz, q['pins'], q['cool'], ebal)",
  'C01.R6')
M('C01', 'shared-coolant-left-at-bypass', RR,
  "            self._update_coolant_byp_params(self.avg_coolant_byp_temp)\n"
  "            # The coolant object is shared with the bundle interior:\n"
  "            # return it to the interior temperature so that the next\n"
  "            # interior step and the pressure drop use interior properties\n"
  "            self._update_coolant(self.avg_coolant_int_temp)\n",
  "            self._update_coolant_byp_params(self.avg_coolant_byp_temp)\n",
  'C01.R9')
M('C01', 'shared-coolant-restored-to-bypass', RR,
  "            # interior step and the pressure drop use interior properties\n"
  "            self._update_coolant(self.avg_coolant_int_temp)\n",
  "            # interior step and the pressure drop use interior properties\n"
  "            self._update_coolant(self.avg_coolant_byp_temp[0])\n",
  'C01.R9')
B('C01', 'shared-coolant-restored-via-update', RR,
  "            # interior step and the pressure drop use interior properties\n"
  "            self._update_coolant(self.avg_coolant_int_temp)\n",
  "            # interior step and the pressure drop use interior properties\n"
  "            self.coolant.update(self.avg_coolant_int_temp)\n")
M('C01', 'carry-interior-mean', 'dassh/region.py',
  'avg_cool_temp = previous_reg.avg_coolant_temp',
  'avg_cool_temp = previous_reg.avg_coolant_int_temp', 'C01.R7')
M('C01', 'swirl-const-wrong-area', RR,
  "        self.ht['swirl'] = (self.d['pin-wall']\n"
  "                            * self.bundle_params['area']",
  "        self.ht['swirl'] = (self.d['pin-wall']\n"
  "                            * self.bundle_params['de']", 'C01.R4')
M('C01', 'fraction-table', RR,
  'q_p2sc = np.array([0.166666666666667, 0.25, 0.166666666666667])',
  'q_p2sc = np.array([0.166666666666667, 0.25, 0.25])', 'C01.R1')
M('C01', 'byp-outer-wall-column', RR,
  "                dT_out = (byp_conv_const[:, 1] / R",
  "                dT_out = (byp_conv_const[:, 0] / R", 'C01.R5')
M('C01', 'unmirrored-distance', RR, '    L[1][0] = L[0][1]  # edge-interior',
  '    L[1][0] = 0.5 * L[0][1]  # edge-interior', 'C01.R3')
B('C01', 'reorder-factors', RR,
  "                        (rr.d['pin-pin']\n"
  "                         * rr.bundle_params['area']\n"
  "                         / rr.L[i][j] / rr.int_flow_rate\n"
  "                         / rr.params['area'][i])\n                else:",
  "                        (rr.bundle_params['area'] * rr.d['pin-pin']\n"
  "                         / rr.int_flow_rate / rr.L[i][j]\n"
  "                         / rr.params['area'][i])\n                else:")
B('C01', 'comment-only', RR, '        # HEAT FROM ADJACENT FUEL PINS',
  '        # Heat from the adjacent fuel pins (comment changed)')

# ---------------------------------------------------------------- C02
M('C02', 'bare-gap-temperature', RX,
  "            gap_temp = dassh.mesh_functions.map_across_gap(\n"
  "                (self.core.adjacent_coolant_gap_temp(i)\n"
  "                 * self.core.adjacent_coolant_gap_htc(i)),\n"
  "                asm.active_region._map['gap2duct'])\n"
  "            gap_temp = gap_temp / gap_htc",
  "            gap_temp = dassh.mesh_functions.map_across_gap(\n"
  "                self.core.adjacent_coolant_gap_temp(i),\n"
  "                asm.active_region._map['gap2duct'])", 'C02.R1')
M('C02', 'division-dropped', AS,
  "                new_gap_temp = new_gap_temp / new_gap_htc\n", "", 'C02.R1')
M('C02', 'neighbour-index', RX,
  "            self._calculate_asm_temperatures(self.assemblies[ai], ai,",
  "            self._calculate_asm_temperatures(self.assemblies[ai], ai - 1,",
  'C02.R2')
M('C02', 'adiabatic-reads-gap', RR,
  "                c2 = (t_in\n                      + qLsq_over_8k",
  "                c2 = (t_out\n                      + qLsq_over_8k", 'C02.R5')
M('C02', 'tally-after-update', CO,
  "        self._update_energy_balance(dz, asm_duct_temps)\n\n"
  "        # Calculate new coolant gap temperatures\n"
  "        if self.model == 'flow':\n"
  "            dT = self._flow_model(dz, asm_duct_temps)\n"
  "            self.coolant_gap_temp += dT\n",
  "        # Calculate new coolant gap temperatures\n"
  "        if self.model == 'flow':\n"
  "            dT = self._flow_model(dz, asm_duct_temps)\n"
  "            self.coolant_gap_temp += dT\n"
  "            self._update_energy_balance(dz, asm_duct_temps)\n", 'C02.R3')
M('C02', 'wrong-map', RX,
  "                    a.active_region._map['duct2gap'])\n"
  "                 for a in self.assemblies])",
  "                    a.active_region._map['gap2duct'].T)\n"
  "                 for a in self.assemblies])", 'C02.R2')
B('C02', 'rename-local', RX,
  "        if dump_step:\n            asm.write(self._options['dump']['files'],"
  " gap_temp)",
  "        if dump_step is True:\n            asm.write(self._options['dump']"
  "['files'], gap_temp)")

# ---------------------------------------------------------------- C03
M('C03', 'tally-without-dz', AS,
  "                self._power_delivered[k] += dz * np.sum(pow_j[k])",
  "                self._power_delivered[k] += np.sum(pow_j[k])", 'C03.R1')
M('C03', 'renorm-dropped', PW,
  "            pp['duct'] = np.dot(self.duct_power[k], z_exp) * 100 * renorm",
  "            pp['duct'] = np.dot(self.duct_power[k], z_exp) * 100", 'C03.R2')
M('C03', 'presweep-all-steps', PW,
  "            in_region = (kfint == kf) & in_bundle",
  "            in_region = (kfint == kf)", 'C03.R3')
M('C03', 'scale-forgets-average', RX,
  "                # Average power profile\n"
  "                plist[i][1] *= pscalar\n", "", 'C03.R4')
M('C03', 'counter-not-advanced', PW,
  "            kf = self._kfint[self._step]\n            self._step += 1",
  "            kf = self._kfint[self._step]", 'C03.R6')
M('C03', 'predicate-strictness', PW,
  "        if z <= self.rod_zbnds[0] or z > self.rod_zbnds[1]:\n"
  "            p_lin = {'pins': None,",
  "        if z < self.rod_zbnds[0] or z > self.rod_zbnds[1]:\n"
  "            p_lin = {'pins': None,", 'C03.R3')
B('C03', 'comment', PW, '        # GET KFINT FOR EVERY AXIAL STEP',
  '        # kfint for every axial step')

# ---------------------------------------------------------------- C04
M('C04', 'one-edge-neighbour', RR,
  "    term2 = 2 * keff * d_p2w / m2 / Cp / L22    # cond to adj edge\n"
  "    term3 = keff * d_p2p / m2 / Cp / L21        # cond to adj int\n"
  "    term4 = rho * vs * d_p2w / m2               # swirl\n"
  "    return 1 / (term1 + term2 + term3 + term4)",
  "    term2 = keff * d_p2w / m2 / Cp / L22    # cond to adj edge\n"
  "    term3 = keff * d_p2p / m2 / Cp / L21        # cond to adj int\n"
  "    term4 = rho * vs * d_p2w / m2               # swirl\n"
  "    return 1 / (term1 + term2 + term3 + term4)", 'C04.R2')
M('C04', 'two-of-three', RR, "    return m1 * Cp * L11 / 3 / d_p2p / keff",
  "    return m1 * Cp * L11 / 2 / d_p2p / keff", 'C04.R2')
M('C04', 'wrong-distance-argument', RR,
  "            bundle.L[1][2],\n            bundle.d['pin-wall'],\n"
  "            bundle.d['wcorner'][0, 1],\n            keff,",
  "            bundle.L[1][1],\n            bundle.d['pin-wall'],\n"
  "            bundle.d['wcorner'][0, 1],\n            keff,", 'C04.R2')
M('C04', 'max-instead-of-min', RR,
  "        min_dz = min(dz)\n        return min_dz, sc_code[dz.index(min_dz)]"
  "\n\n\ndef _cons1_111",
  "        min_dz = max(dz)\n        return min_dz, sc_code[dz.index(min_dz)]"
  "\n\n\ndef _cons1_111", 'C04.R1')
M('C04', 'noflow-denominator', CO,
  "        return T / (C_cond + C_conv)", "        return T / (C_conv)",
  'C04.R5')
M('C04', 'reversed-difference', CO,
  "        dT += C[:, 1] * (t_duct[tuple(self._conv_util['inds'][1])]\n"
  "                         - self.coolant_gap_temp)",
  "        dT += C[:, 1] * (self.coolant_gap_temp\n"
  "                         - t_duct[tuple(self._conv_util['inds'][1])])",
  'C04.R6')
M('C04', 'approx-uses-h', RR,
  "            term1 = L22 / m2 / Cp / R           # conv / cond to duct MW",
  "            term1 = h * L22 / m2 / Cp           # conv / cond to duct MW",
  'C04.R2')
M('C04', 'gap-sum-of-distances', CO,
  "                 * np.sum(core_obj._Rcond, axis=1)\n",
  "                 * core_obj.d_gap / np.sum(core_obj.gap_params['L'], "
  "axis=1)\n", 'C04.R3')
M('C04', 'single-node-mratio', RU,
  "                          / reg.coolant_params['htc'] / reg.duct_perim)",
  "                          / reg.coolant_params['htc'] / reg.duct_perim\n"
  "                          / reg.mratio)", 'C04.R3')
M('C04', 'swirl-term-dropped', RR,
  "    term3 = rho * vs * d_p2w / m3               # swirl\n"
  "    return 1 / (term1 + term2 + term3)\n\n\ndef _cons3_33",
  "    term3 = 0.0 * rho * vs * d_p2w / m3               # swirl\n"
  "    return 1 / (term1 + term2 + term3)\n\n\ndef _cons3_33", 'C04.R2')
B('C04', 'algebraically-equal-criterion', RR,
  "    return m1 * Cp * L11 / 3 / d_p2p / keff",
  "    return (m1 * Cp / keff) * (L11 / (3 * d_p2p))")
B('C04', 'terms-reordered', RR,
  "    return 1 / (term1 + term2 + term3)\n\n\ndef _cons3_33",
  "    return 1 / (term3 + term1 + term2)\n\n\ndef _cons3_33")

# ---------------------------------------------------------------- C05
M('C05', 'guard-removed', RX,
  "        if not self.req_dz > 0.0:\n", "        if False:\n", 'C05.R1')
M('C05', 'nonstrict-boundary', RX,
  "        cross_boundary = [z < bi and z + self.req_dz > bi",
  "        cross_boundary = [z <= bi and z + self.req_dz > bi", 'C05.R2')
M('C05', 'last-crossing', RX,
  "            crossed_bound = np.where(cross_boundary)[0][0]",
  "            crossed_bound = np.where(cross_boundary)[0][-1]", 'C05.R2')
M('C05', 'source-dropped', RX,
  "        if self._options['axial_plane'] is not None:\n"
  "            ax_bnd += self._options['axial_plane']\n", "", 'C05.R3')
M('C05', 'round-instead-of-floor', RX,
  "        self.req_dz = np.floor(np.min(self.min_dz['dz']) * 1e6) / 1e6",
  "        self.req_dz = np.round(np.min(self.min_dz['dz']) * 1e6) / 1e6",
  'C05.R4')
M('C05', 'user-step-wins', RX,
  "                and self._options['axial_mesh_size'] <= self.req_dz):\n"
  "            self.req_dz = self._options['axial_mesh_size']",
  "                and self._options['axial_mesh_size'] >= self.req_dz):\n"
  "            self.req_dz = self._options['axial_mesh_size']", 'C05.R4')
M('C05', 'gap-not-appended', RX,
  "        if dz is not None:\n            self.min_dz['dz'].append(dz)\n"
  "            self.min_dz['sc'].append(sc)\n\n        # Precalculate",
  "        if dz is not None:\n            self.min_dz['sc'].append(sc)\n\n"
  "        # Precalculate", 'C05.R4')
B('C05', 'guard-written-differently', RX,
  "        if not self.req_dz > 0.0:\n", "        if self.req_dz <= 0.0:\n")

# ---------------------------------------------------------------- C06
M('C06', 'shared-temp', RR, "clone.temp = copy.deepcopy(self.temp)",
  "clone.temp = self.temp", 'C06.R1')
M('C06', 'shared-coolant', RR,
  "        clone.coolant = self.coolant.clone()\n", "", 'C06.R1')
M('C06', 'shared-peak', AS, "clone._peak = copy.deepcopy(self._peak)",
  "clone._peak = self._peak", 'C06.R1')
M('C06', 'shared-power-tally', AS,
  "        clone._power_delivered = copy.deepcopy(self._power_delivered)\n",
  "", 'C06.R1')
M('C06', 'shared-ebal', RR, "clone.ebal = copy.deepcopy(self.ebal)", "pass",
  'C06.R1')
M('C06', 'rr-equivalent-shallow', RU,
  "            setattr(clone, attr, copy.deepcopy(getattr(self, attr)))",
  "            setattr(clone, attr, getattr(self, attr))", 'C06.R1')
M('C06', 'module-state', RR,
  "def make(inp, name, mat, fr, se2geo=False, update_tol=0.0, "
  "gravity=False):",
  "_made = []\n\n\ndef _note(x):\n    _made.append(x)\n\n\n"
  "def make(inp, name, mat, fr, se2geo=False, update_tol=0.0, "
  "gravity=False):", 'C06.R2')
B('C06', 'fresh-dict-instead-of-deepcopy', AS,
  "        clone._power_delivered = copy.deepcopy(self._power_delivered)\n",
  "        clone._power_delivered = dict(self._power_delivered)\n")

# ---------------------------------------------------------------- C07
M('C07', 'neighbour-table', CO,
  "_dirs[0] = [(0, -1), (-1, -1), (-1, 0), (0, 1), (1, 1), (1, 0)]",
  "_dirs[0] = [(0, -1), (-1, -1), (-1, 0), (0, 1), (1, 0), (1, 1)]", 'C07.R1')
M('C07', 'corner-angle', SC,
  "_corner_angle = [np.pi / 6, 11 * np.pi / 6",
  "_corner_angle = [np.pi / 6, 10 * np.pi / 6", 'C07.R1')
M('C07', 'swirl-column', RR,
  "            self._adj_sw = 3\n        else:\n            self._adj_sw = 4",
  "            self._adj_sw = 4\n        else:\n            self._adj_sw = 3",
  'C07.R2')
M('C07', 'pin-steps', 'dassh/pin.py',
  "(-_sqrt3over2, 0.5), (0, 1), (_sqrt3over2, 0.5)]",
  "(-_sqrt3over2, 0.5), (_sqrt3over2, 0.5), (0, 1)]", 'C07.R1')
M('C07', 'sibling-table-rotated', CO,
  "    _dirs = [(0, -1), (-1, -1), (-1, 0), (0, 1), (1, 1), (1, 0)]",
  "    _dirs = [(-1, -1), (-1, 0), (0, 1), (1, 1), (1, 0), (0, -1)]", 'C07.R1')
B('C07', 'angle-written-differently', SC,
  "_edge_angle = [np.pi / 3, 0.0, 5 * np.pi / 3, 4 * np.pi / 3,",
  "_edge_angle = [np.pi / 3, 0.0, 10 * np.pi / 6, 4 * np.pi / 3,")

# ---------------------------------------------------------------- C08
M('C08', 'index-arrays', SC,
  "            row, col = row[0], col[0]  # each subchannel appears once\n",
  "", 'C08.R1')
M('C08', 'short-list', RR, "L[6][6] = [0.0 for byp in range(n_bypass)]",
  "L[6][6] = [0.0]", 'C08.R2')
M('C08', 'short-comprehension', RR,
  "L[6][6] = [0.0 for byp in range(n_bypass)]",
  "L[6][6] = [0.0 for byp in range(n_bypass - 1)]", 'C08.R2')
M('C08', 'count-formula', SC,
  "self.n_sc['coolant']['interior'] = 6 * (n_ring - 1)**2",
  "self.n_sc['coolant']['interior'] = 6 * (n_ring - 1) * n_ring", 'C08.R3')
B('C08', 'count-formula-expanded', SC,
  "self.n_sc['coolant']['interior'] = 6 * (n_ring - 1)**2",
  "self.n_sc['coolant']['interior'] = 6 * (n_ring**2 - 2 * n_ring + 1)")

# ---------------------------------------------------------------- C09
M('C09', 'coarser-pitch', CO,
  "                if asm.rodded.pin_pitch < neighbor.rodded.pin_pitch:\n"
  "                    return asm, sc_per_side",
  "                if asm.rodded.pin_pitch > neighbor.rodded.pin_pitch:\n"
  "                    return asm, sc_per_side", 'C09.R1')
M('C09', 'own-mesh-always', CO,
  "            elif sc_per_side < sc_per_side_adj:\n"
  "                return neighbor, sc_per_side_adj",
  "            elif sc_per_side < sc_per_side_adj:\n"
  "                return asm, sc_per_side", 'C09.R1')
M('C09', 'unrodded-wins', CO,
  "        elif not asm.has_rodded and neighbor.has_rodded:\n"
  "            return neighbor, neighbor.rodded.n_ring - 1",
  "        elif not asm.has_rodded and neighbor.has_rodded:\n"
  "            return asm, 0", 'C09.R1')
M('C09', 'corner-rule-differs', CO,
  "                elif asm + 1 < neighbor_p1:",
  "                elif asm + 1 <= neighbor_p1:", 'C09.R2')
M('C09', 'area-fraction', CO,
  "        self.gap_params['area frac'] = (self.gap_params['area']\n"
  "                                        / self.gap_params['total area'])",
  "        self.gap_params['area frac'] = (self.gap_params['area']\n"
  "                                        / self.gap_params['total de'])",
  'C09.R3')
B('C09', 'tie-broken-other-way', CO,
  "                if asm.rodded.pin_pitch < neighbor.rodded.pin_pitch:",
  "                if asm.rodded.pin_pitch <= neighbor.rodded.pin_pitch:")

# ---------------------------------------------------------------- C10
M('C10', 'swapped-normalisers', MF,
  "m_f2c = (mapping_f2c.T / dx_reg).T", "m_f2c = (mapping_f2c / dx_core)",
  'C10.R1')
M('C10', 'corner-fold-differs', MF, "    m_c2f[-1] *= 0.5\n", "", 'C10.R1')
M('C10', 'stored-swapped', RX, "reg._map['gap2duct'] = map_fine2coarse",
  "reg._map['gap2duct'] = map_coarse2fine", 'C10.R2')
M('C10', 'overlap-lower-bound', MF, "FME_UBND - FME_LBND])",
  "FME_UBND - CME_LBND])", 'C10.R1')

# ---------------------------------------------------------------- C11
M('C11', 'ratio-sign', RR, "* (htc_ratio - 1)", "* (htc_ratio + 1)", 'C11.R4')
M('C11', 'c2-sign', RR,
  "                      - self.duct.thermal_conductivity * c1 / htc_out",
  "                      + self.duct.thermal_conductivity * c1 / htc_out",
  'C11.R4')
M('C11', 'adiabatic-uses-outer-htc', RR,
  "                      + c1 * self.duct.thermal_conductivity / htc_in)",
  "                      + c1 * self.duct.thermal_conductivity / htc_out)",
  'C11.R4')
M('C11', 'geometry-constant', RR,
  "duct['L^2/8'][i] = duct['L^2/4'][i] * 0.5",
  "duct['L^2/8'][i] = duct['L^2/4'][i] * 0.25", 'C11.R4')
M('C11', 'unrodded-sign', RU,
  "* (1 + self.coolant_params['htc'] / htc_gap))))",
  "* (1 - self.coolant_params['htc'] / htc_gap))))", 'C11.R4')
M('C11', 'surface-sign', RR, "-qLsq_over_8k + c1_L_over_2 + c2",
  "-qLsq_over_8k - c1_L_over_2 + c2", 'C11')
B('C11', 'equivalent-algebra', RR,
  "                c1_L_over_2 = c1 * self.duct_params['L/2'][i]\n"
  "                c2 = (t_out",
  "                c1_L_over_2 = self.duct_params['L/2'][i] * c1\n"
  "                c2 = (t_out")

# ---------------------------------------------------------------- C12
M('C12', 'normalisation-area', FC,
  "                       + const['xr'][k][0] * const['na'][0]\n",
  "                       + const['xr'][k][0] * const['na'][2]\n", 'C12.R4')
M('C12', 'iteration-ratios-swapped', FC,
  "x2_new = 1 / (s[1] + s[0] * x1x2 + s[2] * x3x2)",
  "x2_new = 1 / (s[1] + s[0] * x3x2 + s[2] * x1x2)", 'C12.R4')
M('C12', 'constant-dropped', 'dassh/correlations/friction_ctd.py',
  "    c['Cf_sc'] = calculate_subchannel_friction_factor_const(asm_obj)\n"
  "    c['Cf_b']", "    c['Cf_b']", 'C12.R1')
M('C12', 'mit-exponent', 'dassh/correlations/flowsplit_mit.py',
  "          / ((na2 + na3) + (na1 * lol**-0.571",
  "          / ((na2 + na3) + (na1 * lol**0.571", 'C12.R4')
M('C12', 'grid-keyword-removed', 'dassh/correlations/flowsplit_nov.py',
  "def calculate_flow_split(asm_obj, shortcut=True, grid=False):",
  "def calculate_flow_split(asm_obj, shortcut=True):", 'C12.R2')
M('C12', 'guard-narrowed', FC,
  "        Re_bnds = asm_obj.corr_constants['fs']['Re_bnds']\n"
  "    except (KeyError, AttributeError):",
  "        Re_bnds = asm_obj.corr_constants['fs']['Re_bnds']\n"
  "    except AttributeError:", 'C12.R1')
M('C12', 'regime-positional', 'dassh/correlations/mixing_ctd.py',
  "ctd_fs.calculate_flow_split(asm_obj, regime='laminar')",
  "ctd_fs.calculate_flow_split(asm_obj, 'laminar')", 'C12.R2')
B('C12', 'wider-guard', 'dassh/correlations/friction_ctd.py',
  "        cfb = asm_obj.corr_constants['ff']['Cf_b']\n"
  "    except (KeyError, AttributeError):",
  "        cfb = asm_obj.corr_constants['ff']['Cf_b']\n"
  "    except (KeyError, AttributeError, TypeError):")

# ---------------------------------------------------------------- C13
M('C13', 'film-drop-sign', PM, "T[:, 2] = T_cool + C / htc",
  "T[:, 2] = T_cool - C / htc", 'C13.R1')
M('C13', 'fuel-shell-sign', PM, "T_in1 = T_out + dT / k_ip1",
  "T_in1 = T_out - dT / k_ip1", 'C13.R1')
M('C13', 'unflipped', PM, "return np.fliplr(T)", "return T", 'C13.R1')
M('C13', 'unbounded-iteration', PM,
  "            idx += 1\n            if idx > ilim:",
  "            if idx > ilim:", 'C13.R2')
M('C13', 'log-ratio-inverted', PM,
  "        self.clad['ln_r2r'] = np.log(self.clad['r'][2]\n"
  "                                     / self.clad['r'][0])",
  "        self.clad['ln_r2r'] = np.log(self.clad['r'][0]\n"
  "                                     / self.clad['r'][2])", 'C13.R1')
B('C13', 'same-increment-regrouped', PM, "T[:, 2] = T_cool + C / htc",
  "T[:, 2] = T_cool + (C / htc)")

# ---------------------------------------------------------------- C14
M('C14', 'strict-both-ends', RR, "if z - dz < _z <= z)", "if z - dz < _z < z)",
  'C14.R1')
M('C14', 'any-instead-of-count', RR,
  "        n_grid = sum(1 for _z in self.corr_constants['grid']['z']\n"
  "                     if z - dz < _z <= z)",
  "        n_grid = int(any(z - dz < _z <= z for _z in\n"
  "                         self.corr_constants['grid']['z']))", 'C14.R1')
M('C14', 'friction-assigned', RR,
  "        self._pressure_drop['friction'] += \\\n"
  "            self.calculate_friction_pressure_drop(dz)\n"
  "        if 'grid' in",
  "        self._pressure_drop['friction'] = \\\n"
  "            self.calculate_friction_pressure_drop(dz)\n"
  "        if 'grid' in", 'C14.R2')
M('C14', 'gravity-quadratic', RR,
  "        return self.coolant.density * 9.80665 * dz\n\n"
  "    def calculate_byp_pressure_drop",
  "        return self.coolant.density * 9.80665 * dz * dz\n\n"
  "    def calculate_byp_pressure_drop", 'C14.R2')
M('C14', 'component-not-summed', RR,
  "        return self._pressure_drop['friction'] \\\n"
  "            + self._pressure_drop['spacer_grid'] \\\n"
  "            + self._pressure_drop['gravity']",
  "        return self._pressure_drop['friction'] \\\n"
  "            + self._pressure_drop['gravity']", 'C14.R3')
M('C14', 'ff-updated-in-sweep', RR,
  "        # Friction factor\n        # if self.corr['ff'] is not None:\n",
  "        # Friction factor\n        if self.corr['ff'] is not None:\n"
  "            self.coolant_int_params['ff'] = self.corr['ff'](self)\n"
  "        # if self.corr['ff'] is not None:\n", 'C14.R4')
M('C14', 'region-drop-twice', AS,
  "            self._pressure_drop += \\\n"
  "                self.region[old_region_id].pressure_drop",
  "            self._pressure_drop += \\\n"
  "                2 * self.region[old_region_id].pressure_drop", 'C14.R4')
B('C14', 'interval-other-spelling', RR, "if z - dz < _z <= z)",
  "if _z > z - dz and _z <= z)")

# ---------------------------------------------------------------- C15
M('C15', 'update-before-calculation', AS,
  "        self.active_region.calculate(dz, pow_j, t_gap, h_gap, adiabatic, "
  "ebal)\n        self.active_region.calculate_pressure_drop(self.z, dz)\n\n"
  "        # Update peak coolant and duct temperatures\n"
  "        self._update_peak_coolant_temps()\n",
  "        self._update_peak_coolant_temps()\n"
  "        self.active_region.calculate(dz, pow_j, t_gap, h_gap, adiabatic, "
  "ebal)\n        self.active_region.calculate_pressure_drop(self.z, dz)\n\n"
  "        # Update peak coolant and duct temperatures\n", 'C15.R1')
M('C15', 'peak-is-minimum', AS, "        max_cool = np.max(self.temp_coolant)",
  "        max_cool = np.min(self.temp_coolant)", 'C15.R2')
M('C15', 'duct-axis', AS,
  "        max_duct = np.max(self.temp_duct_mw, axis=1)",
  "        max_duct = np.max(self.temp_duct_mw, axis=0)", 'C15.R2')
M('C15', 'profile-not-copied', AS,
  "                self._peak['pin'][k][2] = list(t_pin[idx])",
  "                self._peak['pin'][k][2] = t_pin[idx]", 'C15.R2')
M('C15', 'column-shift', HS, "           'clad_mw': 6,", "           'clad_mw': 7,",
  'C15.R3')
M('C15', 'reader-left-aligned', TB,
  "                dpk = len(a._peak['duct']) - len(face_temps) + d",
  "                dpk = d", 'C15.R4')
M('C15', 'outlet-from-peak', TB,
  "            tc_avg = self.temp_conv(a.avg_coolant_temp)",
  "            tc_avg = self.temp_conv(a._peak['cool'][0])", 'C15.R5')
M('C15', 'height-from-region', AS,
  "            self._peak['cool'] = (max_cool, self.z)",
  "            self._peak['cool'] = (max_cool, self.active_region.z[0])",
  'C15.R2')
B('C15', 'greater-equal', AS,
  "        if max_cool > self._peak['cool'][0]:",
  "        if max_cool >= self._peak['cool'][0]:")
B('C15', 'copy-other-idiom', AS,
  "                self._peak['pin'][k][2] = list(t_pin[idx])",
  "                self._peak['pin'][k][2] = t_pin[idx].copy()")

# ---------------------------------------------------------------- C16
M('C16', 'input-dict-written', RR,
  "        fuel_params = dict(inp['FuelModel'])\n",
  "        fuel_params = inp['FuelModel']\n", 'C16.R1')
M('C16', 'dump-alias', RX,
  "        self._options['dump'] = dict(inp.data['Setup']['Dump'])",
  "        self._options['dump'] = inp.data['Setup']['Dump']", 'C16.R1')
M('C16', 'core-gets-input-material', RX,
  "            self.materials[cool_mat].clone(),\n"
  "            inlet_temperature=self.inlet_temp,",
  "            self.materials[cool_mat],\n"
  "            inlet_temperature=self.inlet_temp,", 'C16.R1')
M('C16', 'template-gets-input-material', RX,
  "            mat_data['coolant'] = self.materials[cool_mat].clone()",
  "            mat_data['coolant'] = self.materials[cool_mat]", 'C16')
M('C16', 'sort-input-list', RX,
  "            asm_data = inp.data['Assembly'][a]\n\n"
  "            # Create materials dictionary",
  "            asm_data = inp.data['Assembly'][a]\n"
  "            asm_data['duct_ftf'].sort()\n\n"
  "            # Create materials dictionary", 'C16.R1')
M('C16', 'shared-working-dir', 'dassh/__main__.py',
  "            working_dir = os.path.join(\n"
  "                dassh_input.path, f'timestep_{i + 1}')",
  "            working_dir = os.path.join(\n"
  "                dassh_input.path, 'timestep')", 'C16.R2')
M('C16', 'parallel-other-args', 'dassh/__main__.py',
  "                    args=(dassh_input,\n                          rx_args,\n"
  "                          i,\n                          working_dir, )",
  "                    args=(dassh_input,\n                          rx_args,\n"
  "                          0,\n                          working_dir, )",
  'C16.R2')
B('C16', 'deepcopy-instead-of-dict', RX,
  "        self._options['dump'] = dict(inp.data['Setup']['Dump'])",
  "        self._options['dump'] = copy.deepcopy(inp.data['Setup']['Dump'])")

# ---------------------------------------------------------------- C17
M('C17', 'key-dropped', RI,
  "        for p in ['pin_pitch', 'pin_diameter', 'clad_thickness',\n"
  "                  'wire_pitch', 'wire_diameter']:",
  "        for p in ['pin_pitch', 'pin_diameter', 'clad_thickness',\n"
  "                  'wire_diameter']:", 'C17.R1')
M('C17', 'converted-twice', RI,
  "    data['Core']['assembly_pitch'] = conv(data['Core']['assembly_pitch'])\n",
  "    data['Core']['assembly_pitch'] = conv(data['Core']['assembly_pitch'])\n"
  "    data['Core']['assembly_pitch'] = conv(data['Core']['assembly_pitch'])\n",
  'C17.R1')
M('C17', 'inch-constant', 'dassh/utils.py',
  "    return length * 2.54 / 100.0", "    return length * 2.45 / 100.0",
  'C17.R4')
M('C17', 'swapped-dispatch', 'dassh/utils.py',
  "        if out_unit in _cm:\n            return _meters_to_centimeters",
  "        if out_unit in _cm:\n            return _meters_to_millimeters",
  'C17.R4')
M('C17', 'impure-converter', RI,
  "    # Convert duct approx cutoff\n",
  "    data['Setup']['conv_approx'] = True\n    # Convert duct approx cutoff\n",
  'C17.R2')
M('C17', 'check-after-conversion', RI,
  "        self.check_parallel()\n\n        # Convert units to DASSH defaults\n"
  "        self.convert_units()\n",
  "        # Convert units to DASSH defaults\n        self.convert_units()\n"
  "        self.check_parallel()\n", 'C17.R3')
M('C17', 'raw-temperature-to-material', RI,
  "        if t_unit not in utils._DEFAULT_UNITS['temperature']:\n"
  "            inlet_temp = utils.get_temperature_conversion(\n"
  "                t_unit, 'k')(inlet_temp)\n", "", 'C17.R6')
B('C17', 'key-list-reordered', RI,
  "        for p in ['pin_pitch', 'pin_diameter', 'clad_thickness',\n"
  "                  'wire_pitch', 'wire_diameter']:",
  "        for p in ['wire_diameter', 'pin_pitch', 'clad_thickness',\n"
  "                  'wire_pitch', 'pin_diameter']:")
B('C17', 'same-affine-map', 'dassh/utils.py',
  "    return length * 2.54 / 100.0", "    return length * 0.0254")

M('C17', 'mfr-getters-unguarded', RI,
  "    if m_unit not in utils._DEFAULT_UNITS['mass']:\n"
  "        m_conv = utils.get_mass_conversion(m_unit, 'kg')\n",
  "    m_conv = utils.get_mass_conversion(m_unit, 'kg')\n", 'C17.R8')
M('C17', 'table-getter-unguarded', TB,
  "        if unit not in utils._DEFAULT_UNITS['length']:\n"
  "            return utils.get_length_conversion('m', unit)\n"
  "        else:\n            return _echo_value\n",
  "        return utils.get_length_conversion('m', unit)\n", 'C17.R8')
M('C17', 'byposition-shallow-dict', RI,
  "                dat['ByPosition'][asm] = copy.deepcopy(\n"
  "                    [l[0], (ring, pos, asm), l[4]])\n",
  "                bc = l[4]\n"
  "                dat['ByPosition'][asm] = [l[0], (ring, pos, asm), bc]\n",
  'C17.R7')
B('C17', 'byposition-dict-copy', RI,
  "                dat['ByPosition'][asm] = copy.deepcopy(\n"
  "                    [l[0], (ring, pos, asm), l[4]])\n",
  "                dat['ByPosition'][asm] = [l[0], (ring, pos, asm),\n"
  "                                          dict(l[4])]\n")
B('C17', 'getter-guard-inverted-form', TB,
  "        if unit not in utils._DEFAULT_UNITS['temperature']:\n"
  "            return utils.get_temperature_conversion('K', unit)\n"
  "        else:\n            return _echo_value\n",
  "        if unit in utils._DEFAULT_UNITS['temperature']:\n"
  "            return _echo_value\n"
  "        return utils.get_temperature_conversion('K', unit)\n")

# ---------------------------------------------------------------- C18
M('C18', 'log-exit-removed', 'dassh/logged_class.py',
  "            if log_level in [\"error\", \"critical\"]:\n"
  "                sys.exit(1)", "            pass", 'C18.R1')
M('C18', 'message-missing', RR,
  "                    self.log('error', msg)\n"
  "                w2d_limit = 2.10889   # Laminar limit",
  "                    self.log('error')\n"
  "                w2d_limit = 2.10889   # Laminar limit", 'C18.R1')
M('C18', 'check-unwired', RI, "        self.check_duct()\n", "", 'C18.R2')
M('C18', 'guard-deleted', RI,
  "            if (self.data['Assembly'][asm]['pin_diameter'] / 2.0\n"
  "                    < self.data['Assembly'][asm]['clad_thickness']):\n"
  "                self.log('error', pre + msg)\n",
  "            if (self.data['Assembly'][asm]['pin_diameter'] / 2.0\n"
  "                    < 0.0):\n                self.log('error', pre + msg)\n",
  'C18.R2')
M('C18', 'module-error-falls-through', RX,
  "                            'from options: Na, NaK, Pb, Pb-Bi')\n"
  "        sys.exit(1)\n", "                            'from options: Na, NaK,"
  " Pb, Pb-Bi')\n", 'C18')
M('C18', 'wrong-key', RI,
  "n_ring = self.data['Assembly'][asm]['num_rings']\n"
  "                n_pin = 3 *",
  "n_ring = self.data['Assembly'][asm]['n_rings']\n                n_pin = 3 *",
  'C18.R4')
M('C18', 'unassigned-local', PW,
  "    zhi = np.max(asm_power.z_finemesh) / 100.0  # cm --> m\n",
  "    if core_len > 0.0:\n"
  "        zhi = np.max(asm_power.z_finemesh) / 100.0  # cm --> m\n", 'C18.R3')
B('C18', 'message-reworded', RI,
  "            msg = 'Pin pitch must be greater than pin diameter'",
  "            msg = 'Pin pitch has to exceed the pin diameter'")

# ---------------------------------------------------------------- C19
M('C19', 'sigmas-swapped', HS, "    T += OUT_sigma * IN_sig_sOs / IN_sigma",
  "    T += IN_sigma * IN_sig_sOs / OUT_sigma", 'C19.R2')
M('C19', 'sum-not-cumulative', HS,
  "    T = T_in + np.cumsum(zero_sig_dT, axis=1)",
  "    T = T_in + np.sum(zero_sig_dT, axis=1)", 'C19.R2')
M('C19', 'statistical-not-minus-one', HS,
  "    hcf_stat_m1 = hcf['statistical'] - 1",
  "    hcf_stat_m1 = hcf['statistical']", 'C19.R2')
M('C19', 'slice-table', HS, "           'clad_mw': 6,", "           'clad_mw': 7,",
  'C19.R1')
M('C19', 'pin-assert-unconditional', HS,
  "            tmp = [r_obj.inlet_temp]\n            if value == 'coolant':",
  "            assert 'pin' in a._peak.keys()\n"
  "            tmp = [r_obj.inlet_temp]\n            if value == 'coolant':",
  'C19.R3')
M('C19', 'uncertainty-subtracted', HS,
  "    T += OUT_sigma * IN_sig_sOs / IN_sigma",
  "    T -= OUT_sigma * IN_sig_sOs / IN_sigma", 'C19.R2')
B('C19', 'factor-order', HS, "    zero_sig_dT = dT * dT_subfactors",
  "    zero_sig_dT = dT_subfactors * dT")

# ---------------------------------------------------------------- C20
M('C20', 'ascending-sweep', OR,
  "        params = params[params[:, 1].argsort()][::-1]",
  "        params = params[params[:, 1].argsort()]", 'C20.R1')
M('C20', 'conditional-append', OR,
  "                    g += 1\n                    grp_param.append([])\n"
  "                grp_param[g].append(params[i, 1])",
  "                    g += 1\n                    grp_param.append([])\n"
  "                else:\n                    grp_param[g].append(params[i, 1])",
  'C20.R1')
M('C20', 'post-loop-guard', OR,
  "        if iter >= 1000 and n_grp != self.orifice_input['n_groups']:",
  "        if iter >= 1000 and n_grp != self.orifice_input['n_groups'] - 1:",
  'C20.R2')
M('C20', 'mass-guard-one-sided', OR,
  "        if not abs(np.sum(m) - m_total) < 1e-6:",
  "        if not np.sum(m) - m_total < 1e-6:", 'C20.R3')
M('C20', 'last-group-average', OR,
  "            m[last_idx] = m_remaining / np.count_nonzero(last_idx)",
  "            m[last_idx] = m_total / self.group_data.shape[0]", 'C20.R3')
M('C20', 'last-group-unchecked', OR,
  "            if np.any(m[last_idx] > m_lim_last):",
  "            if False:", 'C20.R4')
M('C20', 'counter-in-branch', OR,
  "            convergence = np.sqrt(np.sum((group_max - avg_max)**2))\n"
  "            iter += 1",
  "            convergence = np.sqrt(np.sum((group_max - avg_max)**2))\n"
  "            if convergence > 10:\n                iter += 1", 'C20.R2')
B('C20', 'descending-other-spelling', OR,
  "        # Check iteration index; if not converged, raise error",
  "        # Check the iteration index; raise an error if not converged")

# ---------------------------------------------------------------- rules added after the adversarial rounds
PMD = 'dassh/pin_model.py'
B('C13', 'norm-method-form', PMD,
  "            while np.max(np.abs(Tf1 - Tf2)) > atol:",
  "            while np.abs(Tf1 - Tf2).max() > atol:")
M('C13', 'norm-signed', PMD,
  "        while np.max(np.abs(T_in1 - T_in2)) > atol:",
  "        while np.max(T_in1 - T_in2) > atol:", 'C13.R2')
M('C13', 'foreign-shell-material', PMD,
  "                k_i = self._fuel_cond(i, T_in1)",
  "                k_i = self._fuel_cond(i - 1, T_in1)", 'C13.R5')
B('C11', 'innermost-test-other-form', RR,
  "            if i == 0:  # inner-most duct, inner htc is asm interior",
  "            if i < 1:  # inner-most duct, inner htc is asm interior")
M('C11', 'bypass-reads-wrong-face', RR,
  "                      * (self.temp['duct_surf'][i + 1, 0]\n"
  "                         - self.temp['coolant_byp'][i]))",
  "                      * (self.temp['duct_surf'][i + 1, 1]\n"
  "                         - self.temp['coolant_byp'][i]))", 'C11.R6')
M('C08', 'duct-corner-area-one-face', RR,
  "        duct['area'][i][1] = (duct['thickness'][i]\n"
  "                              * (d['wcorner'][i][1]\n"
  "                                 + d['wcorner'][i][0]))",
  "        duct['area'][i][1] = (duct['thickness'][i]\n"
  "                              * (2 * d['wcorner'][i][1]))", 'C08.R4')
M('C08', 'wire-area-interior', RR,
  "    sc_ww['area'][0] -= 0.125 * np.pi * Dw**2 / cos_theta",
  "    sc_ww['area'][0] -= 0.25 * np.pi * Dw**2 / cos_theta", 'C08.R4')
M('C08', 'bypass-area-index', RR,
  "            bypass['area'][i, 1] = (d['bypass'][i]\n"
  "                                    * (d['wcorner'][i + 1, 0]\n"
  "                                       + d['wcorner'][i, 1]))",
  "            bypass['area'][i, 1] = (d['bypass'][i]\n"
  "                                    * (d['wcorner'][i, 0]\n"
  "                                       + d['wcorner'][i, 1]))", 'C08.R4')
B('C08', 'corner-length-regrouped', RR,
  "    d['wcorner'][0, 1] = d['wcorner'][0, 0] + d['wall'][0] / _sqrt3",
  "    d['wcorner'][0, 1] = d['wall'][0] / _sqrt3 + d['wcorner'][0, 0]")
M('C09', 'rodded-corner-inner-face', CO,
  "                    dwc = asm_with_mesh_params.rodded.d['wcorner'][-1, -1]",
  "                    dwc = asm_with_mesh_params.rodded.d['wcorner'][-1, 0]",
  'C09.R4')
B('C09', 'hex-perimeter-other-form', CO,
  "        hex_perim = self.duct_oftf * 6 / np.sqrt(3)\n"
  "        for a in range(self.n_asm):\n"
  "            xtmp = self._asm_sc_xbnds[a]\n"
  "            xtmp = xtmp[self._asm_sc_adj[a] > 0]\n"
  "            for i in range(len(xtmp) - 1):\n"
  "                sci = self._asm_sc_adj[a][i]",
  "        hex_perim = 6 * self.duct_oftf / np.sqrt(3)\n"
  "        for a in range(self.n_asm):\n"
  "            xtmp = self._asm_sc_xbnds[a]\n"
  "            xtmp = xtmp[self._asm_sc_adj[a] > 0]\n"
  "            for i in range(len(xtmp) - 1):\n"
  "                sci = self._asm_sc_adj[a][i]")
M('C06', 'flag-initialised-once', RX,
  "            use_conv_approx = False\n            if self._options['conv_approx']:",
  "            if ai == 0:\n                use_conv_approx = False\n"
  "            if self._options['conv_approx']:", 'C06.R3')
M('C16', 'module-level-cache', PW,
  "def _from_file(fpath):",
  "_FILE_CACHE = {}\n\n\ndef _remember(fpath, v):\n    _FILE_CACHE[fpath] = v\n\n\n"
  "def _from_file(fpath):", 'C16.R4')
M('C19', 'ids-not-reordered', HS,
  "            asm_ids[k] = [asm_ids[k][i] for i in order]\n", "", 'C19.R4')
B('C19', 'gather-in-one-statement', HS,
  "            peak_temps[k] = np.vstack(peak_temps[k])\n"
  "            peak_temps[k] = peak_temps[k][order]",
  "            peak_temps[k] = np.vstack(peak_temps[k])[order]")
M('C20', 'limit-of-max-member', OR,
  "                        m_new[:] = np.min(m_lim_grp)",
  "                        m_new[:] = np.max(m_lim_grp)", 'C20.R4')
M('C12', 'ctd-grid-with-uctd-exponent',
  'dassh/correlations/flowsplit_ctd.py',
  "        return _calc_bundle_plus_grid_flow_split(asm_obj, Cf)",
  "        return _calc_bundle_plus_grid_flow_split(asm_obj, Cf, _lambda=7)",
  'C12.R6')
M('C14', 'first-grid-shortcut', RR,
  "        n_grid = sum(1 for _z in self.corr_constants['grid']['z']\n"
  "                     if z - dz < _z <= z)",
  "        n_grid = sum(1 for _z in self.corr_constants['grid']['z'][1:]\n"
  "                     if z - dz < _z <= z)", 'C14.R7')
M('C10', 'mesh-perimeter-inner-face', RR,
  "        x_bnds[-1] = 6 / np.sqrt(3) * self.duct_ftf[-1][1]",
  "        x_bnds[-1] = 6 / np.sqrt(3) * self.duct_ftf[-1][0]", 'C10.R4')
M('C03', 'scaling-only-without-norm', RX,
  "        # Scale power again if user requested\n        if pscalar != 1.0:",
  "        # Scale power again if user requested\n"
  "        if pscalar != 1.0 and ptot_user is None:", 'C03.R4')
M('C18', 'overlap-filter-abs', RI,
  "    if len([v for v in rodded_regs if v != 0]) > 1:",
  "    if len([v for v in rodded_regs if v > 1e-12]) > 1:", 'C18.R5')
B('C18', 'mismatch-filter-abs', RI,
  "    if len([v for v in rodded_regs if v != 0]) > 1:",
  "    if len([v for v in rodded_regs if not v == 0]) > 1:")


# ---------------------------------------------------------------- after wave d
M('C03', 'duct-always-in-total', PW,
  "            if self.duct_power is not None:\n"
  "                p_duct = np.dot(self.duct_power[kf], z_exp.T)\n",
  "            if self.pin_power is not None:\n"
  "                p_duct = np.dot(self.duct_power[kf], z_exp.T)\n",
  'C03.R3')
M('C03', 'skip-when-pins-absent', PW,
  "        if all(v is None for v in\n"
  "               (self.pin_power, self.coolant_power, self.duct_power)):\n",
  "        if self.pin_power is None:\n", 'C03.R3')
B('C03', 'skip-guard-spelled-out', PW,
  "        if all(v is None for v in\n"
  "               (self.pin_power, self.coolant_power, self.duct_power)):\n",
  "        if (self.pin_power is None and self.coolant_power is None\n"
  "                and self.duct_power is None):\n")
M('C09', 'mirror-link-dropped', CO,
  "                        # For the sc in next index; map the sc in current index\n"
  "                        sc = asm_sc[side][sci + 1]\n"
  "                        if asm_sc[side][sci] not in sc_adj[sc - 1]:\n"
  "                            idx = np.where(sc_adj[sc - 1] == 0)[0][0]\n"
  "                            sc_adj[sc - 1, idx] = asm_sc[side][sci]\n",
  "", 'C09.R6')
M('C12', 'grid-loss-scaled-by-length', FC,
  "        t = ff * L_over_Dei + GLC_i\n",
  "        t = (ff + GLC_i) * L_over_Dei\n", 'C12.R8')
M('C12', 'mass-conservation-weights', FC,
  "        x2_new = 1 / (s[1] + s[0] * x1x2 + s[2] * x3x2)\n",
  "        x2_new = 1 / (s[1] + s[0] * x3x2 + s[2] * x1x2)\n", 'C12.R8')
M('C15', 'duct-slots-from-last-region', AS,
  "            max([len(reg.duct_ftf) if reg.is_rodded else 1\n"
  "                 for reg in self.region]))]\n",
  "            len(self.region[-1].duct_ftf) if self.region[-1].is_rodded\n"
  "            else 1)]\n", 'C15.R7')
M('C19', 'expression-other-column', HS,
  "        evalated_expr = _eval_expr(expr_dict[k], dT_in[:, k[2]])\n",
  "        evalated_expr = _eval_expr(expr_dict[k], dT_in[:, k[1]])\n",
  'C19.R6')
M('C07', 'bypass-partners-forward-only', RR,
  "                    if 3 <= type_a <= 4:\n                        continue\n",
  "                    if 3 <= type_a <= 4 or adj - start < sci:\n"
  "                        continue\n", 'C07.R5')
M('C01', 'region-bound-shifted', AS,
  "            z0 = self.region[j].z[1]\n",
  "            z0 = self.region[j].z[1] - 1e-9\n", 'C01.R10')
M('C14', 'flags-swapped-rodded-factory', AS,
  "                                   se2geo,\n"
  "                                   param_update_tol,\n"
  "                                   gravity)",
  "                                   gravity,\n"
  "                                   param_update_tol,\n"
  "                                   se2geo)", 'C14.R9')

os.makedirs(os.path.join(HERE, 'selftest'), exist_ok=True)
tot = 0
for prop, entries in sorted(C.items()):
    with open(os.path.join(HERE, 'selftest', prop + '.json'), 'w') as fh:
        json.dump(entries, fh, indent=1)
    tot += len(entries)
    print(prop, len([e for e in entries if e['kind'] == 'mutant']), 'mutants',
          len([e for e in entries if e['kind'] == 'benign']), 'benign')
print('total', tot)
