#!/bin/bash
# tools/seed_take.sh <Cxx> <suffix> <needs...>: evaluate the sub-agent seed in /tmp/w6-<Cxx> (seed_eval.sh) and store it
P=$1; SFX=$2; shift 2; NEEDS="$*"; WT=${WT:-/tmp/${WAVE:-w7}-$P}
OUT=$(/verif/tools/seed_eval.sh $P $WT 2>&1); echo "$OUT" | tail -9
M=$(echo "$OUT" | grep -A1 'demo on modified' | grep -c 'exit 1'); C=$(echo "$OUT" | grep -A1 'demo on clean' | grep -c 'exit 0')
[ "$M" = 1 ] && [ "$C" = 1 ] || { echo "NOT CONFIRMED (modified:$M clean:$C)"; exit 1; }
if echo "$OUT" | grep -q "^$P exit 1"; then
  R=$(grep -h VIOLATED /tmp/seed_$P.$P.out | head -1 | sed 's/^ *VIOLATED \([^ ]*\).*/\1/')
  /verif/tools/seed_store.py $P-$SFX $P $WT "$R" "$NEEDS"
else
  /verif/tools/seed_store.py $P-$SFX $P $WT MISSED "$NEEDS"
fi
