#!/venv/bin/python
"""tools/benign.py PROPS FILE QUALNAME OLD NEW -- rename a local inside one function of a scratch copy and run checks (comma separated PROPS)."""
import sys, os, re, ast, shutil, subprocess, tempfile
props, rel, qual, old, new = sys.argv[1:6]
d = tempfile.mkdtemp(prefix='dsa-ben-', dir='/dev/shm')
try:
    shutil.copytree('/repo/dassh', os.path.join(d, 'dassh'), ignore=shutil.ignore_patterns('__pycache__'))
    p = os.path.join(d, rel)
    s = open(p).read()
    t = ast.parse(s)
    node = None
    parts = qual.split('.')
    def find(body, parts):
        for n in body:
            if isinstance(n, (ast.FunctionDef, ast.ClassDef)) and n.name == parts[0]:
                return n if len(parts) == 1 else find(n.body, parts[1:])
    node = find(t.body, parts)
    lines = s.split('\n')
    a, b = node.lineno - 1, node.end_lineno
    seg = '\n'.join(lines[a:b])
    seg2 = re.sub(r'(?<![\w\'".])%s(?![\w\'"])' % re.escape(old), new, seg)
    n = len(re.findall(r'(?<![\w\'".])%s(?![\w\'"])' % re.escape(old), seg))
    s2 = '\n'.join(lines[:a]) + '\n' + seg2 + '\n' + '\n'.join(lines[b:])
    compile(s2, p, 'exec')
    open(p, 'w').write(s2)
    out = []
    for prop in props.split(','):
        r = subprocess.run([os.path.join(os.path.dirname(os.path.dirname(os.path.abspath(__file__))), 'check'), prop, '--repo', d], capture_output=True, text=True)
        v = [l.strip()[:160] for l in r.stdout.splitlines() if 'VIOLATED' in l or 'ANALYSIS-ERROR' in l]
        out.append('%s exit %d %s' % (prop, r.returncode, ' || '.join(v[:2])))
    print('%d occurrences renamed; ' % n + ' ;; '.join(out))
finally:
    shutil.rmtree(d, ignore_errors=True)
