#!/bin/bash
# tools/benign_store.sh <N>: copy a finished benign-wave-3 agent's patches into /verif/benign/b3-0N, drop the worktree, evaluate
N=$1; D=/verif/benign/b3-0$N; mkdir -p $D
cp /tmp/b3-$N/_benign/r*.diff $D/ && cp /tmp/b3-$N/_benign/notes.md $D/ 2>/dev/null
rm -f /tmp/b3-0$N; git -C /repo worktree remove --force /tmp/b3-$N
/verif/tools/benign_eval.py $D | cut -c1-420
