#!/venv/bin/python
"""tools/mut.py PROP FILE 'old' 'new' [count]  -- apply a textual edit to a scratch copy of /repo and run the check on it."""
import sys, os, shutil, subprocess, tempfile
prop, rel, old, new = sys.argv[1:5]
d = tempfile.mkdtemp(prefix='dsa-mut-', dir='/dev/shm')
try:
    shutil.copytree('/repo/dassh', os.path.join(d, 'dassh'), ignore=shutil.ignore_patterns('__pycache__', '*.x', 'data'))
    p = os.path.join(d, rel)
    s = open(p).read()
    n = s.count(old)
    if n < 1:
        print('PATTERN NOT FOUND'); sys.exit(3)
    s = s.replace(old, new, 1)
    compile(s, p, 'exec')
    open(p, 'w').write(s)
    r = subprocess.run([os.path.join(os.path.dirname(os.path.dirname(os.path.abspath(__file__))), 'check'), prop, '--repo', d], capture_output=True, text=True)
    out = [l for l in r.stdout.splitlines() if 'VIOLATED' in l or 'ANALYSIS-ERROR' in l or 'Traceback' in l]
    print('exit', r.returncode, '|', ' || '.join(x.strip()[:230] for x in out[:4]))
finally:
    shutil.rmtree(d, ignore_errors=True)
