#!/bin/bash
# tools/merge_f.sh <Cxx>: merge the work of fix agent F-<Cxx> (/tmp/vf-F-<Cxx>, branch fix-F-<Cxx>) into /verif.
# New files are copied; existing .py files are merged at definition level (tools/merge_py.py); evidence, reference.json ignored.
p=$1; W=${2:-F}; V=/tmp/vf-$W-$p
mb=$(git -C $V merge-base origin/main fix-$W-$p)
cd /verif
for f in $(git -C $V diff --name-only $mb fix-$W-$p | grep -v "^evidence/" | grep -v "dsa/reference.json"); do
  if ! git -C $V cat-file -e fix-$W-$p:$f 2>/dev/null; then echo "DELETED in branch: $f (ignored)"; continue; fi
  case $f in
    *.py|check)
      if git cat-file -e $mb:$f 2>/dev/null && [ -f /verif/$f ]; then
        git show $mb:$f > /tmp/mb_base.py; git -C $V show fix-$W-$p:$f > /tmp/mb_theirs.py
        if cmp -s /tmp/mb_base.py /verif/$f; then cp /tmp/mb_theirs.py /verif/$f; echo "taken $f";
        else tools/merge_py.py /tmp/mb_base.py /verif/$f /tmp/mb_theirs.py /verif/$f && echo "merged $f" || echo "MERGE FAILED $f"; fi
      else
        mkdir -p $(dirname /verif/$f); git -C $V show fix-$W-$p:$f > /verif/$f; echo "new file $f"
      fi;;
    seeded/*/meta.json|selftest/*.f.json|notes/*)
      mkdir -p $(dirname /verif/$f); git -C $V show fix-$W-$p:$f > /verif/$f; echo "copied $f";;
    DESIGN.md) git -C $V diff $mb fix-$W-$p -- DESIGN.md > /verif/notes/DESIGN-$W-$p.diff; echo "DESIGN diff saved to notes/";;
    *) if git cat-file -e $mb:$f 2>/dev/null; then echo "OTHER FILE changed: $f (not merged)"; else mkdir -p $(dirname /verif/$f); git -C $V show fix-$W-$p:$f > /verif/$f; echo "new file $f"; fi;;
  esac
done
