#!/bin/bash
# tools/merge_f.sh <Cxx>: merge the work of fix agent F-<Cxx> (/tmp/vf-F-<Cxx>, branch fix-F-<Cxx>) into /verif.
# New files are copied; existing .py files are merged at definition level (tools/merge_py.py); evidence, reference.json ignored.
p=$1; W=${2:-F}; V=/tmp/vf-$W-$p; BR=fix-$W-$p; [ "$W" = B ] && { V=/tmp/vf-$p; BR=fix-$p; }
mb=$(git -C $V merge-base origin/main $BR)
cd /verif
for f in $(git -C $V diff --name-only $mb $BR | grep -v "^evidence/" | grep -v "dsa/reference.json"); do
  if ! git -C $V cat-file -e $BR:$f 2>/dev/null; then echo "DELETED in branch: $f (ignored)"; continue; fi
  case $f in
    *.py|check)
      if git cat-file -e $mb:$f 2>/dev/null && [ -f /verif/$f ]; then
        git show $mb:$f > /tmp/mb_base.py; git -C $V show $BR:$f > /tmp/mb_theirs.py
        if cmp -s /tmp/mb_base.py /verif/$f; then cp /tmp/mb_theirs.py /verif/$f; echo "taken $f";
        else tools/merge_py.py /tmp/mb_base.py /verif/$f /tmp/mb_theirs.py /verif/$f && echo "merged $f" || echo "MERGE FAILED $f"; fi
      else
        mkdir -p $(dirname /verif/$f); git -C $V show $BR:$f > /verif/$f; echo "new file $f"
      fi;;
    seeded/*/meta.json|selftest/*.f.json|notes/*)
      mkdir -p $(dirname /verif/$f); git -C $V show $BR:$f > /verif/$f; echo "copied $f";;
    DESIGN.md) git -C $V diff $mb $BR -- DESIGN.md > /verif/notes/DESIGN-$W-$p.diff; echo "DESIGN diff saved to notes/";;
    benign/UNRESOLVED.txt)
      git -C $V diff $mb $BR -- $f | grep "^-b" | sed 's/^-//' | while read l; do k=$(echo $l | cut -d' ' -f1); grep -v "^$k " /verif/$f > /tmp/unres.txt; cp /tmp/unres.txt /verif/$f; done
      git -C $V diff $mb $BR -- $f | grep "^+b" | sed 's/^+//' >> /verif/$f; echo "unresolved list updated";;
    *) if git cat-file -e $mb:$f 2>/dev/null; then echo "OTHER FILE changed: $f (not merged)"; else mkdir -p $(dirname /verif/$f); git -C $V show $BR:$f > /verif/$f; echo "new file $f"; fi;;
  esac
done
