#!/venv/bin/python
"""tools/kf.py <id> <property> <rule> <status> <commit|-> <key> <what>  -- append a finding"""
import json, sys, os
p = os.path.join(os.path.dirname(os.path.dirname(os.path.abspath(__file__))), 'known_findings.json')
d = json.load(open(p))
i, prop, rule, status, commit, key, what = sys.argv[1:8]
e = {'id': i, 'property': prop, 'rule': rule, 'key': key, 'status': status}
if commit != '-':
    e['commit'] = commit
    e['line'] = 'fixed: property=%s %s %s' % (prop, commit, what)
e['what'] = what
d['findings'] = [x for x in d['findings'] if not (x['id'] == i and x['key'] == key)] + [e]
json.dump(d, open(p, 'w'), indent=1)
print('recorded', i)
