#!/venv/bin/python
"""tools/benign_eval.py <dir with r*.diff> : apply each behaviour-preserving patch to a scratch copy of
/repo/dassh and run all 20 quick checks on it; any exit != 0 is a false alarm (or a lost anchor)."""
import sys, os, glob, shutil, subprocess, tempfile, concurrent.futures
d = sys.argv[1]
props = ['C%02d' % i for i in range(1, 21)]
def run(pf):
    sc = tempfile.mkdtemp(prefix='dsa-bn-', dir='/dev/shm')
    try:
        shutil.copytree('/repo/dassh', sc + '/dassh', ignore=shutil.ignore_patterns('__pycache__'))
        r = subprocess.run(['patch', '-p1', '-s', '-f', '-d', sc, '-i', pf], capture_output=True, text=True)
        if r.returncode != 0:
            return pf, 'PATCH-FAILED ' + r.stdout[:100]
        out = []
        for p in props:
            r = subprocess.run(['/verif/check', p, '--repo', sc], capture_output=True, text=True)
            if r.returncode != 0:
                v = [l.strip()[:220] for l in r.stdout.splitlines() if 'VIOLATED' in l or 'ANALYSIS' in l]
                out.append('%s exit %d: %s' % (p, r.returncode, ' || '.join(v[:2])))
        return pf, out
    finally:
        shutil.rmtree(sc, ignore_errors=True)
files = sorted(glob.glob(os.path.join(os.path.abspath(d), '*.diff')))
with concurrent.futures.ThreadPoolExecutor(max_workers=6) as ex:
    for pf, out in ex.map(run, files):
        print(os.path.basename(pf), 'OK' if out == [] else out)
