#!/venv/bin/python
"""Regenerate dsa/reference.json (forms of every function of /repo/dassh the canonicaliser rewrites
towards).  Run after a fix: commit to /repo."""
import json, os, sys
sys.path.insert(0, os.path.dirname(os.path.dirname(os.path.abspath(__file__))))
from dsa import canon, core
ref = canon.build_reference(core.REPO)
json.dump(ref, open(os.path.join(core.VERIF, 'dsa', 'reference.json'), 'w'), indent=0, sort_keys=True)
print(sum(len(v) for v in ref.values()), 'functions')
