"""Algebraic evaluation (generalised constant propagation over D_poly values)
of small straight-line functions.

Only assignments, if-statements whose tests are decided by boolean
arguments, and a final return are supported; anything else raises
AnalysisError (the rule using it must then be revisited).  This is
generalised constant propagation along the single path selected by the
boolean flags -- no path exploration, no solver.
"""
import ast

from .core import AnalysisError, src, const
from .poly import Rat, from_ast, NotPolynomial


def eval_function(fi, args, atoms=None):
    """args: {param: Rat | bool | None}.  Returns the Rat returned."""
    env = {}
    flags = {}
    for k, v in args.items():
        if isinstance(v, bool) or v is None:
            flags[k] = v
        else:
            env[k] = v
    atoms = atoms or {}

    def test(t):
        if isinstance(t, ast.UnaryOp) and isinstance(t.op, ast.Not):
            v = test(t.operand)
            return None if v is None else (not v)
        if isinstance(t, ast.Name) and t.id in flags:
            return bool(flags[t.id])
        if isinstance(t, ast.BoolOp):
            vs = [test(x) for x in t.values]
            if any(v is None for v in vs):
                return None
            return all(vs) if isinstance(t.op, ast.And) else any(vs)
        return None

    def block(stmts):
        for st in stmts:
            if isinstance(st, ast.Expr) and isinstance(st.value,
                                                       ast.Constant):
                continue
            if isinstance(st, ast.Assign) and len(st.targets) == 1 and \
                    isinstance(st.targets[0], ast.Name):
                env[st.targets[0].id] = from_ast(st.value, atoms, env,
                                                 auto=True)
                continue
            if isinstance(st, ast.AugAssign) and isinstance(st.target,
                                                            ast.Name):
                cur = env.get(st.target.id)
                v = from_ast(st.value, atoms, env, auto=True)
                if cur is None:
                    raise AnalysisError('%s: augmented assignment to '
                                        'unknown %s' % (fi.qual,
                                                        st.target.id))
                if isinstance(st.op, ast.Add):
                    env[st.target.id] = cur + v
                elif isinstance(st.op, ast.Sub):
                    env[st.target.id] = cur - v
                elif isinstance(st.op, ast.Mult):
                    env[st.target.id] = cur * v
                elif isinstance(st.op, ast.Div):
                    env[st.target.id] = cur / v
                else:
                    raise AnalysisError('%s: operator' % fi.qual)
                continue
            if isinstance(st, ast.If):
                v = test(st.test)
                if v is None:
                    raise AnalysisError('%s: branch %s not decided by the '
                                        'boolean arguments' % (fi.qual,
                                                               src(st.test)))
                r = block(st.body if v else st.orelse)
                if r is not None:
                    return r
                continue
            if isinstance(st, ast.Return):
                return from_ast(st.value, atoms, env, auto=True)
            raise AnalysisError('%s: statement not supported by the symbolic '
                                'evaluator: %s' % (fi.qual,
                                                   src(st)[:60]))
        return None
    try:
        r = block(fi.node.body)
    except NotPolynomial as e:
        raise AnalysisError('%s: not polynomial arithmetic: %s' % (fi.qual, e))
    if r is None:
        raise AnalysisError('%s: no return reached' % fi.qual)
    return r
