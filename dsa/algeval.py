"""Algebraic evaluation (generalised constant propagation over D_poly values)
of small straight-line functions.

Only assignments, if-statements whose tests are decided by boolean
arguments, and a final return are supported; anything else raises
AnalysisError (the rule using it must then be revisited).  This is
generalised constant propagation along the single path selected by the
boolean flags -- no path exploration, no solver.
"""
import ast

from .core import AnalysisError, src, const
from .poly import Rat, from_ast, NotPolynomial


def eval_function(fi, args, atoms=None):
    """args: {param: Rat | bool | None}.  Returns the Rat returned."""
    env = {}
    flags = {}
    for k, v in args.items():
        if isinstance(v, bool) or v is None:
            flags[k] = v
        else:
            env[k] = v
    atoms = atoms or {}

    def test(t):
        if isinstance(t, ast.UnaryOp) and isinstance(t.op, ast.Not):
            v = test(t.operand)
            return None if v is None else (not v)
        if isinstance(t, ast.Name) and t.id in flags:
            return bool(flags[t.id])
        if isinstance(t, ast.BoolOp):
            vs = [test(x) for x in t.values]
            if any(v is None for v in vs):
                return None
            return all(vs) if isinstance(t.op, ast.And) else any(vs)
        return None

    def block(stmts):
        for st in stmts:
            if isinstance(st, ast.Expr) and isinstance(st.value,
                                                       ast.Constant):
                continue
            if isinstance(st, ast.Assign) and len(st.targets) == 1 and \
                    isinstance(st.targets[0], ast.Name):
                env[st.targets[0].id] = from_ast(st.value, atoms, env,
                                                 auto=True)
                continue
            if isinstance(st, ast.AugAssign) and isinstance(st.target,
                                                            ast.Name):
                cur = env.get(st.target.id)
                v = from_ast(st.value, atoms, env, auto=True)
                if cur is None:
                    raise AnalysisError('%s: augmented assignment to '
                                        'unknown %s' % (fi.qual,
                                                        st.target.id))
                if isinstance(st.op, ast.Add):
                    env[st.target.id] = cur + v
                elif isinstance(st.op, ast.Sub):
                    env[st.target.id] = cur - v
                elif isinstance(st.op, ast.Mult):
                    env[st.target.id] = cur * v
                elif isinstance(st.op, ast.Div):
                    env[st.target.id] = cur / v
                else:
                    raise AnalysisError('%s: operator' % fi.qual)
                continue
            if isinstance(st, ast.If):
                v = test(st.test)
                if v is None:
                    raise AnalysisError('%s: branch %s not decided by the '
                                        'boolean arguments' % (fi.qual,
                                                               src(st.test)))
                r = block(st.body if v else st.orelse)
                if r is not None:
                    return r
                continue
            if isinstance(st, ast.Return):
                return from_ast(st.value, atoms, env, auto=True)
            raise AnalysisError('%s: statement not supported by the symbolic '
                                'evaluator: %s' % (fi.qual,
                                                   src(st)[:60]))
        return None
    try:
        r = block(fi.node.body)
    except NotPolynomial as e:
        raise AnalysisError('%s: not polynomial arithmetic: %s' % (fi.qual, e))
    if r is None:
        raise AnalysisError('%s: no return reached' % fi.qual)
    return r


# ---------------------------------------------------------------------------
# General straight-line evaluation with stores to attributes / subscripts,
# recorded calls and tests decided by a table of source texts.

class Run:
    """Result of run_function: env {source text: Rat}, calls [(name, [Rat],
    {kw: Rat}, node)], ret (Rat or None)."""

    def __init__(self):
        self.env = {}
        self.calls = []
        self.ret = None
        self.ret_node = None

    def call(self, suffix):
        return [c for c in self.calls if c[0] and c[0].endswith(suffix)]


def _norm(n):
    return ' '.join(src(n).split())


def _conv(node, atoms, env):
    """poly.from_ast with text-keyed env for any sub-expression and the
    NumPy constants np.ones(k) -> 1, np.zeros(k) -> 0 (element-wise view)."""
    from fractions import Fraction
    from . import util as U

    def rec(n):
        s = _norm(n)
        if s in atoms:
            return Rat.sym(atoms[s])
        if s in env:
            return env[s]
        c = const(n)
        if isinstance(c, (int, float)) and not isinstance(c, bool):
            return Rat.const(Fraction(str(c)))
        if isinstance(n, ast.UnaryOp) and isinstance(n.op, ast.USub):
            return -rec(n.operand)
        if isinstance(n, ast.UnaryOp) and isinstance(n.op, ast.UAdd):
            return rec(n.operand)
        if isinstance(n, ast.BinOp):
            if isinstance(n.op, ast.Pow):
                e = const(n.right)
                if isinstance(e, int):
                    return rec(n.left) ** e
                raise NotPolynomial(s)
            l, r = rec(n.left), rec(n.right)
            if isinstance(n.op, ast.Add):
                return l + r
            if isinstance(n.op, ast.Sub):
                return l - r
            if isinstance(n.op, ast.Mult):
                return l * r
            if isinstance(n.op, ast.Div):
                return l / r
        if isinstance(n, ast.Call):
            nm = _norm(n.func)
            if nm in ('np.ones', 'numpy.ones', 'np.ones_like'):
                return Rat.const(1)
            if nm in ('np.zeros', 'numpy.zeros', 'np.zeros_like'):
                return Rat.const(0)
            if nm in ('np.sum', 'numpy.sum', 'sum') and len(n.args) == 1 \
                    and not n.keywords:
                # linear functional, kept formal: SUM * (element-wise value)
                return Rat.sym('<SUM>') * rec(n.args[0])
            if nm in ('float', 'np.array', 'np.asarray', 'np.float64') \
                    and len(n.args) == 1 and not n.keywords:
                return rec(n.args[0])
        if isinstance(n, (ast.Name, ast.Attribute, ast.Subscript, ast.Call)):
            return Rat.sym('<%s>' % s)
        raise NotPolynomial(s)
    return rec(node)


def run_function(fi, flags, atoms=None, body=None):
    """Evaluate the path of fi selected by `flags` ({source text of a test or
    sub-test: bool}).  Supported: assignments (names, attributes, subscripts
    -- keyed by source text), augmented assignments, if, expression
    statements (calls are recorded with evaluated arguments), return.
    Anything else raises AnalysisError."""
    from . import util as U
    atoms = atoms or {}
    out = Run()
    env = out.env

    def conv(e):
        try:
            return _conv(e, atoms, env)
        except NotPolynomial as ex:
            raise AnalysisError('%s: not polynomial arithmetic: %s'
                                % (fi.qual, ex))

    def record(call):
        args, kws = [], {}
        for a in call.args:
            try:
                args.append(_conv(a, atoms, env))
            except NotPolynomial:
                args.append(None)
        for k in call.keywords:
            try:
                kws[k.arg] = _conv(k.value, atoms, env)
            except NotPolynomial:
                kws[k.arg] = None
        out.calls.append((_norm(call.func), args, kws, call))

    def block(stmts):
        for st in stmts:
            if isinstance(st, ast.Expr):
                v = st.value
                if isinstance(v, ast.Tuple) and len(v.elts) == 1:
                    v = v.elts[0]           # `f(x),` stray trailing comma
                if isinstance(v, ast.Call):
                    record(v)
                continue
            if isinstance(st, ast.Pass):
                continue
            if isinstance(st, ast.Assign) and len(st.targets) == 1 and \
                    isinstance(st.targets[0], (ast.Name, ast.Attribute,
                                               ast.Subscript)):
                if isinstance(st.value, ast.Call):
                    record(st.value)
                env[_norm(st.targets[0])] = conv(st.value)
                continue
            if isinstance(st, ast.AugAssign) and isinstance(
                    st.target, (ast.Name, ast.Attribute, ast.Subscript)):
                key = _norm(st.target)
                cur = env.get(key)
                if cur is None:
                    cur = conv(st.target)
                v = conv(st.value)
                if isinstance(st.op, ast.Add):
                    env[key] = cur + v
                elif isinstance(st.op, ast.Sub):
                    env[key] = cur - v
                elif isinstance(st.op, ast.Mult):
                    env[key] = cur * v
                elif isinstance(st.op, ast.Div):
                    env[key] = cur / v
                else:
                    raise AnalysisError('%s: operator in %s' % (
                        fi.qual, _norm(st)[:60]))
                continue
            if isinstance(st, ast.If):
                v = U.eval_test(st.test, flags)
                if v is None:
                    raise AnalysisError('%s: branch `%s` not decided by %s'
                                        % (fi.qual, _norm(st.test),
                                           sorted(flags)))
                if block(st.body if v else st.orelse):
                    return True
                continue
            if isinstance(st, ast.Return):
                out.ret_node = st
                out.ret = conv(st.value) if st.value is not None else None
                return True
            raise AnalysisError('%s: statement not supported by the '
                                'algebraic evaluator: %s'
                                % (fi.qual, _norm(st)[:60]))
        return False
    block(body if body is not None else fi.node.body)
    return out
