"""D_sign / interval abstract domain over straight-line NumPy arithmetic.

Abstract value: closed/open interval over the extended reals, applied
element-wise to arrays (one interval describes every element).  Used to
prove sign / order facts such as "this increment is >= 0" under stated
assumptions on the inputs.  Unknown constructs evaluate to TOP, so a missing
model can only lose a proof, never fabricate one.
"""
import ast
import math

from .core import src, const, call_name

INF = math.inf


class Iv:
    __slots__ = ('lo', 'hi', 'lo_open', 'hi_open')

    def __init__(self, lo=-INF, hi=INF, lo_open=False, hi_open=False):
        self.lo, self.hi = lo, hi
        self.lo_open = lo_open or lo == -INF
        self.hi_open = hi_open or hi == INF

    # -- constructors
    @staticmethod
    def top():
        return Iv()

    @staticmethod
    def point(v):
        return Iv(v, v)

    @staticmethod
    def ge(v):
        return Iv(v, INF)

    @staticmethod
    def gt(v):
        return Iv(v, INF, lo_open=True)

    @staticmethod
    def le(v):
        return Iv(-INF, v)

    @staticmethod
    def lt(v):
        return Iv(-INF, v, hi_open=True)

    # -- queries
    def is_top(self):
        return self.lo == -INF and self.hi == INF

    def nonneg(self):
        return self.lo >= 0

    def pos(self):
        return self.lo > 0 or (self.lo == 0 and self.lo_open)

    def nonpos(self):
        return self.hi <= 0

    def neg(self):
        return self.hi < 0 or (self.hi == 0 and self.hi_open)

    def is_zero(self):
        return self.lo == 0 == self.hi

    def is_point(self, v):
        return self.lo == v == self.hi

    def at_least(self, v):
        return self.lo >= v

    def contains_zero(self):
        if self.lo > 0 or self.hi < 0:
            return False
        if self.lo == 0 and self.lo_open:
            return False
        if self.hi == 0 and self.hi_open:
            return False
        return True

    def join(self, o):
        if self.lo < o.lo:
            lo, lo_o = self.lo, self.lo_open
        elif o.lo < self.lo:
            lo, lo_o = o.lo, o.lo_open
        else:
            lo, lo_o = self.lo, self.lo_open and o.lo_open
        if self.hi > o.hi:
            hi, hi_o = self.hi, self.hi_open
        elif o.hi > self.hi:
            hi, hi_o = o.hi, o.hi_open
        else:
            hi, hi_o = self.hi, self.hi_open and o.hi_open
        return Iv(lo, hi, lo_o, hi_o)

    def __eq__(self, o):
        return isinstance(o, Iv) and (self.lo, self.hi, self.lo_open,
                                      self.hi_open) == (o.lo, o.hi, o.lo_open,
                                                        o.hi_open)

    def __repr__(self):
        return '%s%s, %s%s' % ('(' if self.lo_open else '[', self.lo, self.hi,
                               ')' if self.hi_open else ']')

    # -- arithmetic
    def __neg__(self):
        return Iv(-self.hi, -self.lo, self.hi_open, self.lo_open)

    def __add__(self, o):
        return Iv(self.lo + o.lo if not (self.lo == -INF or o.lo == -INF)
                  else -INF,
                  self.hi + o.hi if not (self.hi == INF or o.hi == INF)
                  else INF,
                  self.lo_open or o.lo_open, self.hi_open or o.hi_open)

    def __sub__(self, o):
        return self + (-o)

    def __mul__(self, o):
        cands = []
        for a, ao in ((self.lo, self.lo_open), (self.hi, self.hi_open)):
            for b, bo in ((o.lo, o.lo_open), (o.hi, o.hi_open)):
                if (a == 0 and not ao) or (b == 0 and not bo):
                    cands.append((0.0, False))
                elif a == 0 or b == 0:
                    # open zero times anything (possibly inf): limit 0, open
                    if math.isinf(a) or math.isinf(b):
                        cands.append((0.0, True))
                        # but unbounded products are also possible
                        s = (1 if (a > 0 or b > 0) else -1)
                        cands.append((s * INF, True))
                    else:
                        cands.append((0.0, True))
                else:
                    cands.append((a * b, ao or bo))
        lo = min(c[0] for c in cands)
        hi = max(c[0] for c in cands)
        lo_open = all(c[1] for c in cands if c[0] == lo)
        hi_open = all(c[1] for c in cands if c[0] == hi)
        return Iv(lo, hi, lo_open, hi_open)

    def recip(self):
        if self.contains_zero():
            return Iv.top()
        if self.lo >= 0:       # positive interval (lo may be open 0)
            hi = INF if self.lo == 0 else 1.0 / self.lo
            lo = 0.0 if self.hi == INF else 1.0 / self.hi
            return Iv(lo, hi, self.hi_open, self.lo_open)
        n = (-self).recip()
        return -n

    def __truediv__(self, o):
        return self * o.recip()

    def square(self):
        if self.lo >= 0:
            return Iv(self.lo ** 2, self.hi ** 2 if self.hi != INF else INF,
                      self.lo_open, self.hi_open)
        if self.hi <= 0:
            return (-self).square()
        m = max(-self.lo, self.hi)
        return Iv(0.0, m * m if m != INF else INF)

    def sqrt(self):
        if self.lo < 0:
            return Iv.top()
        return Iv(math.sqrt(self.lo), math.sqrt(self.hi) if self.hi != INF
                  else INF, self.lo_open, self.hi_open)

    def pow_const(self, c):
        if c == 2:
            return self.square()
        if c == 0.5:
            return self.sqrt()
        if c == 1:
            return self
        if c == 0:
            return Iv.point(1.0)
        if isinstance(c, int) and c > 0 and c % 2 == 0:
            return self.square().pow_const(c // 2)
        if self.lo >= 0 and c > 0:
            return Iv(self.lo ** c, self.hi ** c if self.hi != INF else INF,
                      self.lo_open, self.hi_open)
        if self.pos() and c < 0:
            return self.pow_const(-c).recip()
        return Iv.top()

    def abs(self):
        if self.lo >= 0:
            return self
        if self.hi <= 0:
            return -self
        return Iv(0.0, max(-self.lo, self.hi))


# reductions that keep the element interval
_SAME = {'max', 'min', 'amax', 'amin', 'average', 'mean', 'copy', 'array',
         'asarray', 'flip', 'fliplr', 'flipud', 'roll', 'transpose',
         'reshape', 'expand_dims', 'squeeze', 'ravel', 'unique', 'sort',
         'append', 'insert', 'vstack', 'hstack', 'concatenate', 'moveaxis',
         'nanmax', 'nanmin', 'around', 'round', 'float', 'list', 'tuple'}


class Interp:
    """Evaluates expressions / straight-line statements over intervals.

    env: {normalised source text: Iv}.  Lookup is by the *longest* matching
    access expression (so "hcf['direct']" can be assumed directly)."""

    def __init__(self, env=None):
        self.env = dict(env or {})
        self.log = []       # (stmt src, target, Iv)

    def get(self, key):
        return self.env.get(key)

    def ev(self, n):
        s = src(n)
        if s in self.env:
            return self.env[s]
        c = const(n)
        if isinstance(c, bool):
            return Iv.point(float(c))
        if isinstance(c, (int, float)):
            return Iv.point(float(c))
        if isinstance(n, ast.Name):
            return Iv.top()
        if isinstance(n, ast.UnaryOp):
            v = self.ev(n.operand)
            if isinstance(n.op, ast.USub):
                return -v
            if isinstance(n.op, ast.UAdd):
                return v
            return Iv.top()
        if isinstance(n, ast.BinOp):
            if isinstance(n.op, ast.Pow):
                e = const(n.right)
                if isinstance(e, (int, float)):
                    return self.ev(n.left).pow_const(e)
                # base >= 0 constant ** anything >= 0 ...
                b = self.ev(n.left)
                if b.pos():
                    return Iv.gt(0.0)
                return Iv.top()
            l, r = self.ev(n.left), self.ev(n.right)
            if isinstance(n.op, ast.Add):
                return l + r
            if isinstance(n.op, ast.Sub):
                return l - r
            if isinstance(n.op, ast.Mult):
                if src(n.left) == src(n.right):
                    return l.square()
                return l * r
            if isinstance(n.op, ast.Div):
                return l / r
            if isinstance(n.op, ast.MatMult):
                return Iv.top()
            return Iv.top()
        if isinstance(n, ast.Subscript):
            # indexing / slicing / newaxis keep the element interval
            return self.ev(n.value)
        if isinstance(n, ast.Attribute):
            if s in ('np.pi', 'numpy.pi', 'math.pi'):
                return Iv.point(math.pi)
            if s in ('np.e', 'math.e'):
                return Iv.point(math.e)
            if n.attr in ('T', 'real'):
                return self.ev(n.value)
            return Iv.top()
        if isinstance(n, (ast.Tuple, ast.List)):
            out = None
            for e in n.elts:
                v = self.ev(e)
                out = v if out is None else out.join(v)
            return out or Iv.top()
        if isinstance(n, ast.IfExp):
            return self.ev(n.body).join(self.ev(n.orelse))
        if isinstance(n, ast.Call):
            return self.call(n)
        return Iv.top()

    def call(self, n):
        nm = call_name(n) or ''
        base = nm.split('.')[-1]
        args = n.args
        if nm.startswith(('np.', 'numpy.', 'math.')) or nm in (
                'abs', 'sum', 'max', 'min', 'float', 'list', 'tuple'):
            if base in ('sqrt',) and args:
                return self.ev(args[0]).sqrt()
            if base in ('abs', 'absolute', 'fabs') and args:
                return self.ev(args[0]).abs()
            if base in ('square',) and args:
                return self.ev(args[0]).square()
            if base in ('power',) and len(args) == 2:
                e = const(args[1])
                if isinstance(e, (int, float)):
                    return self.ev(args[0]).pow_const(e)
                return Iv.top()
            if base in ('sum', 'cumsum', 'nansum', 'dot', 'trapz') and args:
                v = self.ev(args[0])
                if base == 'dot' and len(args) == 2:
                    v = v * self.ev(args[1])
                # a sum of n >= 1 elements of [lo, hi]
                if v.is_zero():
                    return v
                lo = 0.0 if v.lo == 0 else (-INF if v.lo < 0 else v.lo)
                hi = 0.0 if v.hi == 0 else (INF if v.hi > 0 else v.hi)
                return Iv(lo, hi, v.lo_open and v.lo >= 0,
                          v.hi_open and v.hi <= 0)
            if base in ('prod', 'cumprod') and args:
                v = self.ev(args[0])
                if v.is_point(1.0):
                    return v
                if v.at_least(1.0):
                    return Iv.ge(1.0)
                if v.lo >= 0 and v.hi <= 1:
                    return Iv(0.0, 1.0)
                if v.lo >= 0:
                    return Iv.ge(0.0)
                return Iv.top()
            if base in ('exp',) and args:
                return Iv.gt(0.0)
            if base in ('log', 'log10') and args:
                v = self.ev(args[0])
                if v.at_least(1.0):
                    return Iv.ge(0.0) if not (v.lo == 1.0 and False) \
                        else Iv.ge(0.0)
                return Iv.top()
            if base in ('zeros', 'zeros_like'):
                return Iv.point(0.0)
            if base in ('ones', 'ones_like'):
                return Iv.point(1.0)
            if base in ('maximum',) and len(args) == 2:
                a, b = self.ev(args[0]), self.ev(args[1])
                return Iv(max(a.lo, b.lo), max(a.hi, b.hi))
            if base in ('minimum',) and len(args) == 2:
                a, b = self.ev(args[0]), self.ev(args[1])
                return Iv(min(a.lo, b.lo), min(a.hi, b.hi))
            if base in _SAME and args:
                return self.ev(args[0])
            if base == 'pi':
                return Iv.point(math.pi)
            return Iv.top()
        # method calls that keep the interval: x.copy(), x.reshape(...)
        if isinstance(n.func, ast.Attribute) and n.func.attr in _SAME | {
                'sum', 'cumsum'}:
            fake = ast.Call(func=ast.Attribute(
                value=ast.Name(id='np', ctx=ast.Load()), attr=n.func.attr,
                ctx=ast.Load()), args=[n.func.value] + list(n.args),
                keywords=[])
            return self.call(fake)
        return Iv.top()

    # -- statements
    def run(self, stmts):
        for st in stmts:
            self.stmt(st)

    def stmt(self, st):
        if isinstance(st, ast.Assign):
            v = self.ev(st.value)
            for t in st.targets:
                self._store(t, v, st)
        elif isinstance(st, ast.AugAssign):
            cur = self.ev(st.target)
            inc = self.ev(st.value)
            if isinstance(st.op, ast.Add):
                v = cur + inc
            elif isinstance(st.op, ast.Sub):
                v = cur - inc
            elif isinstance(st.op, ast.Mult):
                v = cur * inc
            elif isinstance(st.op, ast.Div):
                v = cur / inc
            else:
                v = Iv.top()
            self._store(st.target, v, st, aug=inc)
        elif isinstance(st, ast.Expr):
            pass

    def _store(self, t, v, st, aug=None):
        if isinstance(t, (ast.Tuple, ast.List)):
            for e in t.elts:
                self._store(e, Iv.top(), st)
            return
        key = src(t)
        if isinstance(t, ast.Subscript) and not isinstance(
                const(t.slice), str):
            # element store into an array: join with existing content
            base = src(t.value)
            old = self.env.get(base)
            self.env[base] = v if old is None else old.join(v)
            self.env[key] = v
        else:
            self.env[key] = v
            # invalidate longer keys rooted here
            for k in list(self.env):
                if k != key and k.startswith(key + '['):
                    del self.env[k]
        self.log.append((st, key, v, aug))
