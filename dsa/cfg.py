"""Statement-level control-flow graph (K3) for the statement kinds the
repository uses (no try/finally, no loop-else, no match in dassh).

Nodes: ENTRY, EXIT (normal return / fall off the end), ABORT (raise,
sys.exit, LoggedClass.log('error'|'critical')), one node per simple
statement, one 'test' node per if/while condition, one 'loop' node per for
header, one 'with' node per with header, one 'except' node per handler.
"""
import ast

from .core import AnalysisError, call_name, const, src


def default_terminator(stmt):
    """Statement that never completes normally."""
    if isinstance(stmt, ast.Raise):
        return True
    if isinstance(stmt, ast.Expr) and isinstance(stmt.value, ast.Call):
        c = stmt.value
        n = call_name(c) or ''
        if n in ('sys.exit', 'exit', 'quit', 'os._exit'):
            return True
        if n.endswith('.log') and c.args:
            lvl = const(c.args[0])
            if lvl in ('error', 'critical'):
                return True
    return False


class Node:
    __slots__ = ('id', 'kind', 'stmt', 'expr', 'succ', 'pred', 'exc_succ')

    def __init__(self, id, kind, stmt=None, expr=None):
        self.id = id
        self.kind = kind
        self.stmt = stmt
        self.expr = expr
        self.succ = []
        self.pred = []
        self.exc_succ = set()

    @property
    def lineno(self):
        n = self.expr if self.expr is not None else self.stmt
        return getattr(n, 'lineno', 0)

    def __repr__(self):
        if self.kind in ('entry', 'exit', 'abort'):
            return '<%s>' % self.kind
        return '<%s %d: %s>' % (self.kind, self.lineno,
                                ' '.join(src(self.expr or self.stmt).split())[:50])


class CFG:
    def __init__(self, func_node, is_terminator=default_terminator):
        self.func = func_node
        self.is_terminator = is_terminator
        self.nodes = []
        self.entry = self._new('entry')
        self.exit = self._new('exit')
        self.abort = self._new('abort')
        self.by_stmt = {}
        ends = self._block(func_node.body, [self.entry], None, None, [])
        for e in ends:
            self._edge(e, self.exit)
        self._dom = None
        self._pdom = None

    # -- construction --
    def _new(self, kind, stmt=None, expr=None):
        n = Node(len(self.nodes), kind, stmt, expr)
        self.nodes.append(n)
        if stmt is not None:
            self.by_stmt.setdefault(id(stmt), []).append(n)
        return n

    def _edge(self, a, b, exc=False):
        if b not in a.succ:
            a.succ.append(b)
            b.pred.append(a)
        if exc:
            a.exc_succ.add(b.id)

    def _block(self, stmts, preds, brk, cont, handlers):
        """Wire a statement list after `preds`; return dangling ends.
        brk/cont: lists collecting break / continue sources (or None).
        handlers: stack of lists of handler-entry nodes for enclosing try."""
        cur = list(preds)
        for st in stmts:
            if not cur:
                break   # unreachable code after return/raise/continue
            cur = self._stmt(st, cur, brk, cont, handlers)
        return cur

    def _link(self, preds, node, handlers):
        for p in preds:
            self._edge(p, node)
        # any statement inside a try body may raise into its handlers
        if handlers:
            for h in handlers[-1]:
                self._edge(node, h, exc=True)

    def _stmt(self, st, preds, brk, cont, handlers):
        if isinstance(st, ast.If):
            t = self._new('test', st, st.test)
            self._link(preds, t, handlers)
            c = const(st.test, None)
            ends = []
            ends += self._block(st.body, [t], brk, cont, handlers)
            if st.orelse:
                ends += self._block(st.orelse, [t], brk, cont, handlers)
            else:
                ends.append(t)
            return _uniq(ends)
        if isinstance(st, (ast.For, ast.AsyncFor)):
            h = self._new('loop', st, st.iter)
            self._link(preds, h, handlers)
            b, c = [], []
            ends = self._block(st.body, [h], b, c, handlers)
            for e in ends + c:
                self._edge(e, h)
            out = [h] + b
            if st.orelse:
                out = self._block(st.orelse, [h], brk, cont, handlers) + b
            return _uniq(out)
        if isinstance(st, ast.While):
            t = self._new('test', st, st.test)
            self._link(preds, t, handlers)
            b, c = [], []
            ends = self._block(st.body, [t], b, c, handlers)
            for e in ends + c:
                self._edge(e, t)
            always = const(st.test, None) in (True, 1)
            out = list(b) if always else [t] + b
            if st.orelse and not always:
                out = self._block(st.orelse, [t], brk, cont, handlers) + b
            return _uniq(out)
        if isinstance(st, ast.Try):
            if st.finalbody:
                raise AnalysisError('try/finally not modelled (line %d)'
                                    % st.lineno)
            hnodes = [self._new('except', h, h.type) for h in st.handlers]
            # entry of the try may raise before the first statement completes
            ends = self._block(st.body, preds, brk, cont,
                               handlers + [hnodes])
            for p in preds:
                pass
            if st.orelse:
                ends = self._block(st.orelse, ends, brk, cont, handlers)
            out = list(ends)
            for hn, h in zip(hnodes, st.handlers):
                if handlers:     # a handler body may raise to outer handlers
                    for oh in handlers[-1]:
                        self._edge(hn, oh, exc=True)
                out += self._block(h.body, [hn], brk, cont, handlers)
            return _uniq(out)
        if isinstance(st, (ast.With, ast.AsyncWith)):
            w = self._new('with', st, None)
            self._link(preds, w, handlers)
            return self._block(st.body, [w], brk, cont, handlers)
        # simple statements
        n = self._new('stmt', st)
        self._link(preds, n, handlers)
        if isinstance(st, ast.Return):
            self._edge(n, self.exit)
            return []
        if isinstance(st, ast.Break):
            if brk is None:
                raise AnalysisError('break outside loop')
            brk.append(n)
            return []
        if isinstance(st, ast.Continue):
            if cont is None:
                raise AnalysisError('continue outside loop')
            cont.append(n)
            return []
        if self.is_terminator(st):
            # inside a try, a raise may be caught (edges added by _link)
            self._edge(n, self.abort)
            return []
        if isinstance(st, ast.Assert):
            self._edge(n, self.abort, exc=True)
        return [n]

    # -- lookup --
    def node_of(self, stmt):
        """First CFG node owned by a statement (test node for if/while)."""
        l = self.by_stmt.get(id(stmt))
        return l[0] if l else None

    def node_containing(self, astnode):
        """CFG node whose statement/test contains the given AST node."""
        from .core import parent
        n = astnode
        while n is not None:
            l = self.by_stmt.get(id(n))
            if l:
                if len(l) == 1:
                    return l[0]
                return l[0]
            n = parent(n)
        return None

    def find(self, pred):
        """Nodes (stmt/test/loop/with/except) whose own expression part
        satisfies pred(ast_node).  For compound statements only the header
        (test / iter / with-items) is examined."""
        out = []
        for n in self.nodes:
            if n.kind in ('entry', 'exit', 'abort'):
                continue
            for part in self.header_parts(n):
                if any(pred(x) for x in ast.walk(part)):
                    out.append(n)
                    break
        return out

    def header_parts(self, n):
        if n.kind == 'stmt':
            if isinstance(n.stmt, (ast.FunctionDef, ast.ClassDef,
                                   ast.AsyncFunctionDef)):
                return []
            return [n.stmt]
        if n.kind in ('test', 'loop'):
            parts = [n.expr]
            if n.kind == 'loop':
                parts.append(n.stmt.target)
            return parts
        if n.kind == 'with':
            return [i.context_expr for i in n.stmt.items] + \
                   [i.optional_vars for i in n.stmt.items
                    if i.optional_vars is not None]
        if n.kind == 'except':
            return [n.expr] if n.expr is not None else []
        return []

    # -- reachability / dominance --
    def reachable_from(self, start, avoid=(), follow_exc=True):
        avoid = {a.id for a in avoid}
        seen = set()
        stack = [start]
        while stack:
            n = stack.pop()
            if n.id in seen:
                continue
            seen.add(n.id)
            for s in n.succ:
                if s.id in avoid:
                    continue
                if not follow_exc and s.id in n.exc_succ:
                    continue
                stack.append(s)
        return seen

    def path_exists(self, a, b, avoid=()):
        """Path a ->+ b (at least one edge) that avoids the given nodes."""
        avoid_ids = {x.id for x in avoid}
        seen = set()
        stack = [s for s in a.succ if s.id not in avoid_ids]
        while stack:
            n = stack.pop()
            if n.id == b.id:
                return True
            if n.id in seen:
                continue
            seen.add(n.id)
            stack.extend(s for s in n.succ if s.id not in avoid_ids)
        return False

    def must_pass(self, a, through, target=None):
        """Every path from a to target (default: normal EXIT) passes through
        one of `through` (a itself does not count unless in through)."""
        target = target or self.exit
        if a in through:
            return True
        return not self.path_exists(a, target, avoid=through) \
            and not (a.id == target.id)

    def dominators(self):
        if self._dom is None:
            self._dom = _dominators(self.nodes, self.entry,
                                    lambda n: n.pred)
        return self._dom

    def dominates(self, a, b):
        """a dominates b: every path ENTRY -> b passes through a."""
        d = self.dominators()
        return b.id in d and a.id in d[b.id]

    def is_reachable(self, n):
        return n.id in self.reachable_from(self.entry)


def _uniq(l):
    out, seen = [], set()
    for x in l:
        if x.id not in seen:
            seen.add(x.id)
            out.append(x)
    return out


def _dominators(nodes, entry, preds):
    # classic iterative set algorithm; graphs here are < 500 nodes
    reach = set()
    stack = [entry]
    succ = {}
    for n in nodes:
        for p in preds(n):
            succ.setdefault(p.id, []).append(n)
    while stack:
        n = stack.pop()
        if n.id in reach:
            continue
        reach.add(n.id)
        stack.extend(succ.get(n.id, []))
    allset = set(reach)
    dom = {i: set(allset) for i in reach}
    dom[entry.id] = {entry.id}
    order = [n for n in nodes if n.id in reach and n is not entry]
    changed = True
    while changed:
        changed = False
        for n in order:
            ps = [p for p in preds(n) if p.id in reach]
            new = None
            for p in ps:
                new = set(dom[p.id]) if new is None else new & dom[p.id]
            new = (new or set()) | {n.id}
            if new != dom[n.id]:
                dom[n.id] = new
                changed = True
    return dom


_cfg_cache = {}


def cfg_of(fi):
    k = id(fi.node)
    if k not in _cfg_cache:
        _cfg_cache[k] = CFG(fi.node)
    return _cfg_cache[k]
