"""C07.R7 (= C10.R4) -- the duct mesh handed to the duct<->gap map walks the
outer face of the outermost duct, decided on VALUES.

Clause.  `Reactor._setup_gap_mesh_params` hands `reg.calculate_xbnds()` to
`_map_asm2gap` together with the gap mesh around the assembly, which
`Core._calculate_gap_xbnds` builds side by side from the true hexagon side
(`duct_oftf / sqrt3`).  The two meshes describe the same perimeter only if the
region's boundaries are those of the duct elements on the OUTER face of the
OUTERMOST duct, walked clockwise from the centre of the top corner element:

  * every edge element is one pin pitch wide,
  * six sides of (n_ring - 1) edge elements and one corner element add up to
    the boundary the walk ends on, and that boundary is the perimeter
    6 / sqrt3 x duct_ftf[-1][1]  (with the corner length closed form of C08.R4
    this forces the corner element width 2 x d['wcorner'][-1, 1]),
  * the walk starts with the (top) corner element and its first boundary lies
    half a corner element from the start.

A width table with another corner length (inner duct, inner face, mid wall)
makes every hexagon side start early / late by a growing amount: the map built
by `_map_asm2gap` is then shifted by a different offset on every side, which
singles out where the clockwise numbering starts -- rotating the input by 60
degrees no longer rotates the solution (C07), and the map is no longer the
identity for coinciding meshes (C10).

How it is decided.  The function is *evaluated* by a small abstract
interpreter (nothing of /repo is imported or run) over the domain

  Sc     exact rational function (dsa.poly) of P, n, nd, F[i,face], r3
  Tab    short table of Sc                    np.array([a, b]) / [a, b]
  Ring   vector around one ring of 6 n cells whose entries depend only on the
         kind of the cell (edge / corner) + how far it has been rolled
  Cum    np.cumsum(Ring) + Sc

with locals expanded flow-sensitively (`U.value_at`), region attributes that
are tables stored elsewhere (`self.ht['conv']['ebal']`) resolved to the single
store that defines them in the package and evaluated in the storing function
(calls to package functions are followed with the region bound to the
parameter), `subchannel.type[a:b]` resolved to the ring of cells the slice
selects (bounds compared as polynomials in n_ring and the duct count), and
`d['wcorner'][i, f]` replaced by the closed form F[i,f]/(2 sqrt3) - P(n-1)/2
established by C08.R4.  The verdict compares values, so it does not matter
where the widths are taken from or how the function is spelled.

Trusted: the closed form of the corner lengths (C08.R4), the order of the cell
kinds in `Subchannel.type` (interior | coolant ring | duct ring | (bypass ring
| duct ring)*, each ring: per side n-1 edge cells then the corner cell, types
0-based after `self.type -= 1`), NumPy semantics of roll / cumsum / where /
fancy indexing as modelled here.
"""
import ast
from fractions import Fraction

from ..core import AnalysisError, const, src, call_name, walk_no_nested
from ..poly import Rat, Poly
from .. import util as U
from . import _hexgeom as H

PROPS = ('C07',)

c = Rat.const
ND = Rat.sym('nd')
LAST = Rat.sym('last')
ONE = Poly.const(1)


def _s(e):
    return ' '.join(src(e).split())


# ---------------------------------------------------------------------------
# abstract values

class Sc:
    def __init__(self, r, text=''):
        self.r, self.text = r, text


class Tab:
    def __init__(self, items):
        self.items = items


class Ring:
    def __init__(self, e, cn, shift=0, te='', tc=''):
        self.e, self.cn, self.shift, self.te, self.tc = e, cn, shift, te, tc


class BoolRing:
    def __init__(self, e, cn, shift):
        self.e, self.cn, self.shift = e, cn, shift


class Cum:
    def __init__(self, ring, off, toff=''):
        self.ring, self.off, self.toff = ring, off, toff


class Zeros:
    def __init__(self, n):
        self.n = n


class _Region:
    pass


class _TypeVec:
    pass


class _Opaque:
    def __init__(self, text):
        self.text = text


REGION = _Region()
TYPEVEC = _TypeVec()


class LocalCont:
    def __init__(self, fr, name):
        self.fr, self.name = fr, name


class Thunk:
    def __init__(self, node, fr, line):
        self.node, self.fr, self.line, self.val = node, fr, line, None


class Frame:
    def __init__(self, fi, env):
        self.fi, self.env = fi, env
        # locals that are containers filled through subscript stores stay
        # symbolic in the expansion; their elements are looked up in the
        # stores
        self.cont = set()
        for t, st in U.stores(fi.node):
            if isinstance(t, ast.Subscript):
                b = t
                while isinstance(b, (ast.Subscript, ast.Attribute)):
                    b = b.value
                if isinstance(b, ast.Name) and b.id not in env:
                    self.cont.add(b.id)


class Unmodelled(Exception):
    pass


def _is_const_rat(r):
    return not r.n.symbols() and not r.d.symbols()


def _as_frac(r):
    if not _is_const_rat(r):
        return None
    return Fraction(r.n.t.get((), 0)) / Fraction(r.d.t.get((), 0))


def _as_int(r):
    f = _as_frac(r)
    if f is None or f.denominator != 1:
        return None
    return int(f)


def _num(r, vals):
    """Value of a Rat at a sample point {symbol: Fraction}; None if another
    symbol occurs."""
    def p(poly):
        tot = Fraction(0)
        for k, v in poly.t.items():
            term = Fraction(v)
            for s, e in k:
                if s not in vals:
                    return None
                term *= vals[s] ** e
            tot += term
        return tot
    a, b = p(r.n), p(r.d)
    if a is None or b is None or b == 0:
        return None
    return a / b


# ---------------------------------------------------------------------------
# evaluator

class Ev:
    def __init__(self, repo, anchor, kind):
        self.repo, self.anchor, self.kind = repo, anchor, kind
        self.trail = []
        self.depth = 0
        self._nsc = None

    # -- frames / names --------------------------------------------------
    def ev(self, node, fr, line):
        """Value of `node`, an expression of fr.fi read at `line`."""
        keep = tuple(fr.cont | set(fr.env))
        e = U.value_at(fr.fi.node, node, line, keep=keep)
        return self.evx(e, fr)

    def force(self, v):
        if isinstance(v, Thunk):
            if v.val is None:
                v.val = self.ev(v.node, v.fr, v.line)
            return v.val
        return v

    def scalar(self, node, fr):
        v = self.evx(node, fr)
        if isinstance(v, Sc):
            return v
        raise Unmodelled('a scalar is expected: %s' % _s(node))

    # -- expressions -----------------------------------------------------
    def evx(self, n, fr):
        self.depth += 1
        try:
            if self.depth > 60:
                raise Unmodelled('evaluation depth at %s' % _s(n)[:60])
            return self._evx(n, fr)
        finally:
            self.depth -= 1

    def _evx(self, n, fr):
        s = _s(n)
        v = const(n, None)
        if isinstance(v, (int, float)) and not isinstance(v, bool):
            return Sc(c(Fraction(str(v))), s)
        if isinstance(v, str):
            return _Opaque(s)
        if s in ('_sqrt3', 'np.sqrt(3)', 'math.sqrt(3)', 'np.sqrt(3.0)',
                 'math.sqrt(3.0)', '3 ** 0.5', 'numpy.sqrt(3)'):
            return Sc(H.R3, s)
        if s == '_sqrt3over3':
            return Sc(H.R3 / c(3), s)
        if isinstance(n, ast.Name):
            if n.id in fr.env:
                return self.force(fr.env[n.id])
            if n.id in fr.cont:
                return LocalCont(fr, n.id)
            return Sc(Rat.sym('<%s>' % n.id), s)
        if isinstance(n, ast.UnaryOp) and isinstance(n.op, (ast.USub,
                                                            ast.UAdd)):
            a = self.evx(n.operand, fr)
            if isinstance(n.op, ast.UAdd):
                return a
            return self.arith(ast.Sub(), Sc(c(0), '0'), a, s)
        if isinstance(n, ast.BinOp):
            if isinstance(n.op, ast.Pow):
                a = self.evx(n.left, fr)
                k = const(n.right)
                if isinstance(a, Sc) and isinstance(k, int):
                    return Sc(a.r ** k, s)
                raise Unmodelled('power %s' % s)
            a, b = self.evx(n.left, fr), self.evx(n.right, fr)
            return self.arith(n.op, a, b, s)
        if isinstance(n, (ast.List, ast.Tuple)):
            items = [self.evx(e, fr) for e in n.elts]
            if all(isinstance(i, Sc) for i in items):
                return Tab(items)
            raise Unmodelled('display %s' % s[:80])
        if isinstance(n, ast.Compare) and len(n.ops) == 1:
            return self.compare(n, fr)
        if isinstance(n, ast.IfExp):
            a, b = self.evx(n.body, fr), self.evx(n.orelse, fr)
            if isinstance(a, Sc) and isinstance(b, Sc) and \
                    H.is_zero(a.r - b.r):
                return a
            raise Unmodelled('conditional value %s' % s[:80])
        if isinstance(n, ast.Call):
            return self.call(n, fr)
        if isinstance(n, (ast.Attribute, ast.Subscript)):
            return self.path(n, fr)
        raise Unmodelled('construct %s' % s[:80])

    def arith(self, op, a, b, s):
        def f(x, y):
            if isinstance(op, ast.Add):
                return x + y
            if isinstance(op, ast.Sub):
                return x - y
            if isinstance(op, ast.Mult):
                return x * y
            if isinstance(op, (ast.Div, ast.FloorDiv)):
                if isinstance(op, ast.FloorDiv):
                    raise Unmodelled('floor division %s' % s[:60])
                if y.n.is_zero():
                    raise Unmodelled('division by zero in %s' % s[:60])
                return x / y
            raise Unmodelled('operator in %s' % s[:60])
        add = isinstance(op, (ast.Add, ast.Sub))
        if isinstance(a, Sc) and isinstance(b, Sc):
            return Sc(f(a.r, b.r), s)
        if isinstance(a, Ring) and isinstance(b, Sc):
            return Ring(f(a.e, b.r), f(a.cn, b.r), a.shift, s, s)
        if isinstance(a, Sc) and isinstance(b, Ring):
            return Ring(f(a.r, b.e), f(a.r, b.cn), b.shift, s, s)
        if isinstance(a, Ring) and isinstance(b, Ring):
            if a.shift != b.shift:
                raise Unmodelled('vectors rolled differently in %s' % s[:60])
            return Ring(f(a.e, b.e), f(a.cn, b.cn), a.shift, s, s)
        if isinstance(a, Tab) and isinstance(b, Sc):
            return Tab([Sc(f(i.r, b.r), s) for i in a.items])
        if isinstance(a, Sc) and isinstance(b, Tab):
            return Tab([Sc(f(a.r, i.r), s) for i in b.items])
        if isinstance(a, Cum) and isinstance(b, Sc) and add:
            return Cum(a.ring, f(a.off, b.r), s)
        if isinstance(a, Sc) and isinstance(b, Cum) and \
                isinstance(op, ast.Add):
            return Cum(b.ring, a.r + b.off, s)
        raise Unmodelled('arithmetic %s' % s[:80])

    def compare(self, n, fr):
        a, b = self.evx(n.left, fr), self.evx(n.comparators[0], fr)
        op = n.ops[0]
        flip = False
        if isinstance(a, Sc) and isinstance(b, Ring):
            a, b, flip = b, a, True
        if not (isinstance(a, Ring) and isinstance(b, Sc)):
            raise Unmodelled('comparison %s' % _s(n)[:80])
        k = _as_frac(b.r)
        ve, vc = _as_frac(a.e), _as_frac(a.cn)
        if None in (k, ve, vc):
            raise Unmodelled('comparison of non-constant values %s'
                             % _s(n)[:80])

        def t(x):
            l, r = (k, x) if flip else (x, k)
            if isinstance(op, ast.Eq):
                return l == r
            if isinstance(op, ast.NotEq):
                return l != r
            if isinstance(op, ast.Lt):
                return l < r
            if isinstance(op, ast.LtE):
                return l <= r
            if isinstance(op, ast.Gt):
                return l > r
            if isinstance(op, ast.GtE):
                return l >= r
            raise Unmodelled('comparison operator %s' % _s(n)[:80])
        return BoolRing(t(ve), t(vc), a.shift)

    # -- calls -----------------------------------------------------------
    def call(self, n, fr):
        s = _s(n)
        nm = call_name(n) or ''
        short = nm.split('.')[-1]
        isnp = nm.split('.')[0] in ('np', 'numpy') and nm.count('.') == 1
        args = n.args
        if isnp and short in ('array', 'asarray', 'copy', 'ascontiguousarray',
                              'atleast_1d') and len(args) == 1:
            return self.evx(args[0], fr)
        if isinstance(n.func, ast.Attribute) and n.func.attr in (
                'copy', 'astype', 'flatten', 'ravel') and not isnp and \
                call_name(n) != 'copy.copy' and (
                    n.func.attr == 'astype' or not args):
            v = self.evx(n.func.value, fr)
            if isinstance(v, (Ring, Tab, Cum, Sc)):
                return v
            raise Unmodelled('copy of %s' % s[:80])
        if nm in ('copy.copy', 'copy.deepcopy') and len(args) == 1:
            return self.evx(args[0], fr)
        if nm == 'float' and len(args) == 1:
            return self.evx(args[0], fr)
        if nm == 'len' and len(args) == 1:
            a0 = args[0]
            if self.kind == 'rodded' and isinstance(a0, ast.Attribute) and \
                    a0.attr == 'duct_ftf' and \
                    self.evx(a0.value, fr) is REGION:
                return Sc(ND, s)
            a = self.evx(a0, fr)
            if isinstance(a, Tab):
                return Sc(c(len(a.items)), s)
            if isinstance(a, Ring):
                return Sc(c(6) * H.N, s)
            raise Unmodelled('len of %s' % s[:80])
        if isnp and short == 'roll' and len(args) == 2 and not n.keywords:
            v = self.evx(args[0], fr)
            k = self.evx(args[1], fr)
            ki = _as_int(k.r) if isinstance(k, Sc) else None
            if isinstance(v, Ring) and ki is not None:
                return Ring(v.e, v.cn, v.shift + ki, v.te, v.tc)
            raise Unmodelled('roll %s' % s[:80])
        if (isnp and short == 'cumsum' and len(args) == 1) or (
                isinstance(n.func, ast.Attribute) and n.func.attr == 'cumsum'
                and not args and not isnp):
            v = self.evx(args[0] if args else n.func.value, fr)
            if isinstance(v, Ring):
                return Cum(v, c(0))
            raise Unmodelled('cumulative sum of %s' % s[:80])
        if isnp and short == 'where' and len(args) == 3:
            cnd = self.evx(args[0], fr)
            a, b = self.evx(args[1], fr), self.evx(args[2], fr)
            if not isinstance(cnd, BoolRing):
                raise Unmodelled('selection %s' % s[:80])

            def pick(x, corner):
                if isinstance(x, Sc):
                    return x.r, x.text
                if isinstance(x, Ring) and x.shift == cnd.shift:
                    return (x.cn, x.tc) if corner else (x.e, x.te)
                raise Unmodelled('selection operand in %s' % s[:80])
            e, te = pick(a if cnd.e else b, False)
            cn, tc = pick(a if cnd.cn else b, True)
            return Ring(e, cn, cnd.shift, te, tc)
        if isnp and short in ('zeros', 'empty') and args:
            ln = self.evx(args[0], fr)
            if isinstance(ln, Sc):
                return Zeros(ln.r) if short == 'zeros' else _Opaque(s)
            raise Unmodelled('allocation %s' % s[:80])
        if isnp and short in ('concatenate', 'hstack') and len(args) == 1 \
                and isinstance(args[0], (ast.List, ast.Tuple)):
            return ('concat', [self.evx(e, fr) for e in args[0].elts])
        # package function / method of the region
        callee = None
        if isinstance(n.func, ast.Name):
            callee = fr.fi.mod.funcs.get(n.func.id)
        elif isinstance(n.func, ast.Attribute) and isinstance(
                n.func.value, ast.Name) and self.force(fr.env.get(
                    n.func.value.id)) is REGION and fr.fi.cls is not None:
            callee = self.repo.lookup_method(fr.fi.cls, n.func.attr)
        if callee is not None and not n.keywords:
            params = callee.params
            pargs = list(args)
            if isinstance(n.func, ast.Attribute):
                env = {params[0]: REGION}
                params = params[1:]
            else:
                env = {}
            if len(pargs) > len(params):
                raise Unmodelled('call %s' % s[:80])
            for p, a in zip(params, pargs):
                env[p] = Thunk(a, fr, 10 ** 9)
            # (arguments were expanded before the call was evaluated: they
            # contain only kept names, so the read position is immaterial)
            rets = [r for r in walk_no_nested(callee.node)
                    if isinstance(r, ast.Return)]
            if len(rets) != 1 or rets[0] not in callee.node.body or \
                    rets[0].value is None:
                raise Unmodelled('callee %s has no single result'
                                 % callee.qual)
            self.trail.append('%s <- result of %s' % (s[:60], callee.qual))
            return self.ev(rets[0].value, Frame(callee, env),
                           rets[0].lineno)
        raise Unmodelled('call %s' % s[:80])

    # -- attribute / subscript chains -------------------------------------
    def path(self, n, fr):
        steps = []
        b = n
        while isinstance(b, (ast.Attribute, ast.Subscript)):
            steps.append(('a', b.attr) if isinstance(b, ast.Attribute)
                         else ('s', b.slice))
            b = b.value
        steps.reverse()
        base = self.evx(b, fr)
        if base is REGION:
            return self.region_path(steps, fr, _s(n))
        v = base
        for k, x in steps:
            if k == 'a':
                raise Unmodelled('attribute %s of %s' % (x, _s(n)[:60]))
            v = self.subscript(v, x, fr, _s(n))
        return v

    def idx_rat(self, node, fr):
        """A duct index as a polynomial in `last` (= number of ducts - 1)."""
        v = self.scalar(node, fr)
        k = _as_int(v.r)
        if k is not None:
            return c(k) if k >= 0 else LAST + c(k + 1)
        r = v.r.subs('nd', LAST + c(1))
        if r.d == ONE and r.n.symbols() <= {'last'}:
            return r
        raise Unmodelled('duct index %s' % _s(node))

    def region_path(self, steps, fr, text):
        def keys(ss):
            """subscript steps flattened: [i, j] and [i][j] are one form"""
            out = []
            for k, x in ss:
                if k != 's':
                    return None
                out += list(x.elts) if isinstance(x, ast.Tuple) else [x]
            return out
        a0 = steps[0][1] if steps and steps[0][0] == 'a' else None
        rest = steps[1:]
        if self.kind == 'rodded':
            if a0 == 'pin_pitch' and not rest:
                return Sc(H.P_, text)
            if a0 == 'n_ring' and not rest:
                return Sc(H.N, text)
            if a0 == 'n_duct' and not rest:
                return Sc(ND, text)
            if a0 == 'duct_ftf':
                ks = keys(rest)
                if ks is not None and len(ks) == 2 and \
                        const(ks[1]) in (0, 1, -1, -2):
                    f = const(ks[1]) % 2
                    return Sc(H.F(self.idx_rat(ks[0], fr), f), text)
                return Sc(Rat.sym('<%s>' % text), text)
            if a0 == 'd':
                ks = keys(rest)
                if ks and const(ks[0]) == 'wcorner' and len(ks) == 3 and \
                        const(ks[2]) in (0, 1, -1, -2):
                    f = const(ks[2]) % 2
                    return Sc(H.wcorner_cf(self.idx_rat(ks[1], fr), f), text)
                return Sc(Rat.sym('<%s>' % text), text)
            if a0 == 'subchannel' and rest and rest[0] == ('a', 'type'):
                v = TYPEVEC
                for k, x in rest[1:]:
                    if k != 's':
                        raise Unmodelled('attribute in %s' % text[:80])
                    v = self.subscript(v, x, fr, text)
                return v
            if a0 == 'subchannel' and rest and rest[0] == ('a', 'n_sc'):
                ks = keys(rest[1:])
                if ks is not None and len(ks) == 2 and all(
                        isinstance(const(k), str) for k in ks):
                    r = self.nsc().get((const(ks[0]), const(ks[1])))
                    if r is not None:
                        return Sc(r, text)
                return Sc(Rat.sym('<%s>' % text), text)
        else:
            if a0 == 'duct_ftf':
                ks = keys(rest)
                if ks is not None and len(ks) == 1 and \
                        const(ks[0]) in (0, 1, -1, -2):
                    return Sc(Rat.sym('U%d' % (const(ks[0]) % 2)), text)
                return Sc(Rat.sym('<%s>' % text), text)
        return self.stored_attr(steps, fr, text)

    def stored_attr(self, steps, fr, text):
        """A region attribute that is neither geometry nor topology: the
        value is what the single store to it (or to a container prefix of
        it) in the package assigns, evaluated in the storing function."""
        def norm(ss):
            return ''.join('.%s' % x if k == 'a' else '[%s]' % _s(x)
                           for k, x in ss)
        cls = self.anchor.cls
        mro = {ci.name for ci in self.repo.mro(cls)} if cls else set()
        found = []
        for cut in range(len(steps), 0, -1):
            want = norm(steps[:cut])
            hits = []
            for f in self.repo.all_funcs():
                if f.cls is not None and f.cls.name not in mro:
                    continue
                if f.cls is None and f.mod is not self.anchor.mod:
                    continue
                for t, st in U.stores(f.node):
                    b = t
                    ss = []
                    while isinstance(b, (ast.Attribute, ast.Subscript)):
                        ss.append(('a', b.attr) if isinstance(
                            b, ast.Attribute) else ('s', b.slice))
                        b = b.value
                    if not ss or not isinstance(b, ast.Name):
                        continue
                    ss.reverse()
                    if cut == len(steps) and ss[0][0] == 'a' and \
                            len(ss) > cut and norm(ss[:cut]) == want:
                        raise Unmodelled(
                            'region attribute %s is also modified '
                            'element-wise (`%s` in %s)'
                            % (text, _s(st)[:60], f.qual))
                    if ss[0][0] != 'a' or norm(ss) != want:
                        continue
                    if f.cls is not None and b.id != 'self':
                        continue
                    if f.cls is None and b.id not in f.params:
                        continue
                    hits.append((f, st, b.id))
            # an empty container is filled by the keyed stores
            live = [h for h in hits if not (
                isinstance(h[1], ast.Assign) and (
                    (isinstance(h[1].value, ast.Dict)
                     and not h[1].value.keys)
                    or _s(h[1].value) in ('dict()', 'None')))]
            found += [(cut, want, h) for h in live]
        if len(found) != 1 or not isinstance(found[0][2][1], ast.Assign) or \
                len(found[0][2][1].targets) != 1:
            raise Unmodelled(
                'region attribute %s has %d defining stores in the region '
                'classes (exactly one plain store expected)'
                % (text, len(found)))
        cut, want, (f, st, root) = found[0]
        self.trail.append('self%s <- `%s` in %s' % (
            want, _s(st)[:90], f.qual))
        v = self.ev(st.value, Frame(f, {root: REGION}), st.lineno)
        for k, x in steps[cut:]:
            if k == 'a':
                raise Unmodelled('attribute in %s' % text[:80])
            v = self.subscript(v, x, fr, text)
        return v

    # -- subscripts ------------------------------------------------------
    def subscript(self, v, sl, fr, text):
        if isinstance(v, LocalCont):
            k = const(sl)
            if not isinstance(k, str):
                raise Unmodelled('element %s of a local container' % text)
            f = v.fr.fi
            sts = [st for t, st in U.stores(f.node)
                   if isinstance(t, ast.Subscript) and isinstance(
                       t.value, ast.Name) and t.value.id == v.name
                   and const(t.slice) == k]
            deeper = [st for t, st in U.stores(f.node)
                      if isinstance(t, ast.Subscript) and isinstance(
                          t.value, ast.Subscript) and isinstance(
                              t.value.value, ast.Name)
                      and t.value.value.id == v.name
                      and const(t.value.slice) == k]
            if len(sts) != 1 or deeper or not isinstance(
                    sts[0], ast.Assign) or sts[0] not in f.node.body:
                raise Unmodelled('%s[%r] in %s is not stored exactly once, '
                                 'unconditionally' % (v.name, k, f.qual))
            self.trail.append('`%s` in %s' % (_s(sts[0])[:90], f.qual))
            return self.ev(sts[0].value, v.fr, sts[0].lineno)
        if isinstance(sl, ast.Slice):
            if v is TYPEVEC:
                return self.type_ring(sl, fr, text)
            if sl.lower is None and sl.upper is None and sl.step is None \
                    and isinstance(v, (Ring, Tab, Cum)):
                return v
            if isinstance(v, Tab) and sl.step is None:
                lo = _as_int(self.scalar(sl.lower, fr).r) if sl.lower \
                    else None
                hi = _as_int(self.scalar(sl.upper, fr).r) if sl.upper \
                    else None
                if (sl.lower is None or lo is not None) and (
                        sl.upper is None or hi is not None):
                    return Tab(v.items[lo:hi])
            raise Unmodelled('slice %s' % text[:80])
        i = self.evx(sl, fr)
        if isinstance(v, Tab):
            if isinstance(i, Sc):
                k = _as_int(i.r)
                if k is None or not -len(v.items) <= k < len(v.items):
                    raise Unmodelled('table index %s' % text[:80])
                return v.items[k]
            if isinstance(i, Ring):
                ke, kc = _as_int(i.e), _as_int(i.cn)
                if ke is None or kc is None or not all(
                        -len(v.items) <= k < len(v.items) for k in (ke, kc)):
                    raise Unmodelled('table look-up %s with entries %r / %r'
                                     % (text[:60], i.e.n, i.cn.n))
                return Ring(v.items[ke].r, v.items[kc].r, i.shift,
                            v.items[ke].text, v.items[kc].text)
            raise Unmodelled('table index %s' % text[:80])
        if isinstance(v, Ring) and isinstance(i, Sc):
            k = _as_int(i.r)
            # the first cell of a ring rolled by one and the last cell of an
            # unrolled ring are the corner cell that closes the ring
            if (k == 0 and v.shift == 1) or (k == -1 and v.shift == 0):
                return Sc(v.cn, v.tc)
            if (k == -1 and v.shift == 1) or (k == 0 and v.shift == 0):
                # an edge cell unless n_ring = 1
                return Sc(Rat.sym('<%s>' % text), text)
            return Sc(Rat.sym('<%s>' % text), text)
        if isinstance(v, Sc):
            return Sc(Rat.sym('<%s>' % text), text)
        raise Unmodelled('subscript %s' % text[:80])

    # -- subchannel bookkeeping ------------------------------------------
    def nsc(self):
        """Subchannel.n_sc[a][b] as polynomials in n (ring count) and nd
        (duct count), read from the stores of Subchannel.__init__."""
        if self._nsc is not None:
            return self._nsc
        fi = self.repo.func('subchannel', 'Subchannel.__init__')
        if 'n_ring' not in fi.params or 'duct_ftf' not in fi.params:
            raise AnalysisError('Subchannel.__init__: parameters')
        raw = {}
        for t, st in U.stores(fi.node):
            if isinstance(t, ast.Subscript) and isinstance(
                    t.value, ast.Subscript) and _s(t.value.value) == \
                    'self.n_sc' and isinstance(st, ast.Assign):
                k = (const(t.value.slice), const(t.slice))
                raw.setdefault(k, []).append(st)
            elif _s(t) == "self.n_sc['total']" and isinstance(st, ast.Assign):
                raw.setdefault(('total', None), []).append(st)
        out = {}

        def conv(e):
            s = _s(e)
            if s == 'n_ring':
                return H.N
            if s == 'len(duct_ftf)':
                return ND
            v = const(e, None)
            if isinstance(v, int) and not isinstance(v, bool):
                return c(v)
            if isinstance(e, ast.Subscript):
                if s == "self.n_sc['total']":
                    return get(('total', None))
                if isinstance(e.value, ast.Subscript) and \
                        _s(e.value.value) == 'self.n_sc':
                    return get((const(e.value.slice), const(e.slice)))
            if isinstance(e, ast.BinOp):
                if isinstance(e.op, ast.Pow) and isinstance(
                        const(e.right), int):
                    return conv(e.left) ** const(e.right)
                l, r = conv(e.left), conv(e.right)
                if isinstance(e.op, ast.Add):
                    return l + r
                if isinstance(e.op, ast.Sub):
                    return l - r
                if isinstance(e.op, ast.Mult):
                    return l * r
            if isinstance(e, ast.Call) and call_name(e) == 'int' and \
                    len(e.args) == 1:
                return conv(e.args[0])
            raise AnalysisError('Subchannel.__init__: count formula %s' % s)

        def get(k):
            if k in out:
                return out[k]
            sts = raw.get(k, [])
            if len(sts) != 1 or sts[0] not in fi.node.body:
                raise AnalysisError('Subchannel.__init__: n_sc%r is not '
                                    'stored exactly once' % (k,))
            out[k] = conv(sts[0].value)
            return out[k]
        res = {}
        for k in (('coolant', 'interior'), ('coolant', 'total'),
                  ('duct', 'total'), ('total', None)):
            res[k] = get(k)
        for k in (('coolant', 'edge'), ('coolant', 'corner'),
                  ('duct', 'edge'), ('duct', 'corner')):
            try:
                res[k] = get(k)
            except AnalysisError:
                pass
        I, C = res[('coolant', 'interior')], res[('coolant', 'total')]
        D, T = res[('duct', 'total')], res[('total', None)]
        if not ((C - I).equals(D) and D.equals(c(6) * H.N) and T.equals(
                C + (c(2) * ND - c(1)) * D)):
            raise AnalysisError('Subchannel.__init__: the subchannel counts '
                                'do not describe interior + (2 n_duct) rings '
                                'of 6 n_ring cells')
        # 0-based cell types
        sub = [st for st in fi.node.body if isinstance(st, ast.AugAssign)
               and _s(st.target) == 'self.type'
               and isinstance(st.op, ast.Sub) and const(st.value) == 1]
        if len(sub) != 1:
            raise AnalysisError('Subchannel.__init__: `self.type -= 1` '
                                '(0-based cell types) not found')
        self._nsc = res
        return res

    def type_ring(self, sl, fr, text):
        """subchannel.type[lo:hi] -> the ring of cells the slice selects."""
        if sl.step is not None:
            raise Unmodelled('strided slice %s' % text[:80])
        q = self.nsc()
        I, C = q[('coolant', 'interior')], q[('coolant', 'total')]
        D, T = q[('duct', 'total')], q[('total', None)]
        pts = [{'n': Fraction(a), 'nd': Fraction(b)}
               for a, b in ((2, 1), (3, 2), (7, 3), (15, 4))]

        def bound(node, default):
            if node is None:
                return default
            r = self.scalar(node, fr).r
            sg = [_num(r, p) for p in pts]
            if any(x is None for x in sg):
                raise Unmodelled('slice bound %s of %s' % (_s(node), text))
            if all(x < 0 for x in sg):
                return T + r
            if all(x >= 0 for x in sg):
                return r
            raise Unmodelled('slice bound %s of %s changes sign'
                             % (_s(node), text))
        lo, hi = bound(sl.lower, c(0)), bound(sl.upper, T)
        if lo.equals(I) and hi.equals(C):
            return Ring(c(1), c(2), 0, text, text)
        if (hi - lo).equals(D):
            k = (lo - C) / D
            vals = [_num(k, p) for p in pts]
            if all(v is not None and v.denominator == 1 and
                   0 <= v <= 2 * p['nd'] - 2 for v, p in zip(vals, pts)) \
                    and len({int(v) % 2 for v in vals}) == 1:
                # an even number of rings outward of the coolant: a duct
                # ring; odd: a bypass ring
                if int(vals[0]) % 2 == 0:
                    return Ring(c(3), c(4), 0, text, text)
                return Ring(c(5), c(6), 0, text, text)
        raise Unmodelled('%s does not select one ring of cells' % text[:80])


# ---------------------------------------------------------------------------
# the mesh built by a calculate_xbnds

def _mesh(E, fi):
    """(first, inner, end, node of inner, node of end) of the returned
    boundary vector."""
    fr = Frame(fi, {fi.params[0]: REGION})
    rets = [r for r in walk_no_nested(fi.node) if isinstance(r, ast.Return)]
    if len(rets) != 1 or rets[0] not in fi.node.body or rets[0].value is None:
        raise AnalysisError('%s: single result expected' % fi.qual)
    rv = rets[0].value
    if isinstance(rv, ast.Name) and rv.id in fr.cont:
        nm = rv.id
        base = [a for a in U.assigns_of(fi.node, nm)]
        if len(base) != 1 or not isinstance(base[0], ast.Assign) or \
                base[0] not in fi.node.body:
            raise AnalysisError('%s: allocation of %s' % (fi.qual, nm))
        alloc = E.ev(base[0].value, fr, base[0].lineno)
        first = inner = end = None
        n_in = n_end = None
        for t, st in U.stores(fi.node):
            if not (isinstance(t, ast.Subscript) and _s(t.value) == nm):
                continue
            if st not in fi.node.body:
                raise AnalysisError('%s: conditional store %s'
                                    % (fi.qual, _s(st)[:60]))
            k = _s(t.slice)
            val = E.ev(st.value, fr, st.lineno)
            if isinstance(st, ast.AugAssign):
                cur = {'1:-1': inner, '-1': end, '0': first}.get(k)
                if cur is None:
                    raise AnalysisError('%s: update %s' % (fi.qual,
                                                           _s(st)[:60]))
                val = E.arith(st.op, cur, val, _s(st))
            elif not isinstance(st, ast.Assign):
                raise AnalysisError('%s: store %s' % (fi.qual, _s(st)[:60]))
            if k == '1:-1':
                inner, n_in = val, st
            elif k == '-1':
                end, n_end = val, st
            elif k == '0':
                first = val
            else:
                raise AnalysisError('%s: store into %s' % (fi.qual, _s(t)))
        if isinstance(alloc, Zeros):
            if first is None:
                first = Sc(c(0), '0')
        if first is None or inner is None or end is None:
            raise AnalysisError('%s: the boundary vector is not filled as '
                                'first | inner | end' % fi.qual)
        return first, inner, end, n_in, n_end
    v = E.ev(rv, fr, rets[0].lineno)
    if isinstance(v, tuple) and v[0] == 'concat' and len(v[1]) == 3:
        a, inner, b = v[1]
        if isinstance(a, Tab) and len(a.items) == 1:
            a = a.items[0]
        if isinstance(b, Tab) and len(b.items) == 1:
            b = b.items[0]
        if isinstance(a, Sc) and isinstance(b, Sc):
            return a, inner, b, rets[0], rets[0]
    if isinstance(v, Tab):
        return v
    raise AnalysisError('%s: result %s is not a boundary vector the rule can '
                        'interpret' % (fi.qual, _s(rv)[:80]))


WHY = ('; the gap mesh around the assembly is built side by side from the '
       'true hexagon side, so a duct mesh that does not walk the outer face '
       'of the outermost duct from the centre of the top corner is mapped '
       'with a different offset on every hexagon side (no 60-degree '
       'equivariance, no identity map for coinciding meshes)')


def check(ctx, rule):
    repo = ctx.repo
    fi = repo.func('region_rodded', 'RoddedRegion.calculate_xbnds')
    E = Ev(repo, fi, 'rodded')
    try:
        m = _mesh(E, fi)
        if isinstance(m, Tab):
            raise Unmodelled('a literal table of boundaries')
        first, inner, end, n_in, n_end = m
        if not isinstance(inner, Cum):
            raise Unmodelled('the inner boundaries are not a cumulative sum '
                             'of element widths: %s' % _s(
                                 n_in.value if hasattr(n_in, 'value')
                                 else n_in)[:80])
        if not isinstance(end, Sc) or not isinstance(first, Sc):
            raise Unmodelled('first / last boundary')
    except Unmodelled as e:
        raise AnalysisError('%s: %s' % (fi.qual, e))
    ring = inner.ring
    via = ''
    if E.trail:
        seen = []
        for t in E.trail:
            if t not in seen:
                seen.append(t)
        via = ' [widths taken from: %s]' % '; '.join(seen)
    ctx.require(H.is_zero(ring.e - H.P_), rule, fi, n_in,
                'edge duct elements must be one pin pitch wide; the element '
                'width table gives `%s` (off by %r)%s%s'
                % (ring.te, H.reduce_r3(ring.e - H.P_).n, via, WHY),
                key=fi.full + ' | edge width')
    total = c(6) * ((H.N - c(1)) * ring.e + ring.cn)
    ctx.require(H.is_zero(total - end.r), rule, fi, n_in,
                'six sides of (n_ring - 1) edge elements and one corner '
                'element must add up to the boundary the walk ends on (%s); '
                'the element width table gives edge `%s`, corner `%s`: '
                'residual %r -- the corner element width must be twice the '
                'corner length of the outer face of the outermost duct, '
                "2 x d['wcorner'][-1, 1]%s%s" % (
                    end.text, ring.te, ring.tc,
                    H.reduce_r3(total - end.r).n, via, WHY),
                key=fi.full + ' | walk closes')
    ctx.require(H.is_zero(end.r - c(6) * H.F(LAST, 1) / H.R3), rule, fi,
                n_end, 'the walk must end at the perimeter of the outermost '
                'duct outer face, 6 / sqrt3 x duct_ftf[-1][1] (found %s)%s'
                % (end.text, WHY), key=fi.full + ' | perimeter')
    ctx.require(ring.shift == 1, rule, fi, n_in,
                'the walk must start with the top corner element: the '
                'element widths, numbered like the subchannels (per side '
                'n_ring - 1 edge cells, then the corner cell), have to be '
                'rolled by exactly one place (found a roll by %d)%s'
                % (ring.shift, WHY), key=fi.full + ' | walk start')
    ctx.require(H.is_zero(first.r) and
                H.is_zero(inner.off + ring.cn / c(2)), rule, fi, n_in,
                'the walk starts in the centre of the top corner element: '
                'first boundary 0, then half a corner element; the '
                'cumulative widths are shifted by `%s` (%r) instead of minus '
                'half the corner element width `%s`%s'
                % (inner.toff, H.reduce_r3(inner.off).n, ring.tc, WHY),
                key=fi.full + ' | first boundary')
    _unrodded(ctx, rule)


def _unrodded(ctx, rule):
    """Corner-only mesh of a region without pins: half a side, five sides,
    half a side of the hexagon through the outer duct face."""
    repo = ctx.repo
    fi = repo.func('region_unrodded', 'SingleNodeHomogeneous.calculate_xbnds')
    for ci in repo.all_classes():
        if ci.mod is fi.mod and ci is not fi.cls and \
                'calculate_xbnds' in ci.methods:
            raise AnalysisError('%s overrides calculate_xbnds' % ci.full)
    E = Ev(repo, fi, 'unrodded')
    try:
        m = _mesh(E, fi)
    except Unmodelled as e:
        raise AnalysisError('%s: %s' % (fi.qual, e))
    ret = [r for r in fi.node.body if isinstance(r, ast.Return)][0]
    if not isinstance(m, Tab):
        raise AnalysisError('%s: a table of eight boundaries is expected'
                            % fi.qual)
    side = Rat.sym('U1') / H.R3
    want = [c(0)] + [side * c(Fraction(2 * k - 1, 2)) for k in range(1, 7)] \
        + [c(6) * side]
    ok = len(m.items) == len(want)
    bad = [k for k in range(min(len(want), len(m.items)))
           if not H.is_zero(m.items[k].r - want[k])]
    ctx.require(ok and not [k for k in bad if k < 7], rule, fi, ret,
                'corner-only duct mesh: boundaries at 0, 1/2, 3/2, ... 11/2 '
                'sides of the hexagon through the OUTER duct face '
                '(duct_ftf[1] / sqrt3), the same step on every side; '
                'boundaries %s differ%s' % (bad, WHY),
                key=fi.full + ' | corner mesh')
    ctx.require(ok and 7 not in bad, rule, fi, ret,
                'corner-only duct mesh: the walk ends at the outer '
                'perimeter 6 / sqrt3 x duct_ftf[1]%s' % WHY,
                key=fi.full + ' | perimeter')


def run(ctx):
    check(ctx, 'C07.R7')
    ctx.min_instances('C07.R7', 7)
    ctx.decided.append(
        'R7 (= C10.R4, decided on values) the duct mesh every region hands '
        'to the duct<->gap map walks the outer face of the outermost duct '
        'from the centre of the top corner: the element widths -- wherever '
        'they are taken from -- evaluate to one pin pitch / one corner '
        'element, six sides of them close on 6 / sqrt3 x outer flat-to-flat '
        '(corner length closed form of C08.R4), the sequence starts with the '
        'corner element and half of it precedes the first boundary; '
        'pin-less regions: half a side, five sides, half a side.  A mesh '
        'that drifts around the perimeter couples duct and gap cells with a '
        'side-dependent offset and breaks the 60-degree equivariance')
