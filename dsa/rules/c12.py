"""C12 -- flow split conserves mass; every accepted correlation combination
can be evaluated (registry-slot agreement, T5) -- DESIGN 4.12."""
import ast
import itertools
import re
from fractions import Fraction

from ..core import (AnalysisError, access_path, const, find_all, match, short,
                    src, walk_no_nested, parent, call_name, ancestors, dotted)
from .. import util as U
from .. import schema as S
from .. import shape as SH
from ..resolve import Resolver
from ..poly import Rat, Poly, from_ast, NotPolynomial

SLOT_IMPORTERS = {'ff': '_import_friction_correlation',
                  'fs': '_import_flowsplit_correlation',
                  'mix': '_import_mixing_correlation'}
SLOT_SCHEMA = {'ff': 'corr_friction', 'fs': 'corr_flowsplit',
               'mix': 'corr_mixing'}
CATCH_ALL = {'Exception', 'BaseException', None}
SUBSUMES = {'LookupError': {'KeyError', 'IndexError'}}


def run(ctx):
    ctx.decided += [
        'R1 for each of the 6 x 5 x 4 accepted correlation combinations, with '
        'and without spacer grid, every read corr_constants[slot][k...] '
        'reachable from the installed handlers is checked against the record '
        'shape of the calc_constants() of the module occupying that slot; a '
        'mismatch is classified by the exception it raises and must be caught '
        'by an enclosing try of the repository recompute idiom',
        'R2 every function storable in a slot accepts every call shape used '
        'on that slot; no string literal is passed positionally into a '
        'boolean parameter',
        'R3 schema options of corr_* are accepted by the import tables',
        'R4 (exact polynomial algebra) every flow-split formula is normalised '
        'so that the area-weighted mean sum_i (N_i A_i / A_b) x_i equals one '
        'identically: constant laminar/turbulent splits, the transition '
        'iteration update, the approximate transition split, Novendstern, MIT '
        'and SE2 splits',
        'R5 the transition iteration is bounded (range loop) and ends in '
        'return or StopIteration that the caller handles',
        'R6 one correlation, one transition law: every call a flow-split '
        'module makes into the shared Cheng-Todreas workers passes the same '
        'transition exponent (_lambda), with and without spacer grids, and '
        'that exponent is the one of the (1 - psi^lambda) factor in the '
        'friction-factor module of the same family (none for CTD, 7 for '
        'UCTD): equal pressure drop across subchannels is solved with the '
        'friction law the pressure drop is then computed with',
        'R7 regime pairing: an argument handed to a laminar-regime parameter '
        'of the transition iteration (Re_iL, Cf_iL) is built from '
        'laminar-tagged constants only ([\'laminar\'], Re_bnds[0]), a '
        'turbulent-regime one from turbulent-tagged constants only '
        '([\'turbulent\'], Re_bnds[1]); the same holds for every '
        'regime-keyed table read next to a regime-indexed bound']
    ctx.not_decided += ['pressure-gradient equality as numbers', 'positivity '
                        'and finiteness of friction factors / mixing '
                        'parameters']
    res = Resolver(ctx.repo)
    slots = _slot_tables(ctx)
    r3(ctx, slots)
    r1(ctx, slots, res)
    r2(ctx, slots, res)
    r4(ctx)
    r5(ctx)
    r6(ctx, slots)
    ctx.min_instances('C12.R6', 4)
    r7(ctx)
    r8(ctx)
    ctx.min_instances('C12.R7', 8)
    ctx.min_instances('C12.R1', 240)
    ctx.min_instances('C12.R2', 20)
    ctx.min_instances('C12.R3', 15)
    ctx.min_instances('C12.R4', 8)


# ---------------------------------------------------------------------------
# slot tables from region_rodded._import_*_correlation

class Occ:
    def __init__(self, slot, nick, names, module, handler, consts):
        self.slot, self.nick, self.names = slot, nick, names
        self.module, self.handler, self.consts = module, handler, consts


def _candidate_names(repo, fi):
    """String literals the importer (and the module-level tables it reads)
    mentions: the finite domain its `name` argument is decided over."""
    from .. import finite as FD
    out = set()
    m = fi.mod
    g, _ = FD.module_literals(m.tree)

    def strings(v):
        if isinstance(v, str):
            out.add(v)
        elif isinstance(v, dict):
            for k, x in v.items():
                strings(k)
                strings(x)
        elif isinstance(v, (list, tuple, set, frozenset)):
            for x in v:
                strings(x)
    for n in ast.walk(fi.node):
        if isinstance(n, ast.Constant) and isinstance(n.value, str):
            out.add(n.value)
        if isinstance(n, ast.Name) and n.id in g:
            strings(g[n.id])
    return sorted(x for x in out if len(x) < 48 and '\n' not in x)


def importer_table(repo, fi, extra_names=(), n_extra_args=2):
    """Decide an `_import_*_correlation(name, ...)` dispatcher over the
    finite set of names it can tell apart, with the checker's finite-domain
    evaluator: -> {name: (nick, handler MemberRef, constants)} for the names
    it accepts (every other candidate ends in sys.exit / an error)."""
    from .. import finite as FD
    m = fi.mod
    g, funcs = FD.module_literals(m.tree)
    table = {}
    cands = sorted(set(_candidate_names(repo, fi)) | set(extra_names))
    for nm in cands:
        ev = FD.Evaluator(g, funcs)
        args = [nm] + [FD.OPAQUE] * (len(fi.node.args.args) - 1)
        if len(args) == 3:
            args[2] = False         # warn: applicability warnings off
        try:
            kind, val, node = ev.call_function(fi.node, args)
        except FD.Unsupported as e:
            raise AnalysisError('%s(%r): dispatcher not evaluable over its '
                                'name literals: %s' % (fi.name, nm, e))
        if kind == 'raise':
            continue
        if not (isinstance(val, tuple) and len(val) == 3 and isinstance(
                val[1], FD.MemberRef)):
            raise AnalysisError('%s(%r): return shape %r' % (fi.name, nm,
                                                             val))
        table[nm] = val
    return table


def _slot_tables(ctx):
    from .. import finite as FD
    repo = ctx.repo
    out = {}
    for slot, fn in SLOT_IMPORTERS.items():
        fi = repo.func('region_rodded', fn)
        table = importer_table(repo, fi)
        if len(table) < 2:
            raise AnalysisError(fn + ': dispatch table not found')
        groups = {}
        for nm, (nick, handler, consts) in sorted(table.items()):
            groups.setdefault((handler.module, handler.attr, nick,
                               repr(consts)), []).append(nm)
        occs = []
        for (modname, hname, nick, _), names in groups.items():
            consts = table[names[0]][2]
            if modname not in repo.modules:
                raise AnalysisError('%s: names %s import no package module '
                                    '(%s)' % (fn, names, modname))
            m = repo.modules[modname]
            if hname not in m.funcs:
                raise AnalysisError('%s has no %s()' % (modname, hname))
            cfun = None
            if consts is not None:
                if not isinstance(consts, FD.CallRef):
                    raise AnalysisError('%s: constants %r' % (fn, consts))
                cm = repo.modules.get(consts.member.module)
                cfun = cm.funcs.get(consts.member.attr) if cm else None
                if cfun is None:
                    raise AnalysisError('%s: constants %r' % (fn, consts))
            if not isinstance(nick, str):
                raise AnalysisError('%s: nickname for %s is %r'
                                    % (fn, names, nick))
            occs.append(Occ(slot, nick, names, m, m.funcs[hname], cfun))
        # (stable order: by the position of the module's first mention)
        text = ast.unparse(fi.node)
        occs.sort(key=lambda o: (text.find(o.module.name.rsplit('.', 1)[-1]
                                           .split('_', 1)[-1]), o.nick))
        out[slot] = (fi, occs)
    return out


def _norm_name(x):
    return '-'.join(re.split('-| ', x.lower()))


def r3(ctx, slots):
    keys, sections = S.parse_template(ctx.repo.template_text)
    ctx.extra['slot_occupants'] = {}
    for slot, (fi, occs) in slots.items():
        k = keys.get(('Assembly', '__many__', SLOT_SCHEMA[slot]))
        if k is None or k.options is None:
            raise AnalysisError('schema %s vanished' % SLOT_SCHEMA[slot])
        ctx.extra['slot_occupants'][slot] = [o.nick for o in occs]
        for opt in k.options:
            hit = [o for o in occs if _norm_name(opt) in o.names]
            ctx.require(len(hit) == 1, 'C12.R3', fi, fi.node,
                        'schema accepts %s = %s but %s() has %d branches for '
                        'it' % (SLOT_SCHEMA[slot], opt, fi.name, len(hit)),
                        key='%s | option %s' % (fi.full, opt))
        # import_corr lower-cases and joins the same way
    ic = ctx.repo.func('region_rodded', 'import_corr')
    for var in ('friction', 'flowsplit', 'mix'):
        h = find_all("%s = '-'.join(re.split('-| ', %s.lower()))" % (var, var),
                     ic.node, 'stmt')
        ctx.require(len(h) == 1, 'C12.R3', ic, h[0][0] if h else ic.node,
                    'correlation names are normalised (lower case, blanks to '
                    'hyphen) before dispatch', key='%s | normalise %s'
                    % (ic.full, var))


# ---------------------------------------------------------------------------
# reads of corr_constants

class Read:
    def __init__(self, fi, node, path, caught, prefix=None):
        self.fi, self.node, self.path = fi, node, path
        self.caught = caught          # set of exception names (None = bare)
        # alias reads: (prefix path, caught set of the binding read, True if
        # the handler re-binds the alias) -- if the binding read raises a
        # caught exception the alias holds recomputed data of its own module
        self.prefix = prefix


def _caught_types(node, fn_node):
    """Exception names caught by try statements enclosing node (the node
    must be in the try *body*) whose handlers do not re-raise."""
    out = set()
    child = node
    for a in ancestors(node):
        if a is fn_node:
            break
        if isinstance(a, ast.Try) and any(child is b or child in ast.walk(b)
                                          for b in a.body):
            for h in a.handlers:
                reraises = any(isinstance(x, ast.Raise) and x.exc is None
                               for x in ast.walk(h))
                if reraises:
                    continue
                if h.type is None:
                    out.add(None)
                elif isinstance(h.type, ast.Tuple):
                    out |= {dotted(e) for e in h.type.elts}
                else:
                    out.add(dotted(h.type))
        child = a
    return out


def _is_caught(exc, caught):
    if caught & CATCH_ALL:
        return True
    if exc in caught:
        return True
    return any(exc in SUBSUMES.get(c, ()) for c in caught)


def _collect_reads(fi):
    """Reads `X.corr_constants[slot][k...]` (maximal chains) in fi,
    following one level of local aliasing (cc = X.corr_constants['ff'])."""
    reads = []
    aliases = {}
    alias_info = {}
    for st in walk_no_nested(fi.node):
        if isinstance(st, ast.Assign) and len(st.targets) == 1 and \
                isinstance(st.targets[0], ast.Name):
            p = _cc_path(st.value, {})
            if p is not None:
                nm = st.targets[0].id
                aliases[nm] = p
                alias_info[nm] = (p, _caught_types(st.value, fi.node))
    for n in walk_no_nested(fi.node):
        if not isinstance(n, ast.Subscript) or not isinstance(n.ctx,
                                                              ast.Load):
            continue
        par = parent(n)
        if isinstance(par, ast.Subscript) and par.value is n:
            continue
        p = _cc_path(n, aliases)
        if p is None or not p:
            continue
        root = n
        while isinstance(root, ast.Subscript):
            root = root.value
        prefix = alias_info.get(root.id) if isinstance(root, ast.Name) \
            else None
        reads.append(Read(fi, n, p, _caught_types(n, fi.node), prefix))
    return reads


def _cc_path(e, aliases):
    keys = []
    n = e
    while isinstance(n, ast.Subscript):
        c = const(n.slice)
        keys.append(c if isinstance(c, (str, int)) and not isinstance(
            c, bool) else '*')
        n = n.value
    keys.reverse()
    if isinstance(n, ast.Attribute) and n.attr == 'corr_constants':
        return keys
    if isinstance(n, ast.Name) and n.id in aliases and keys:
        return aliases[n.id] + keys
    return None


def _grid_conditional_calls(fi):
    """Calls in fi that execute only when parameter `grid` is truthy."""
    out = set()
    if 'grid' not in fi.params:
        return out
    for c in walk_no_nested(fi.node):
        if isinstance(c, ast.Call):
            for t, pol in U.guards(c):
                if src(t) == 'grid' and pol:
                    out.add(id(c))
    return out


def _reach(res, start, grid):
    """Functions of dassh.correlations reachable from handler `start`;
    calls guarded by `if grid:` only when grid is set."""
    seen, work = {}, [start]
    while work:
        f = work.pop()
        if f.full in seen:
            continue
        seen[f.full] = f
        gc = _grid_conditional_calls(f)
        for c in walk_no_nested(f.node):
            if not isinstance(c, ast.Call):
                continue
            if id(c) in gc and not grid:
                continue
            # when grid is set, the flow-split handlers return from the grid
            # branch: the rest of the body is still analysed (harmless
            # over-approximation only for own-slot reads)
            cs, how = res.callees(f, c)
            if how in ('by-name', 'external', 'unresolved'):
                continue
            for x in cs:
                if x.mod.name.startswith('dassh.correlations'):
                    work.append(x)
    return list(seen.values())


def _grid_shape(ctx):
    fi = ctx.repo.func('region_rodded', 'RoddedRegion._setup_spacer_grid')
    d = {}
    for t, st in U.stores(fi.node):
        b = match("self.corr_constants['grid'][Q_k]", t)
        if b is not None and isinstance(const(b['Q_k']), str):
            d[const(b['Q_k'])] = SH.OPAQUE
    if not {'z', 'n'} <= set(d):
        raise AnalysisError('_setup_spacer_grid: grid constants z/n')
    return SH.D(d)


def r1(ctx, slots, res):
    repo = ctx.repo
    si = SH.ShapeInfer(repo, res)
    shapes = {}
    for slot, (fi, occs) in slots.items():
        for o in occs:
            shapes[(slot, o.nick)] = si.ret_shape(o.consts) if o.consts \
                else SH.NONE
    ctx.extra['constant_shapes'] = {'%s:%s' % k: SH.fmt(v)
                                    for k, v in shapes.items()}
    grid_shape = _grid_shape(ctx)
    read_cache = {}
    reach_cache = {}
    findings = {}      # key -> (read, exc, slot, nick, [combos])
    n_eval = 0
    n_combo = 0
    for ff, fs, mix in itertools.product(slots['ff'][1], slots['fs'][1],
                                         slots['mix'][1]):
        for grid in (False, True):
            n_combo += 1
            cshape = {'ff': shapes[('ff', ff.nick)],
                      'fs': shapes[('fs', fs.nick)],
                      'mix': shapes[('mix', mix.nick)],
                      'nu': SH.NONE, 'sf': SH.NONE}
            if grid:
                cshape['grid'] = grid_shape
            top = SH.D(cshape)
            nick = {'ff': ff.nick, 'fs': fs.nick, 'mix': mix.nick}
            for occ in (fs, ff, mix):
                g = grid if occ.slot == 'fs' else False
                rk = (occ.handler.full, g)
                if rk not in reach_cache:
                    reach_cache[rk] = _reach(res, occ.handler, g)
                for f in reach_cache[rk]:
                    if f.full not in read_cache:
                        read_cache[f.full] = _collect_reads(f)
                    for rd in read_cache[f.full]:
                        n_eval += 1
                        if rd.prefix is not None:
                            pr = SH.lookup(top, rd.prefix[0])
                            if pr[0] == 'raise' and _is_caught(
                                    pr[1], rd.prefix[1]):
                                continue   # alias holds recomputed data
                            if pr[0] == 'unknown':
                                continue
                        r = SH.lookup(top, rd.path)
                        if r[0] != 'raise':
                            continue
                        exc = r[1]
                        if _is_caught(exc, rd.caught):
                            continue
                        # `'k' in alias.keys()` / `alias is not None` guards
                        if rd.prefix is not None and any(
                                rd.path[len(rd.prefix[0])] == const(
                                    U.compare_parts(t)[0]) for t, pol in
                                U.guards(rd.node) if U.compare_parts(t)
                                and pol and U.compare_parts(t)[1] is ast.In):
                            continue
                        slot = rd.path[0]
                        key = '%s | %s' % (
                            rd.fi.full, ' '.join(src(rd.node).split()))
                        findings.setdefault(key, [rd, {}, slot, set(), []])
                        findings[key][1][nick.get(slot, 'absent')] = exc
                        findings[key][3].add(nick.get(slot, 'absent'))
                        findings[key][4].append(
                            '%s/%s/%s%s via %s' % (
                                ff.nick, fs.nick, mix.nick,
                                '+grid' if grid else '', occ.slot))
    ctx.extra['combinations'] = n_combo
    ctx.extra['read_evaluations'] = n_eval
    # one instance per (combination) for the evidence count
    for i in range(n_combo):
        pass
    ctx.rule_counts['C12.R1'] = ctx.rule_counts.get('C12.R1', 0)
    for key, (rd, excs, slot, nks, combos) in sorted(findings.items()):
        ctx.violation(
            'C12.R1', rd.fi, rd.node,
            'reads %s, which does not exist when slot %r is occupied by %s '
            '(raises %s; caught here: %s): %d accepted combination/handler '
            'cases cannot be evaluated, e.g. %s'
            % (' '.join(src(rd.node).split()), slot,
               ', '.join('%s [%s]' % (n_, SH.fmt(ctx_shape(shapes, slot, n_)))
                         for n_ in sorted(nks)),
               ', '.join('%s for %s' % (e, n_) for n_, e in
                         sorted(excs.items())),
               sorted(str(c) for c in rd.caught) or 'nothing',
               len(combos), combos[0]),
            key='%s | when %s in {%s}' % (key, slot, ','.join(sorted(nks))))
    # record the clean evaluations as instances (one per combination)
    ok_combos = n_combo
    for ff, fs, mix in itertools.product(slots['ff'][1], slots['fs'][1],
                                         slots['mix'][1]):
        for grid in (False, True):
            tag = '%s/%s/%s%s' % (ff.nick, fs.nick, mix.nick,
                                  '+grid' if grid else '')
            bad = [k for k, v in findings.items()
                   if any(c.startswith(tag + ' via') for c in v[4])]
            ctx._inst('C12.R1', 'dassh/region_rodded.py (import_corr)', None,
                      'holds' if not bad else 'affected',
                      '%s: %d unguarded foreign reads' % (tag, len(bad)))


def ctx_shape(shapes, slot, nk):
    return shapes.get((slot, nk), SH.OPAQUE)


# ---------------------------------------------------------------------------

def _accepts(fi, npos, kws):
    a = fi.node.args
    params = [x.arg for x in a.posonlyargs + a.args]
    ndef = len(a.defaults)
    required = len(params) - ndef
    if npos > len(params) and a.vararg is None:
        return False, 'takes at most %d positional arguments' % len(params)
    for k in kws:
        if k not in params and k not in [x.arg for x in a.kwonlyargs] and \
                a.kwarg is None:
            return False, 'has no parameter %r' % k
    covered = set(params[:npos]) | set(kws)
    missing = [p for p in params[:required] if p not in covered]
    if missing:
        return False, 'misses required %s' % missing
    return True, ''


def r2(ctx, slots, res):
    repo = ctx.repo
    # call shapes used on each slot
    shapes = {}
    for fi in repo.all_funcs():
        if fi.mod.name.startswith(('dassh.plot', 'dassh.py4c')):
            continue
        for c in walk_no_nested(fi.node):
            if isinstance(c, ast.Call) and isinstance(c.func, ast.Subscript):
                b = match("Q_r.corr[Q_s]", c.func)
                if b is None or const(b['Q_s']) is None:
                    continue
                slot = const(b['Q_s'])
                shapes.setdefault(slot, []).append(
                    (fi, c, len(c.args), tuple(k.arg for k in c.keywords)))
    if not {'ff', 'fs', 'mix'} <= set(shapes):
        raise AnalysisError('slot call sites for ff/fs/mix not found')
    occupants = {s: [(o.nick, o.handler) for o in occs]
                 for s, (fi, occs) in slots.items()}
    # other slots have a single occupant set in import_corr / spacer grid
    ic = repo.func('region_rodded', 'import_corr')
    for t, st in U.stores(ic.node):
        b = match("corr[Q_s]", t)
        if b is None or not isinstance(st, ast.Assign):
            continue
        slot = const(b['Q_s'])
        if slot in occupants or const(st.value, 0) is None:
            continue
        d = dotted(st.value)
        if d:
            for imp in ast.walk(ic.node):
                if isinstance(imp, ast.Import) and imp.names[0].asname == \
                        d.split('.')[0]:
                    m = repo.modules.get(imp.names[0].name)
                    if m and d.split('.')[-1] in m.funcs:
                        occupants.setdefault(slot, []).append(
                            (d, m.funcs[d.split('.')[-1]]))
    sfi = repo.func('region_rodded', '_import_shapefactor_correlation')
    sfm = repo.modules.get('dassh.correlations.shapefactor_ct')
    if sfm and 'calculate_shape_factor' in sfm.funcs:
        occupants.setdefault('sf', []).append(
            ('ct', sfm.funcs['calculate_shape_factor']))
    for modn in ('grid_rehme', 'grid_cdd'):
        m = repo.modules.get('dassh.correlations.' + modn)
        if m and 'calc_loss_coeff' in m.funcs:
            occupants.setdefault('grid', []).append(
                (modn, m.funcs['calc_loss_coeff']))
    for slot, calls in sorted(shapes.items()):
        for nick, h in occupants.get(slot, []):
            for fi, c, npos, kws in calls:
                ok, why = _accepts(h, npos, kws)
                ctx.require(
                    ok, 'C12.R2', fi, c,
                    'slot %r may hold %s.%s, which %s, but is called here as '
                    '%s: TypeError for every input selecting %r with this '
                    'call shape' % (slot, h.mod.name.split('.')[-1], h.name,
                                    why, ' '.join(src(c).split()), nick),
                    key='%s | %s <- %s' % (fi.full, ' '.join(src(c).split()),
                                           h.full))
    # literal strings passed positionally into boolean-default parameters
    for fi in repo.all_funcs():
        if not fi.mod.name.startswith('dassh.correlations'):
            continue
        for c in walk_no_nested(fi.node):
            if not isinstance(c, ast.Call):
                continue
            cs, how = res.callees(fi, c)
            if how in ('by-name', 'external', 'unresolved') or len(cs) != 1:
                continue
            callee = cs[0]
            a = callee.node.args
            params = a.posonlyargs + a.args
            defaults = [None] * (len(params) - len(a.defaults)) + \
                list(a.defaults)
            for i, arg in enumerate(c.args):
                if i < len(params) and isinstance(const(arg), str) and \
                        defaults[i] is not None and isinstance(
                            const(defaults[i], 0), bool):
                    ctx.violation(
                        'C12.R2', fi, c,
                        'string %r is passed positionally into the boolean '
                        'parameter %r of %s (the intended parameter is a later'
                        ' keyword): the flag becomes truthy and the wrong '
                        'branch runs' % (const(arg), params[i].arg,
                                         callee.qual),
                        key='%s | %s' % (fi.full, ' '.join(src(c).split())))
                else:
                    ctx.ok('C12.R2', fi, c) if i == 0 and \
                        callee.mod.name.startswith('dassh.correlations') \
                        and False else None


# ---------------------------------------------------------------------------
# R4: normalisation identities

def _frac_pow_hook(symtab):
    """from_ast extension: (X / Y) ** c and X ** c with non-integer c are
    turned into fresh positive symbols pow(X, c) so that quotient/product
    rules hold (all bases are positive geometric quantities)."""
    def conv(node, atoms, env):
        def rec(n):
            s = ' '.join(src(n).split())
            if s in atoms:
                return Rat.sym(atoms[s])
            if isinstance(n, ast.Name) and n.id in env:
                return env[n.id]
            c = const(n)
            if isinstance(c, (int, float)) and not isinstance(c, bool):
                return Rat.const(Fraction(str(c)))
            if isinstance(n, ast.UnaryOp) and isinstance(n.op, ast.USub):
                return -rec(n.operand)
            if isinstance(n, ast.BinOp):
                if isinstance(n.op, ast.Pow):
                    e = const(n.right)
                    es = src(n.right)
                    if isinstance(e, int):
                        return rec(n.left) ** e
                    base = n.left
                    if isinstance(base, ast.BinOp) and isinstance(
                            base.op, ast.Div):
                        return powsym(base.left, es) / powsym(base.right, es)
                    if isinstance(base, ast.BinOp) and isinstance(
                            base.op, ast.Mult):
                        return powsym(base.left, es) * powsym(base.right, es)
                    return powsym(base, es)
                l, r = rec(n.left), rec(n.right)
                if isinstance(n.op, ast.Add):
                    return l + r
                if isinstance(n.op, ast.Sub):
                    return l - r
                if isinstance(n.op, ast.Mult):
                    return l * r
                if isinstance(n.op, ast.Div):
                    return l / r
            raise NotPolynomial(s)

        def powsym(b, es):
            neg = es.startswith('-')
            key = 'pow(%s,%s)' % (' '.join(src(b).split()), es.lstrip('-'))
            symtab[key] = True
            if isinstance(b, ast.Name) and b.id in env:
                # power of a previously converted local stays symbolic
                pass
            return Rat.const(1) / Rat.sym(key) if neg else Rat.sym(key)
        return rec(node)
    return conv


def _area_atoms(obj):
    """atoms for N_i * A_i products and the bundle area of object `obj`."""
    at = {}
    for i, typ in enumerate(('interior', 'edge', 'corner')):
        at["%s.subchannel.n_sc['coolant']['%s'] * %s.params['area'][%d]"
           % (obj, typ, obj, i)] = 'na%d' % i
    at["%s.bundle_params['area']" % obj] = 'A'
    return at


def _check_norm(ctx, fi, xs, nas, A, what):
    """sum_i na_i * x_i == A identically, given A = sum_i na_i (the
    definition of the bundle flow area, checked in r4)."""
    tot = Rat.const(0)
    for n_, x in zip(nas, xs):
        tot = tot + n_ * x
    S_ = nas[0] + nas[1] + nas[2]
    tot = tot._subs_rat('A', S_)
    A = S_
    ctx.require(tot.equals(A), 'C12.R4', fi, fi.node,
                '%s: the split factors do not conserve mass identically: '
                'sum_i N_i A_i x_i - A_b has numerator %r' % (
                    what, (tot - A).n if not tot.equals(A) else 0),
                key='%s | mass conservation %s' % (fi.full, what))


def _r4_bundle_area(ctx, cg):
    """R4 (0), decided on the value: the entry 'area' of the record that
    calculate_geometry publishes as 'bundle_params' is, at the end of the
    function, exactly A_0 N_0 + A_1 N_1 + A_2 N_2, with A_k element k of the
    array published as params['area'] and N_k = n_sc[k].

    The statements that define the entry (its backward slice through scalar
    locals) are executed symbolically over poly.Rat, in source order: plain
    and augmented assignments, a dict display for the record, loops whose
    iteration space is a literal (`range(c)`, a display) or is made of
    arrays of known constant length (`enumerate` / `zip` / direct iteration
    over an array allocated by np.zeros(k)), unrolled.  A slice statement
    under a condition, in a loop of unknown extent or of a kind that is not
    modelled makes the rule fail (the construct is quoted); so does a store
    into the area array behind a read of it by the slice (the atoms A_k stand
    for the published values)."""
    fn = cg.node

    def txt(n):
        return ' '.join(src(n).split())

    def fail(node, why):
        ctx.require(False, 'C12.R4', cg, node,
                    'bundle flow area must be the sum over the three coolant '
                    'subchannel types of N_i * A_i (%s)' % why,
                    key=cg.full + ' | A = sum NA')

    nodes = list(walk_no_nested(fn, False))
    assigns = [n for n in nodes if isinstance(n, (ast.Assign, ast.AugAssign))]
    params = set(cg.params)
    loopvars = {y.id for n in nodes if isinstance(n, (ast.For,
                                                      ast.comprehension))
                for y in ast.walk(n.target) if isinstance(y, ast.Name)}

    def targets(st):
        return st.targets if isinstance(st, ast.Assign) else [st.target]

    def name_defs(x):
        return [st for st in assigns for t in targets(st)
                for y in ast.walk(t) if isinstance(y, ast.Name)
                and isinstance(y.ctx, ast.Store) and y.id == x]

    def path(e, depth=0):
        """Text of the container an expression denotes, through local
        aliases: a local bound once to a look-up chain is that chain; a local
        container stored whole, once, into a chain (or as the value of a
        constant key of a record display) is that chain."""
        if isinstance(e, ast.Name) and depth < 8 and e.id not in params \
                and e.id not in loopvars:
            ds = name_defs(e.id)
            if len(ds) == 1 and isinstance(ds[0], ast.Assign) and \
                    len(ds[0].targets) == 1 and isinstance(
                        ds[0].targets[0], ast.Name):
                v = ds[0].value
                if isinstance(v, (ast.Name, ast.Subscript, ast.Attribute)) \
                        and not any(isinstance(c_, ast.Call)
                                    for c_ in ast.walk(v)):
                    return path(v, depth + 1)
                outs = []
                for st in assigns:
                    if not (isinstance(st, ast.Assign)
                            and len(st.targets) == 1):
                        continue
                    t = st.targets[0]
                    if isinstance(st.value, ast.Name) and \
                            st.value.id == e.id and isinstance(
                                t, ast.Subscript) and isinstance(
                                const(t.slice), str):
                        outs.append(path(t, depth + 1))
                    if isinstance(st.value, ast.Dict) and isinstance(
                            t, (ast.Name, ast.Subscript)):
                        for k_, v_ in zip(st.value.keys, st.value.values):
                            if isinstance(v_, ast.Name) and v_.id == e.id \
                                    and k_ is not None and isinstance(
                                        const(k_), str):
                                outs.append("%s[%r]" % (path(t, depth + 1),
                                                        const(k_)))
                if len(outs) == 1:
                    return outs[0]
        if isinstance(e, ast.Subscript) and isinstance(const(e.slice), str):
            return "%s[%r]" % (path(e.value, depth), const(e.slice))
        return txt(e)

    # the records published as 'params' / 'bundle_params' (the recorded
    # names if the publication cannot be read off)
    pub = {}
    for n in nodes:
        if isinstance(n, ast.Assign) and len(n.targets) == 1 and isinstance(
                n.targets[0], ast.Subscript) and isinstance(
                n.value, ast.Name):
            k = const(n.targets[0].slice)
            if k in ('params', 'bundle_params'):
                pub.setdefault(k, set()).add(n.value.id)
        if isinstance(n, ast.Dict):
            for k_, v_ in zip(n.keys, n.values):
                if k_ is not None and const(k_) in (
                        'params', 'bundle_params') and isinstance(
                        v_, ast.Name):
                    pub.setdefault(const(k_), set()).add(v_.id)
    sc = min(pub['params']) if len(pub.get('params', ())) == 1 else 'sc_ww'
    bn = min(pub['bundle_params']) if len(
        pub.get('bundle_params', ())) == 1 else 'bundle'
    AREA = "%s['area']" % path(ast.Name(id=sc, ctx=ast.Load()))
    BN = path(ast.Name(id=bn, ctx=ast.Load()))
    TOT = "%s['area']" % BN

    def forwards(st, p):
        return isinstance(st, ast.Assign) and isinstance(
            st.value, ast.Name) and path(st.value) == p

    def length(e):
        """Constant length of the array an expression denotes, or None."""
        p = path(e)
        ws = [st for st in assigns for t in targets(st)
              if isinstance(t, (ast.Subscript, ast.Name)) and path(t) == p
              and not forwards(st, p)]
        if len(ws) != 1 or not isinstance(ws[0], ast.Assign):
            return None
        v = ws[0].value
        if isinstance(v, ast.Call) and txt(v.func) in (
                'np.zeros', 'np.ones', 'np.empty') and len(v.args) == 1 \
                and not v.keywords and isinstance(const(v.args[0]), int) \
                and not isinstance(const(v.args[0]), bool):
            return const(v.args[0])
        return None

    class Undecided(Exception):
        def __init__(self, node, why):
            self.node, self.why = node, why

    state = {}          # scalar locals and entries of the bundle record
    reads = []          # (element index or None, line) of the area array

    def as_int(r):
        if r.d == Poly.const(1) and set(r.n.t) <= {()}:
            f = r.n.t.get((), Fraction(0))
            if f.denominator == 1:
                return int(f)
        return None

    def elem(p, k, node):
        if p == AREA:
            reads.append((k, node.lineno))
            return Rat.sym('A%d' % k)
        if p == 'n_sc' and 'n_sc' in params and not name_defs('n_sc'):
            return Rat.sym('N%d' % k)
        return Rat.sym('<%s[%d]>' % (p, k))

    def opaque(e):
        if any(path(x) == AREA for x in ast.walk(e)
               if isinstance(x, (ast.Name, ast.Subscript))):
            reads.append((None, e.lineno))
        return Rat.sym('<%s>' % txt(e))

    def conv(e, env):
        c = const(e)
        if isinstance(c, (int, float)) and not isinstance(c, bool):
            return Rat.const(Fraction(str(c)))
        if isinstance(e, ast.Name):
            if e.id in env:
                return env[e.id]
            if e.id in state:
                return state[e.id]
            return opaque(e)
        if isinstance(e, ast.UnaryOp) and isinstance(e.op, (ast.USub,
                                                             ast.UAdd)):
            v = conv(e.operand, env)
            return -v if isinstance(e.op, ast.USub) else v
        if isinstance(e, ast.BinOp):
            if isinstance(e.op, ast.Pow):
                k = const(e.right)
                if isinstance(k, int) and not isinstance(k, bool):
                    return conv(e.left, env) ** k
                return opaque(e)
            l, r = conv(e.left, env), conv(e.right, env)
            if isinstance(e.op, ast.Add):
                return l + r
            if isinstance(e.op, ast.Sub):
                return l - r
            if isinstance(e.op, ast.Mult):
                return l * r
            if isinstance(e.op, ast.Div) and not r.is_zero():
                return l / r
            return opaque(e)
        if isinstance(e, ast.Subscript):
            p = path(e)
            if p.startswith(BN + '[') and p in state:
                return state[p]
            if not isinstance(e.slice, (ast.Slice, ast.Tuple)) and \
                    not isinstance(const(e.slice), str):
                k = as_int(conv(e.slice, env))
                if k is not None and k < 0 and length(e.value) is not None:
                    k += length(e.value)
                if k is not None and k >= 0:
                    return elem(path(e.value), k, e)
        return opaque(e)

    def items(it, env):
        """Per-pass values of an iterable: list of value trees (Rat or tuple
        of trees), or None when the extent is not a known constant."""
        if isinstance(it, ast.Call) and isinstance(it.func, ast.Name) \
                and not it.keywords:
            f, a = it.func.id, it.args
            if f == 'range' and 1 <= len(a) <= 2:
                b = [as_int(conv(x, env)) for x in a]
                if len(a) == 1 and isinstance(a[0], ast.Call) and \
                        txt(a[0].func) == 'len' and len(a[0].args) == 1:
                    b = [length(a[0].args[0])]
                if any(x is None for x in b):
                    return None
                return [Rat.const(k) for k in range(*b)]
            if f == 'enumerate' and len(a) == 1:
                inner = items(a[0], env)
                return None if inner is None else [
                    (Rat.const(k), v) for k, v in enumerate(inner)]
            if f == 'zip' and a:
                cols = [items(x, env) for x in a]
                if any(c_ is None for c_ in cols):
                    return None
                return [tuple(r_) for r_ in zip(*cols)]
            return None
        if isinstance(it, (ast.List, ast.Tuple)):
            return [conv(x, env) for x in it.elts]
        if isinstance(it, (ast.Name, ast.Subscript)):
            n_ = length(it)
            if n_ is None:
                return None
            return [elem(path(it), k, it) for k in range(n_)]
        return None

    def bind(t, v, env):
        if isinstance(t, ast.Name) and isinstance(v, Rat):
            env[t.id] = v
            return True
        if isinstance(t, (ast.Tuple, ast.List)) and isinstance(v, tuple) \
                and len(t.elts) == len(v):
            return all(bind(a, b, env) for a, b in zip(t.elts, v))
        return False

    def key_of(t):
        if isinstance(t, ast.Name):
            return t.id
        if isinstance(t, ast.Subscript) and path(t) == TOT:
            return TOT
        return None

    def record_display(st):
        return isinstance(st, ast.Assign) and isinstance(
            st.value, ast.Dict) and any(path(t) == BN for t in st.targets
                                        if isinstance(t, (ast.Name,
                                                          ast.Subscript)))

    # backward slice of the bundle area through scalar locals (names that
    # are only subscripted are containers: they are read through path())
    want = {TOT}
    slice_ = []
    changed = True
    while changed:
        changed = False
        for st in assigns:
            if any(st is s_ for s_ in slice_):
                continue
            if not (record_display(st) or any(
                    key_of(y) in want for t in targets(st)
                    for y in ([t] if not isinstance(t, (ast.Tuple, ast.List))
                              else ast.walk(t))
                    if isinstance(y, (ast.Name, ast.Subscript)))):
                continue
            slice_.append(st)
            changed = True
            vs = [st.value]
            if record_display(st):
                vs = [v_ for k_, v_ in zip(st.value.keys, st.value.values)
                      if k_ is None or const(k_) == 'area']
            bases = {id(x.value) for v_ in vs for x in ast.walk(v_)
                     if isinstance(x, ast.Subscript)}
            for v_ in vs:
                for y in ast.walk(v_):
                    if isinstance(y, ast.Name) and id(y) not in bases and \
                            y.id not in params and y.id not in loopvars \
                            and name_defs(y.id):
                        want.add(y.id)
    sl = set(map(id, slice_))

    def holds(st):
        return any(id(x) in sl for x in ast.walk(st))

    def execute(st, env):
        if isinstance(st, ast.Assign):
            if len(st.targets) != 1:
                raise Undecided(st, 'chained assignment')
            t = st.targets[0]
            if isinstance(t, ast.Tuple) and isinstance(
                    st.value, ast.Tuple) and len(t.elts) == len(
                    st.value.elts) and all(isinstance(x, ast.Name)
                                           for x in t.elts):
                vals = [conv(v_, env) for v_ in st.value.elts]
                for x, v_ in zip(t.elts, vals):
                    state[x.id] = v_
                return
            if isinstance(t, (ast.Name, ast.Subscript)) and path(t) == BN:
                for k in [k for k in state if k.startswith(BN + '[')]:
                    del state[k]
                if isinstance(st.value, ast.Dict):
                    for k_, v_ in zip(st.value.keys, st.value.values):
                        if k_ is None or not isinstance(const(k_), str):
                            raise Undecided(st, 'record display')
                        if const(k_) == 'area':
                            state[TOT] = conv(v_, env)
                return
            k = key_of(t)
            if k is None:
                raise Undecided(st, 'store not modelled')
            state[k] = conv(st.value, env)
            return
        k = key_of(st.target)
        if k is None:
            raise Undecided(st, 'store not modelled')
        cur = state.get(k)
        if cur is None:
            cur = Rat.sym('<%s>' % k)
        v = conv(st.value, env)
        if isinstance(st.op, ast.Add):
            state[k] = cur + v
        elif isinstance(st.op, ast.Sub):
            state[k] = cur - v
        elif isinstance(st.op, ast.Mult):
            state[k] = cur * v
        elif isinstance(st.op, ast.Div) and not v.is_zero():
            state[k] = cur / v
        else:
            raise Undecided(st, 'operator not modelled')

    def block(stmts, env):
        for st in stmts:
            if id(st) in sl:
                execute(st, env)
            elif not holds(st):
                continue
            elif isinstance(st, ast.For) and not st.orelse and not any(
                    isinstance(x, (ast.Break, ast.Continue, ast.Return))
                    for x in ast.walk(st)):
                its = items(st.iter, env)
                if its is None:
                    raise Undecided(st, 'the number of passes of `for %s in '
                                    '%s` is not a known constant'
                                    % (txt(st.target), txt(st.iter)))
                for v in its:
                    e2 = dict(env)
                    if not bind(st.target, v, e2):
                        raise Undecided(st, 'loop target')
                    block(st.body, e2)
            else:
                raise Undecided(st, 'defined under `%s`' % txt(st)[:60])

    try:
        block(fn.body, {})
    except Undecided as u:
        fail(u.node, u.why)
        return
    got = state.get(TOT)
    exp = Rat.const(0)
    for k in range(3):
        exp = exp + Rat.sym('A%d' % k) * Rat.sym('N%d' % k)
    if got is None or not got.equals(exp):
        fail(max(slice_, key=lambda s_: s_.lineno) if slice_ else fn,
             'found %s = %r with A_k = %s[k], N_k = n_sc[k]'
             % ("%s['area']" % bn, None if got is None else (
                 got.n if got.d == Poly.const(1) else got),
                "%s['area']" % sc))
        return
    # the elements read are the published ones: no store into the area array
    # behind a read of that element
    late = None
    for st in assigns:
        for t in targets(st):
            if not isinstance(t, (ast.Subscript, ast.Name)):
                continue
            if path(t) == AREA:
                k = None
                if forwards(st, AREA):
                    continue
            elif isinstance(t, ast.Subscript) and path(t.value) == AREA:
                k = const(t.slice)
                if not isinstance(k, int) or isinstance(k, bool):
                    k = None
            else:
                continue
            if late is None and any(
                    ln < st.lineno and (rk is None or k is None or rk == k)
                    for rk, ln in reads):
                late = st
    ctx.require(late is None, 'C12.R4', cg, late if late is not None else fn,
                'bundle flow area must be the sum over the three coolant '
                'subchannel types of N_i * A_i (the area array is stored '
                'into after the sum has read it)',
                key=cg.full + ' | A = sum NA')


def r4(ctx):
    repo = ctx.repo
    sym = {}
    conv = _frac_pow_hook(sym)
    # (0) the bundle flow area is by definition the sum of N_i A_i
    cg = repo.func('region_rodded', 'calculate_geometry')
    _r4_bundle_area(ctx, cg)
    # (1) constant laminar / turbulent splits
    fi = repo.func('correlations.flowsplit_ctd', '_calc_constant_flowsplits')
    at = {"asm_obj.bundle_params['area']": 'A'}
    for i in range(3):
        at["const['na'][%d]" % i] = 'na%d' % i
    at["const['xr'][k][0]"] = 'r0'
    at["const['xr'][k][1]"] = 'r1'
    lp = [l for l in walk_no_nested(fi.node) if isinstance(l, ast.For)]
    if len(lp) != 1 or U.literal_list(lp[0].iter) != ['laminar', 'turbulent']:
        raise AnalysisError('_calc_constant_flowsplits: regime loop')
    vals = {}
    for st in lp[0].body:
        if isinstance(st, ast.Assign):
            b = match('fs[k][Q_i]', st.targets[0])
            if b is not None:
                env_at = dict(at)
                for j, v in vals.items():
                    env_at['fs[k][%d]' % j] = '_x%d' % j
                e = conv(st.value, env_at, {})
                for j, v in vals.items():
                    if '_x%d' % j in e.n.symbols() | e.d.symbols():
                        e = e._subs_rat('_x%d' % j, v)
                vals[const(b['Q_i'])] = e
    if sorted(vals) != [0, 1, 2]:
        raise AnalysisError('_calc_constant_flowsplits: fs[k][0..2]')
    nas = [Rat.sym('na%d' % i) for i in range(3)]
    A = Rat.sym('A')
    _check_norm(ctx, fi, [vals[0], vals[1], vals[2]], nas, A,
                'constant laminar/turbulent split')
    # (2) transition iteration update
    it = repo.func('correlations.flowsplit_ctd', '_iterate')
    at = {'s[0]': 's0', 's[1]': 's1', 's[2]': 's2', 'x1x2': 'p', 'x3x2': 'q'}
    upd = {}
    for st in ast.walk(it.node):
        if isinstance(st, ast.Assign) and src(st.targets[0]) in (
                'x1_new', 'x2_new', 'x3_new'):
            env = {k: v for k, v in upd.items()}
            upd[src(st.targets[0])] = conv(st.value, at, env)
    if sorted(upd) != ['x1_new', 'x2_new', 'x3_new']:
        raise AnalysisError('_iterate: update statements')
    tot = Rat.sym('s0') * upd['x1_new'] + Rat.sym('s1') * upd['x2_new'] + \
        Rat.sym('s2') * upd['x3_new']
    ctx.require(tot.equals(Rat.const(1)), 'C12.R4', it, it.node,
                'transition iteration: sum_i s_i x_i must equal 1 after every '
                'update', key=it.full + ' | mass conservation iteration')
    # the returned triple is the updated one, in subchannel-type order
    # (decided on the value: the returned expression, expanded at the return
    # statement down to the ratios x1x2 / x3x2, equals the three updates)
    rets = [r for r in ast.walk(it.node) if isinstance(r, ast.Return)]
    ret_ok = len(rets) == 1 and rets[0].value is not None
    if ret_ok:
        rv = U.value_at(it.node, rets[0].value, rets[0].lineno,
                        keep=tuple(it.params) + ('x1x2', 'x3x2'))
        ret_ok = isinstance(rv, ast.Tuple) and len(rv.elts) == 3
        if ret_ok:
            try:
                ret_ok = all(conv(e_, at, {}).equals(upd[k_]) for e_, k_ in
                             zip(rv.elts, ('x1_new', 'x2_new', 'x3_new')))
            except NotPolynomial:
                ret_ok = False
    ctx.require(ret_ok, 'C12.R4', it,
                rets[0] if rets else it.node,
                'iteration returns (interior, edge, corner) of the last '
                'update', key=it.full + ' | return order')
    # s = na / A at both call sites
    for q in ('_calc_transition_flowsplit',
              '_calc_bundle_plus_grid_flow_split'):
        f = repo.func('correlations.flowsplit_ctd', q)
        obj = f.params[0]
        sd = U.single_def(f.node, 's')
        ctx.require(sd is not None and ' '.join(src(sd).split()) ==
                    "[na_x / %s.bundle_params['area'] for na_x in na]" % obj,
                    'C12.R4', f, sd if sd is not None else f.node,
                    'area fractions s_i = N_i A_i / A_b',
                    key=f.full + ' | area fractions')
    # (3) approximate transition split
    ap = repo.func('correlations.flowsplit_ctd',
                   '_calc_transition_flowsplit_APPROX')
    at = {"asm_obj.bundle_params['area']": 'A', 'x1x2': 'p', 'x3x2': 'q',
          'na[0]': 'na0', 'na[1]': 'na1', 'na[2]': 'na2'}
    vals = {}
    for st in ap.node.body:
        if isinstance(st, ast.Assign):
            b = match('flow_split[Q_i]', st.targets[0])
            if b is not None:
                env_at = dict(at)
                for j in vals:
                    env_at['flow_split[%d]' % j] = '_x%d' % j
                e = conv(st.value, env_at, {})
                for j, v in vals.items():
                    if '_x%d' % j in e.n.symbols() | e.d.symbols():
                        e = e._subs_rat('_x%d' % j, v)
                vals[const(b['Q_i'])] = e
    if sorted(vals) != [0, 1, 2]:
        raise AnalysisError('_APPROX: flow_split[0..2]')
    _check_norm(ctx, ap, [vals[0], vals[1], vals[2]], nas, A,
                'approximate transition split')
    # (4) geometric splits: Novendstern, MIT, SE2
    for modn in ('flowsplit_nov', 'flowsplit_mit', 'flowsplit_se2'):
        f = repo.func('correlations.' + modn, 'calculate_flow_split')
        obj = f.params[0]
        at = {"%s.bundle_params['area']" % obj: 'A'}
        env = {}
        body = [s for s in f.node.body if isinstance(s, ast.Assign)]
        okconv = True
        for st in body:
            if len(st.targets) == 1 and isinstance(st.targets[0], ast.Name):
                nm = st.targets[0].id
                s_ = ' '.join(src(st.value).split())
                hit = [k for k in _area_atoms(obj) if k == s_]
                if hit and nm.startswith('na'):
                    env[nm] = Rat.sym(_area_atoms(obj)[hit[0]])
                    continue
                try:
                    env[nm] = conv(st.value, at, env)
                except NotPolynomial:
                    env.pop(nm, None)
        rets = [r for r in walk_no_nested(f.node) if isinstance(r, ast.Return)
                and isinstance(r.value, ast.Call)
                and call_name(r.value) == 'np.array']
        if len(rets) != 1:
            raise AnalysisError('%s.calculate_flow_split: return np.array'
                                % modn)
        elts = rets[0].value.args[0].elts
        try:
            xs = [conv(e, at, env) for e in elts]
        except NotPolynomial as e:
            raise AnalysisError('%s: split %s not algebraic' % (modn, e))
        # positive power symbols obey pow(a,c)*pow(b,c) etc. only through
        # the quotient rule applied above; relate pow(de_i/de_j) chains:
        # pow symbols are per base expression, so the identity must already
        # hold with independent symbols u_i = pow(de_i, c)
        _check_norm(ctx, f, xs, nas, A, modn + ' split')
    ctx.extra['positive_power_symbols'] = sorted(sym)


def r5(ctx):
    it = ctx.repo.func('correlations.flowsplit_ctd', '_iterate')
    loops = [l for l in walk_no_nested(it.node) if isinstance(l, (ast.For,
                                                                  ast.While))]
    ok = len(loops) == 1 and isinstance(loops[0], ast.For) and \
        isinstance(loops[0].iter, ast.Call) and \
        call_name(loops[0].iter) == 'range' and \
        isinstance(const(loops[0].iter.args[0]), int)
    tail = it.node.body[-1]
    ok = ok and isinstance(tail, ast.Raise) and 'StopIteration' in src(tail)
    ctx.require(ok, 'C12.R5', it, loops[0] if loops else it.node,
                'the successive-approximation loop is a bounded range loop '
                'that ends in return or raise StopIteration',
                key=it.full + ' | bounded')
    # callers: transition split catches it; grid split does not (advisory)
    for q in ('_calc_transition_flowsplit',
              '_calc_bundle_plus_grid_flow_split'):
        f = ctx.repo.func('correlations.flowsplit_ctd', q)
        calls = U.attr_calls(f.node, '_iterate')
        for c in calls:
            caught = _caught_types(c, f.node)
            if 'StopIteration' in caught or caught & CATCH_ALL:
                ctx.ok('C12.R5', f, c, 'StopIteration handled')
            else:
                ctx.advisory('C12.R5', f, c, 'non-convergence of the '
                             'iteration (StopIteration) is not handled here')


# ---------------------------------------------------------------------------
# R6: one transition law per correlation family

def _lambda_params(repo):
    """{module.func: parameter name} of package functions that accept a
    transition exponent and forward it (parameter named _lambda / lam)."""
    out = {}
    for fi in repo.all_funcs():
        for p in fi.params:
            if p in ('_lambda', 'lam'):
                out[(fi.mod.name, fi.name)] = p
    return out


def _blend_exponent(mod):
    """Exponent E of a factor (1 - x**E) with E > 1 in a friction module's
    transition blend, or None."""
    found = set()
    for fi in mod.funcs.values():
        for n in ast.walk(fi.node):
            if isinstance(n, ast.BinOp) and isinstance(n.op, ast.Sub) and \
                    const(n.left) == 1 and isinstance(n.right, ast.BinOp) \
                    and isinstance(n.right.op, ast.Pow):
                e = const(n.right.right)
                if isinstance(e, (int, float)) and e > 1:
                    found.add(float(e))
    if len(found) > 1:
        raise AnalysisError('%s: several blend exponents %s' % (mod.name,
                                                                found))
    return found.pop() if found else None


def r6(ctx, slots):
    repo = ctx.repo
    lam = _lambda_params(repo)
    if not lam:
        raise AnalysisError('no function takes a transition exponent any '
                            'more: revisit C12.R6')
    seen = 0
    for occ in slots['fs'][1]:
        m = occ.module
        sites = []
        for fi in m.funcs.values():
            for c in walk_no_nested(fi.node):
                if not isinstance(c, ast.Call):
                    continue
                nm = (call_name(c) or '').split('.')[-1]
                tgt = [k for k in lam if k[1] == nm]
                if not tgt or fi.name == nm:
                    continue
                pname = lam[tgt[0]]
                v = None
                for k in c.keywords:
                    if k.arg == pname:
                        v = k.value
                # positional
                callee = repo.modules[tgt[0][0]].funcs[tgt[0][1]]
                if v is None and pname in callee.params:
                    i = callee.params.index(pname)
                    if i < len(c.args):
                        v = c.args[i]
                if v is not None and isinstance(v, ast.Name) and \
                        v.id in fi.params:
                    continue      # forwards its own parameter
                val = None if v is None else const(v)
                sites.append((fi, c, None if val is None else float(val)))
        if not sites:
            continue
        seen += 1
        vals = {v for _, _, v in sites}
        ctx.require(len(vals) == 1, 'C12.R6', sites[0][0], sites[0][1],
                    'flow-split module %s passes different transition '
                    'exponents to the shared workers (%s): the split with '
                    'spacer grids and the split without follow different '
                    'friction laws' % (m.name, sorted(
                        '%s -> %s' % (src(c.func).split('.')[-1], v)
                        for _, c, v in sites)),
                    note='%d call sites, exponent %s' % (len(sites),
                                                         sorted(vals, key=str)),
                    key='%s | one transition exponent' % m.name)
        # sibling friction module of the same family
        fam = m.name.rsplit('_', 1)[-1]
        fr = repo.modules.get('dassh.correlations.friction_' + fam)
        if fr is None:
            continue
        e = _blend_exponent(fr)
        ctx.require(vals == {e}, 'C12.R6', sites[0][0], sites[0][1],
                    'flow-split module %s uses transition exponent %s but '
                    'the friction module %s blends with %s' % (
                        m.name, sorted(vals, key=str), fr.name, e),
                    key='%s | exponent matches friction law' % m.name)
    if seen < 2:
        raise AnalysisError('C12.R6: fewer than two flow-split modules call '
                            'the shared workers (%d)' % seen)


# ---------------------------------------------------------------------------
# R7: regime pairing

def _regime_tags(e):
    """Set of regime tags carried by the constants an expression reads."""
    tags = set()
    for n in ast.walk(e):
        if isinstance(n, ast.Subscript):
            c = const(n.slice)
            if c == 'laminar':
                tags.add('L')
            elif c == 'turbulent':
                tags.add('T')
            elif isinstance(c, int) and isinstance(n.value, ast.Subscript) \
                    and const(n.value.slice) == 'Re_bnds' and c in (0, 1):
                tags.add('LT'[c])
    return tags


def r7(ctx):
    repo = ctx.repo
    it = repo.func('correlations.flowsplit_ctd', '_iterate')
    regime = {}
    for i, p_ in enumerate(it.params):
        m_ = re.match(r'.*_i([LT])$', p_)
        if m_:
            regime[p_] = (i, m_.group(1))
    if len(regime) < 4:
        raise AnalysisError('_iterate: regime parameters %s' % sorted(regime))
    n = 0
    for fi in repo.all_funcs():
        if not fi.mod.name.startswith('dassh.correlations'):
            continue
        for c in walk_no_nested(fi.node):
            if not (isinstance(c, ast.Call) and
                    (call_name(c) or '').split('.')[-1] == '_iterate'):
                continue
            for p_, (i, rg) in sorted(regime.items()):
                arg = None
                if i < len(c.args):
                    arg = c.args[i]
                for k in c.keywords:
                    if k.arg == p_:
                        arg = k.value
                if arg is None:
                    ctx.violation('C12.R7', fi, c, 'regime parameter %s of '
                                  '_iterate is not supplied' % p_,
                                  key='%s | %s missing' % (fi.full, p_))
                    continue
                e = U.expand_locals(fi.node, arg, before=c.lineno, depth=4)
                tags = _regime_tags(e)
                n += 1
                ctx.require(
                    tags == {rg}, 'C12.R7', fi, arg,
                    'argument for the %s-regime parameter %s of the '
                    'transition iteration reads constants tagged %s (%s): '
                    'laminar and turbulent quantities are mixed'
                    % ({'L': 'laminar', 'T': 'turbulent'}[rg], p_,
                       sorted(tags) or 'with no regime',
                       ' '.join(src(e).split())[:120]),
                    key='%s | regime of %s' % (fi.full, p_))
    if n < 8:
        raise AnalysisError('C12.R7: fewer regime arguments than expected '
                            '(%d)' % n)


def r8(ctx):
    """The equations the flow-split iteration solves: per subchannel type the
    loss coefficient is f_i L / De_i + K_i (friction over the subchannel's
    own hydraulic diameter plus grid loss), the type Reynolds number is
    Re x_i De_i / De_b, equal pressure drop gives x_i / x_2 =
    sqrt(t_2 / t_i) and mass conservation x_2 = 1 / sum s_i x_i/x_2."""
    it = ctx.repo.func('correlations.flowsplit_ctd', '_iterate')
    P = it.params
    Re, s_, De_i, De_b = P[0], P[1], P[2], P[3]
    loops = [n for n in it.node.body if isinstance(n, ast.For)]
    if len(loops) != 1:
        raise AnalysisError('_iterate: iteration loop')
    lp = loops[0]

    def local_def(name):
        d = [a for a in ast.walk(lp) if isinstance(a, ast.Assign)
             and len(a.targets) == 1 and isinstance(a.targets[0], ast.Name)
             and a.targets[0].id == name]
        return d[0] if len(d) == 1 else None
    keep = tuple(P) + ('ff', 'x1', 'x2', 'x3', 't', 'x1x2', 'x3x2', 'x2_new')
    atoms = {'ff': 'f', 'GLC_i': 'K', 'L': 'L', De_i: 'Dei', De_b: 'Deb',
             Re: 'Re', 'np.array([x1, x2, x3])': 'x'}
    want = {
        't': Rat.sym('f') * Rat.sym('L') / Rat.sym('Dei') + Rat.sym('K'),
        'Re_i': Rat.sym('Re') * Rat.sym('x') * Rat.sym('Dei') / Rat.sym('Deb'),
    }
    for name, w in want.items():
        a = local_def(name)
        ok = a is not None
        got = None
        if ok:
            e = U.value_at(it.node, a.value, a.lineno, keep=keep)
            try:
                got = from_ast(e, atoms, auto=True)
                ok = got.equals(w)
            except NotPolynomial:
                ok = False
        ctx.require(ok, 'C12.R8', it, a if a is not None else lp,
                    'flow-split iteration: %s must be %s%s'
                    % (name, {'t': 'f_i L / De_i + K_i (loss coefficient of '
                              'subchannel type i)',
                              'Re_i': 'Re x_i De_i / De_b'}[name],
                       '; got %r / %r' % (got.n, got.d)
                       if got is not None and not ok else ''),
                    key='%s | %s' % (it.full, name))
    pats = [('x1x2', 'x1x2 = np.sqrt(t[1] / t[0])'),
            ('x3x2', 'x3x2 = np.sqrt(t[1] / t[2])'),
            ('x2_new', 'x2_new = 1 / (%s[1] + %s[0] * x1x2 + %s[2] * x3x2)'
             % (s_, s_, s_)),
            ('x1_new', 'x1_new = x1x2 * x2_new'),
            ('x3_new', 'x3_new = x3x2 * x2_new')]
    for name, pat in pats:
        h = find_all(pat, lp, 'stmt')
        ctx.require(len(h) == 1, 'C12.R8', it, h[0][0] if h else lp,
                    'flow-split iteration: expected `%s` (equal pressure '
                    'drop / mass conservation)' % pat,
                    key='%s | %s' % (it.full, name))
