"""C06 -- assemblies interact only through duct-wall heat transfer:
clone ownership (K6) and layering (T2)."""
import ast

from ..core import (AnalysisError, access_path, const, find_all, match, short,
                    src, walk_no_nested, parent, call_name, path_str)
from ..cfg import cfg_of
from .. import util as U
from ..resolve import Resolver

MUTATORS = {'append', 'extend', 'insert', 'pop', 'remove', 'clear', 'update',
            'setdefault', 'sort', 'reverse', 'popitem', 'fill', 'resize'}

# classes cloned with copy.copy(self) and the fields that hold package
# objects (receiver table: field -> class), one line of reason each
CLONED = [('assembly', 'Assembly'), ('region_rodded', 'RoddedRegion'),
          ('region_unrodded', 'SingleNodeHomogeneous'),
          ('region_unrodded', 'MultiNodeHomogeneous'),
          ('region_unrodded', '_RREquivalent'), ('material', 'Material')]
FIELD_CLASS = {
    'coolant': ('material', 'Material'),     # set from mat_dict['coolant']
    'duct': ('material', 'Material'),        # set from mat_dict['duct']
    'pin_model': ('pin_model', 'PinModel'),  # region_rodded.make
    '_rr_equiv': ('region_unrodded', '_RREquivalent'),
    '_coolant_tracker': ('material', '_MatTracker'),
    'subchannel': ('subchannel', 'Subchannel'),
    'power': ('power', 'AssemblyPower'),
}
# per-object entry points executed for every assembly during setup-after-
# cloning and during the sweep
ENTRY = {
    'Assembly': ['calculate', 'update_region', 'step0', 'write',
                 'check_region_update', 'setup_data_io'],
    'RoddedRegion': ['calculate', 'activate', 'calculate_pressure_drop',
                     'calculate_pin_temperatures',
                     '_init_static_correlated_params', '_calc_duct_temp',
                     'calculate_xbnds'],
    'SingleNodeHomogeneous': ['calculate', 'activate',
                              'calculate_pressure_drop',
                              '_init_static_correlated_params',
                              '_calc_duct_temp', 'calculate_xbnds'],
    'MultiNodeHomogeneous': ['calculate', 'activate',
                             'calculate_pressure_drop',
                             '_init_static_correlated_params',
                             '_calc_duct_temp', 'calculate_xbnds'],
    '_RREquivalent': ['_update_coolant_int_params',
                      '_init_static_correlated_params'],
    'Material': ['update'],
}
# assignments other code makes on a freshly cloned object (caller-side
# ownership): function -> receiver variable names
CALLER_REBINDS = [
    ('assembly', 'Assembly.clone', ('tmp_region',),
     ('RoddedRegion', 'SingleNodeHomogeneous', 'MultiNodeHomogeneous')),
    ('assembly', 'Assembly.clone', ('clone',), ('Assembly',)),
    ('reactor', 'Reactor._setup_asm', ('asm',), ('Assembly',)),
    ('reactor', 'Reactor._setup_gap_mesh_params', ('reg',),
     ('RoddedRegion', 'SingleNodeHomogeneous', 'MultiNodeHomogeneous')),
    ('reactor', 'Reactor._setup_asm_axial_mesh_req', ('reg',),
     ('RoddedRegion', 'SingleNodeHomogeneous', 'MultiNodeHomogeneous')),
]
# methods that re-create an attribute before (dominating) their own stores
# into it, called once per object after cloning
SELF_REBINDERS = {'Assembly': ['setup_data_io']}


def run(ctx):
    ctx.decided += [
        'R1 clone ownership: for every class cloned with copy.copy, each '
        'attribute through which per-object code (sweep and post-clone '
        'setup) mutates an object is given a fresh object on the clone (in '
        'clone(), in a method clone() calls on the copy, or by the caller), '
        'or every read of the shared object is dominated in the same function '
        'by an update on the same receiver (update-before-use)',
        'R2 layering: assembly / region / pin / material code never reaches a '
        'Reactor, the assembly list or another assembly; no function writes '
        'module-level state after import',
        'R3 per-assembly loops of the model set-up and of the sweep carry no '
        'decision from one assembly to the next: a local that is re-bound '
        '(not accumulated) inside the loop body is never read in the body '
        'before it is definitely bound in the same iteration',
        'R4 helpers that borrow a template\'s Material (Q_equals_mCdT) hand '
        'it back at the inlet temperature on every path, so that clones do '
        'not inherit a state depending on another assembly\'s boundary '
        'condition (rule shared with C16.R1)']
    ctx.not_decided += ['numerical identity with the stand-alone run']
    res = Resolver(ctx.repo)
    r1(ctx, res)
    r2(ctx)
    r3(ctx)
    ctx.min_instances('C06.R3', 8)
    # the flow-rate estimate borrows the type template's coolant before the
    # clones are made: what it leaves behind is inherited by every assembly
    # of the type (rule shared with C16.R1)
    from . import c16
    c16.restore_rule(ctx, 'C06.R4')
    ctx.min_instances('C06.R4', 1)
    ctx.min_instances('C06.R1', 25)
    ctx.min_instances('C06.R2', 100)


# ---------------------------------------------------------------------------

def _methods_closure(repo, ci, entry):
    """Methods reachable through self.m() / self.<property> from the entry
    points, over the MRO of ci (overrides in ci win)."""
    seen, work = {}, list(entry)
    while work:
        nm = work.pop()
        if nm in seen:
            continue
        m = repo.lookup_method(ci, nm)
        if m is None:
            continue
        seen[nm] = m
        for n in walk_no_nested(m.node):
            if isinstance(n, ast.Attribute) and isinstance(
                    n.value, ast.Name) and n.value.id == 'self':
                t = repo.lookup_method(ci, n.attr)
                if t is not None and n.attr not in seen:
                    work.append(n.attr)
    return seen


def _self_attr(node):
    """'x' for self.x[...]...; None otherwise."""
    ap = access_path(node)
    if ap is not None and len(ap) >= 2 and ap[0] == 'self':
        return ap[1], ap
    return None, None


def _scalar_attr(repo, ci, attr):
    """Every definition `self.attr = v` in the class hierarchy is numeric
    scalar arithmetic (then `self.attr += x` re-binds, it does not mutate)."""
    defs = []
    for c in repo.mro(ci):
        for m in c.methods.values():
            for t, st in U.stores(m.node):
                if isinstance(st, ast.Assign) and isinstance(
                        t, ast.Attribute) and src(t) == 'self.' + attr:
                    defs.append(st.value)
    if not defs:
        return False
    for d in defs:
        c = const(d, '__no__')
        if isinstance(c, (int, float)) and not isinstance(c, bool):
            continue
        if isinstance(d, ast.Name):      # a parameter / local number
            continue
        if isinstance(d, ast.BinOp):
            continue
        return False
    return True


def _class_mutators(repo, ci, memo):
    """Names of methods of ci (MRO) that assign or mutate self state,
    transitively through self-calls."""
    if ci.full in memo:
        return memo[ci.full]
    memo[ci.full] = set()
    direct = {}
    calls = {}
    for c in repo.mro(ci):
        for nm, m in c.methods.items():
            if nm in direct:
                continue
            d = False
            for t, st in U.stores(m.node):
                a, ap = _self_attr(t)
                if a is not None:
                    d = True
            for n in walk_no_nested(m.node):
                if isinstance(n, ast.Call) and call_name(n) == 'setattr' and \
                        n.args and src(n.args[0]) == 'self':
                    d = True
                if isinstance(n, ast.Call) and isinstance(
                        n.func, ast.Attribute) and n.func.attr in MUTATORS:
                    a, ap = _self_attr(n.func.value)
                    if a is not None:
                        d = True
            direct[nm] = d
            calls[nm] = {n.attr for n in walk_no_nested(m.node)
                         if isinstance(n, ast.Attribute) and isinstance(
                             n.value, ast.Name) and n.value.id == 'self'}
    mut = {nm for nm, d in direct.items() if d and nm != '__init__'}
    changed = True
    while changed:
        changed = False
        for nm in direct:
            if nm not in mut and nm != '__init__' and calls[nm] & mut:
                mut.add(nm)
                changed = True
    memo[ci.full] = mut
    return mut


# id(node of a mutation) -> how many container levels below the attribute
# the modified object lies (1 = the attribute's own object)
DEPTH = {}


def _scalar_elem(repo, ci, attr, subs):
    """Every definition of self.attr[<subs>] in the class hierarchy (keyed
    store or entry of a dict display bound to the attribute) is a numeric
    scalar: `self.attr[k] += x` then re-binds the slot, it does not modify an
    object shared through a shallow copy."""
    if len(subs) != 1:
        return False
    key = subs[0]
    defs = []
    for c in repo.mro(ci):
        for m in c.methods.values():
            for t, st in U.stores(m.node):
                if not isinstance(st, ast.Assign):
                    continue
                ap = access_path(t)
                if ap is None or ap[0] != 'self' or len(ap) < 2 or \
                        ap[1] != attr:
                    continue
                anykey = not (key.startswith("'") or key.startswith('"'))
                if len(ap) == 3 and (ap[2] == key or anykey):
                    defs.append(st.value)
                elif len(ap) == 2 and isinstance(st.value, ast.Dict):
                    for k_, v_ in zip(st.value.keys, st.value.values):
                        if k_ is None:
                            return False
                        if anykey or "'%s'" % const(k_) == key.strip('[]'):
                            defs.append(v_)
                elif len(ap) == 2 and not isinstance(st.value, ast.Dict) \
                        and anykey:
                    return False       # bound to something we cannot see into
    if not defs:
        return False
    for d in defs:
        c = const(d, '__no__')
        if isinstance(c, (int, float)) and not isinstance(c, bool):
            continue
        return False
    return True


def _array_elems(repo, ci, attr):
    """Every keyed definition self.attr[k] = v in the class hierarchy binds
    a NumPy array or a number (then `v.copy()` of an element is a complete
    copy)."""
    n = 0
    for c in repo.mro(ci):
        for m in c.methods.values():
            for t, st in U.stores(m.node):
                if not isinstance(st, ast.Assign):
                    continue
                ap = access_path(t)
                if ap is None or ap[0] != 'self' or len(ap) != 3 or \
                        ap[1] != attr:
                    continue
                v = st.value
                c_ = const(v, '__no__')
                if isinstance(c_, (int, float)):
                    n += 1
                    continue
                if isinstance(v, ast.Call) and (call_name(v) or '').startswith(
                        ('np.', 'numpy.')):
                    n += 1
                    continue
                if isinstance(v, ast.BinOp) and any(
                        isinstance(x, ast.Call) and (call_name(x) or ''
                                                     ).startswith('np.')
                        for x in ast.walk(v)):
                    n += 1
                    continue
                return False
    return n > 0


def _fresh_depth(v, array_elems=False):
    """Number of container levels of the value that are new objects (99 =
    all of them).  0 = the original's own object."""
    if not _is_fresh(v):
        return 0

    def elem(e, loopvars):
        # depth of an element expression inside a display / comprehension
        if isinstance(e, ast.Name):
            return 0 if e.id in loopvars else 99
        if isinstance(e, (ast.Attribute, ast.Subscript)):
            r = e
            while isinstance(r, (ast.Attribute, ast.Subscript)):
                r = r.value
            if isinstance(r, ast.Name) and (r.id == 'self'
                                            or r.id in loopvars):
                return 0
            return 99
        if isinstance(e, ast.Call):
            nm = call_name(e) or ''
            if nm in ('copy.deepcopy', 'deepcopy'):
                return 99
            if isinstance(e.func, ast.Attribute) and e.func.attr == 'copy' \
                    and not e.args and array_elems:
                return 99      # ndarray.copy(): a complete copy
            if nm in ('copy.copy', 'dict', 'list') or (
                    isinstance(e.func, ast.Attribute)
                    and e.func.attr == 'copy' and not e.args):
                return 1
            return 99
        if isinstance(e, (ast.Dict, ast.List, ast.Tuple, ast.DictComp,
                          ast.ListComp)):
            return depth(e, loopvars)
        return 99

    def depth(x, loopvars=frozenset()):
        if isinstance(x, ast.Call):
            nm = call_name(x) or ''
            if nm in ('copy.deepcopy', 'deepcopy'):
                return 99
            if nm in ('dict', 'list', 'copy.copy') and x.args:
                return 1
            if isinstance(x.func, ast.Attribute) and x.func.attr == 'copy' \
                    and not x.args and src(x.func.value).startswith('self.'):
                return 1
            return 99
        if isinstance(x, (ast.DictComp, ast.ListComp)):
            lv = set(loopvars)
            own = False
            for g in x.generators:
                if any(isinstance(n, ast.Name) and n.id == 'self'
                       for n in ast.walk(g.iter)):
                    own = True
                    lv |= {n.id for n in ast.walk(g.target)
                           if isinstance(n, ast.Name)}
            if not own:
                return 99
            val = x.value if isinstance(x, ast.DictComp) else x.elt
            return min(99, 1 + elem(val, lv))
        if isinstance(x, ast.Dict):
            return min([99] + [1 + elem(v_, loopvars) for v_ in x.values])
        if isinstance(x, (ast.List, ast.Tuple)):
            return min([99] + [1 + elem(v_, loopvars) for v_ in x.elts])
        return 99
    return depth(v)


def _mutations(repo, ci, methods, memo):
    """{attr: [(method, node, how)]} mutated by the given methods of ci."""
    out = {}

    def add(a, m, n, how):
        out.setdefault(a, []).append((m, n, how))
    for nm, m in methods.items():
        for t, st in U.stores(m.node):
            a, ap = _self_attr(t)
            if a is None:
                continue
            if len(ap) > 2:                      # self.a[...] = / op=
                add(a, m, st, 'stores into its content')
                d = len(ap) - 2
                if isinstance(st, ast.AugAssign) and not getattr(
                        st, '_was_assign', False) and not _scalar_elem(
                            repo, ci, a, ap[2:]):
                    d += 1       # in-place update of the element itself
                DEPTH[id(st)] = d
            elif isinstance(st, ast.AugAssign):  # self.a op= v
                if not _scalar_attr(repo, ci, a):
                    add(a, m, st, 'in-place update')
                    DEPTH[id(st)] = 1
        for n in walk_no_nested(m.node):
            if not (isinstance(n, ast.Call) and isinstance(n.func,
                                                           ast.Attribute)):
                continue
            a, ap = _self_attr(n.func.value)
            if a is None:
                continue
            meth = n.func.attr
            if len(ap) >= 2 and meth in MUTATORS and not (
                    a in FIELD_CLASS and len(ap) == 2):
                add(a, m, n, 'calls .%s() on it' % meth)
                DEPTH[id(n)] = len(ap) - 1
            if len(ap) == 2 and a in FIELD_CLASS:
                fc = repo.cls(*FIELD_CLASS[a])
                if meth in _class_mutators(repo, fc, memo):
                    add(a, m, n, 'calls the state-changing method %s.%s()'
                        % (fc.name, meth))
    return out


def _rebound_in_clone(repo, ci):
    """Attributes given a fresh object on the copy by clone() itself."""
    cl = ci.methods.get('clone') or repo.lookup_method(ci, 'clone')
    if cl is None:
        return None, set(), {}
    reb = {}
    cname = None
    for st in walk_no_nested(cl.node):
        if isinstance(st, ast.Assign) and isinstance(st.value, ast.Call) and \
                call_name(st.value) == 'copy.copy' and \
                src(st.value.args[0]) == 'self' and \
                isinstance(st.targets[0], ast.Name):
            cname = st.targets[0].id
    if cname is None:
        raise AnalysisError('%s.clone no longer uses copy.copy(self)'
                            % ci.name)
    for t, st in U.stores(cl.node):
        if isinstance(t, ast.Attribute) and src(t.value) == cname and \
                isinstance(st, ast.Assign):
            fresh = _is_fresh(st.value)
            reb[t.attr] = (st, fresh)
    # setattr(clone, attr, copy.deepcopy(...)) loop idiom
    for n in walk_no_nested(cl.node):
        if isinstance(n, ast.Call) and call_name(n) == 'setattr' and \
                len(n.args) == 3 and src(n.args[0]) == cname:
            lp = U.enclosing_loops(n)
            names = U.literal_list(lp[0].iter) if lp else None
            if names and isinstance(n.args[1], ast.Name) and \
                    src(lp[0].target) == n.args[1].id:
                for a in names:
                    reb[a] = (n, _is_fresh(n.args[2]))
        # getattr(clone, attr)['grid'] = deepcopy(...) : partial
    # methods called on the copy re-create whatever they assign
    called = {}
    for n in walk_no_nested(cl.node):
        if isinstance(n, ast.Call) and isinstance(n.func, ast.Attribute) and \
                src(n.func.value) == cname:
            m = repo.lookup_method(ci, n.func.attr)
            if m is not None:
                cond = bool(U.guards(n))
                state_dep = {}
                for t, st in U.stores(m.node):
                    if isinstance(t, ast.Attribute) and \
                            src(t.value) == 'self' and isinstance(
                                st, ast.Assign):
                        # a store that happens only if the attribute is
                        # missing / empty on the object does not happen on a
                        # copy: it does not give the copy a fresh object
                        g_ = [(tst, pol) for tst, pol in U.guards(st)
                              if _mentions_attr(tst, t.attr)]
                        if g_:
                            state_dep.setdefault(t.attr, set()).add(
                                (id(g_[0][0]), bool(g_[0][1])))
                            continue
                        # tuple targets: self.a, self.b, self.c = f(...)
                        called.setdefault(t.attr, (n, cond))
                for a_, pols in state_dep.items():
                    tests = {}
                    for tid, pol in pols:
                        tests.setdefault(tid, set()).add(pol)
                    if any(v == {True, False} for v in tests.values()):
                        called.setdefault(a_, (n, cond))
                for st in walk_no_nested(m.node):
                    if isinstance(st, ast.Assign):
                        for tg in st.targets:
                            if isinstance(tg, ast.Tuple):
                                for e in tg.elts:
                                    if isinstance(e, ast.Attribute) and \
                                            src(e.value) == 'self':
                                        called.setdefault(e.attr, (n, cond))
    return cl, reb, called


def _mentions_attr(test, attr):
    for x in ast.walk(test):
        if isinstance(x, ast.Attribute) and x.attr == attr and \
                src(x.value) == 'self':
            return True
        if isinstance(x, ast.Call) and call_name(x) in (
                'hasattr', 'getattr') and len(x.args) >= 2 and \
                src(x.args[0]) == 'self' and const(x.args[1]) == attr:
            return True
    return False


def _is_fresh(v):
    """Expression yields an object not shared with the original."""
    if isinstance(v, ast.Call):
        nm = call_name(v) or ''
        if nm == 'getattr' and v.args and src(v.args[0]) == 'self':
            return False       # the original's own object
        if nm in ('copy.copy',) and v.args and src(v.args[0]).startswith(
                'self.'):
            return False       # shallow: content still shared
        if nm in ('copy.deepcopy', 'deepcopy', 'np.zeros', 'np.ones',
                  'np.array', 'dict', 'list', 'np.copy'):
            return True
        if isinstance(v.func, ast.Attribute) and v.func.attr in (
                'clone', 'copy'):
            return True
        return True            # result of a call: a new value
    if isinstance(v, (ast.Dict, ast.List, ast.ListComp, ast.DictComp,
                      ast.Constant, ast.BinOp, ast.Tuple)):
        return True
    if isinstance(v, ast.Name):
        return True            # local / parameter (a number or fresh value)
    if isinstance(v, (ast.Attribute, ast.Subscript)) and \
            src(v).startswith('self.'):
        return False           # the original's own object
    return True


def _caller_rebinds(repo, cls_name):
    out = {}
    for modn, q, recvs, classes in CALLER_REBINDS:
        if cls_name not in classes:
            continue
        fi = repo.func(modn, q)
        for t, st in U.stores(fi.node):
            if isinstance(t, ast.Attribute) and src(t.value) in recvs and \
                    isinstance(st, ast.Assign):
                out[t.attr] = (fi, st, _is_fresh(st.value))
            # tmp_regs[i].pin_temps[:, 0] = ...  (content store, not rebind)
    return out


def _update_before_use(repo, ci, methods, attr, memo):
    """Every read of self.<attr>.<state> in the reachable methods is
    dominated, in the same function, by a state-changing call on
    self.<attr>.  -> list of offending (method, node)"""
    fc = repo.cls(*FIELD_CLASS[attr]) if attr in FIELD_CLASS else None
    if fc is None:
        return None
    muts = _class_mutators(repo, fc, memo)
    bad = []
    for nm, m in methods.items():
        g = None
        reads = [n for n in walk_no_nested(m.node)
                 if isinstance(n, ast.Attribute) and isinstance(
                     n.ctx, ast.Load) and src(n.value) == 'self.' + attr
                 and n.attr not in muts and not n.attr.startswith('__')
                 and not (isinstance(parent(n), ast.Call)
                          and parent(n).func is n)]
        if not reads:
            continue
        g = cfg_of(m)
        ups = g.find(lambda x: isinstance(x, ast.Call) and isinstance(
            x.func, ast.Attribute) and src(x.func.value) == 'self.' + attr
            and x.func.attr in muts)
        # wrappers: self._update_coolant(T) / self._update_duct(T)
        ups += g.find(lambda x: isinstance(x, ast.Call) and call_name(x) in (
            'self._update_%s' % attr,))
        for r in reads:
            rn = g.node_containing(r)
            if rn is None:
                continue
            if not any(g.dominates(u, rn) and u is not rn for u in ups):
                bad.append((m, r))
    return bad


def _inner_discipline(repo, fc):
    """For a shared object of class fc: the only state changes in its
    non-constructor methods are `E.update(...)` calls on sub-objects E, and
    every read `E.<x>` of such an E is dominated by an update on the same E
    in the same function.  -> list of offending nodes, or None if the class
    changes state in any other way."""
    bad = []
    for c in repo.mro(fc):
        for nm, m in c.methods.items():
            if nm in ('__init__', 'clone') or nm.startswith('__'):
                continue
            for t, st in U.stores(m.node):
                a, ap = _self_attr(t)
                if a is not None:
                    return None          # assigns / stores into self state
            ups = {}
            for n in walk_no_nested(m.node):
                if isinstance(n, ast.Call) and isinstance(
                        n.func, ast.Attribute) and n.func.attr in MUTATORS \
                        and src(n.func.value).startswith('self.'):
                    if n.func.attr != 'update':
                        return None
                    ups.setdefault(src(n.func.value), []).append(n)
            if not ups:
                continue
            g = cfg_of(m)
            for E, calls in ups.items():
                cn = [g.node_containing(c_) for c_ in calls]
                for r in walk_no_nested(m.node):
                    if isinstance(r, ast.Attribute) and isinstance(
                            r.ctx, ast.Load) and src(r.value) == E and \
                            r.attr != 'update':
                        rn = g.node_containing(r)
                        if not any(u is not None and (g.dominates(u, rn))
                                   for u in cn):
                            bad.append((m, r))
    return bad


def r1(ctx, res):
    repo = ctx.repo
    memo = {}
    for modn, cname in CLONED:
        ci = repo.cls(modn, cname)
        cl, reb, called = _rebound_in_clone(repo, ci)
        if cl is None:
            raise AnalysisError('%s.clone vanished' % cname)
        methods = _methods_closure(repo, ci, ENTRY.get(cname, []))
        if len(methods) < len([e for e in ENTRY.get(cname, [])
                               if repo.lookup_method(ci, e)]):
            raise AnalysisError('%s: entry points missing' % cname)
        muts = _mutations(repo, ci, methods, memo)
        crb = _caller_rebinds(repo, cname)
        selfreb = set()
        for sm in SELF_REBINDERS.get(cname, []):
            m = repo.lookup_method(ci, sm)
            if m is None:
                continue
            g = cfg_of(m)
            for t, st in U.stores(m.node):
                if isinstance(t, ast.Attribute) and src(t.value) == 'self' \
                        and isinstance(st, ast.Assign) and _is_fresh(st.value):
                    # dominates every other store into that attribute
                    n0 = g.node_of(st)
                    others = [g.node_of(s2) for t2, s2 in U.stores(m.node)
                              if _self_attr(t2)[0] == t.attr and s2 is not st]
                    if all(o is None or g.dominates(n0, o) for o in others):
                        selfreb.add(t.attr)
        ctx.extra.setdefault('ownership', {})[cname] = {
            'reachable_methods': len(methods),
            'mutated_attributes': sorted(muts),
            'rebound_in_clone': sorted(a for a, (s, f) in reb.items() if f),
            'rebound_by_called_methods': sorted(called),
            'rebound_by_callers': sorted(crb),
        }
        for a in sorted(muts):
            m0, n0, how = muts[a][0]
            where = '%s.%s' % (cname, a)
            if a in reb:
                st, fresh = reb[a]
                need = max([DEPTH.get(id(n_), 1) for _, n_, _ in muts[a]])
                val = st.value if isinstance(st, ast.Assign) else (
                    st.args[2] if isinstance(st, ast.Call)
                    and len(st.args) == 3 else None)
                have = _fresh_depth(val, _array_elems(repo, ci, a)) \
                    if val is not None else 99
                if fresh and have < need:
                    deep = [(m_, n_, h_) for m_, n_, h_ in muts[a]
                            if DEPTH.get(id(n_), 1) > have][0]
                    ctx.violation(
                        'C06.R1', cl, st,
                        '%s.clone gives the copy a new %s only %d level(s) '
                        'deep (%s), but %s modifies an object %d levels down '
                        'in place (%s): the clones of a template still share '
                        'that object' % (
                            cname, a, have, ' '.join(src(st).split())[:70],
                            deep[0].qual, DEPTH.get(id(deep[1]), 1),
                            ' '.join(src(deep[1]).split())[:60]),
                        key='%s | clone shares content of %s' % (ci.full, a))
                    continue
                ctx.require(
                    fresh, 'C06.R1', cl, st,
                    '%s.clone binds %s to the original\'s own object (%s), '
                    'but %s %s: all clones of a template share that state'
                    % (cname, a, ' '.join(src(st).split())[:60], m0.qual,
                       how), key='%s | clone shares %s' % (ci.full, a))
                continue
            if a in called and not called[a][1]:
                ctx.ok('C06.R1', cl, called[a][0], '%s re-created by a method '
                       'clone() calls on the copy' % a)
                continue
            if a in crb and crb[a][2]:
                ctx.ok('C06.R1', crb[a][0], crb[a][1], '%s re-bound by the '
                       'caller on the fresh clone' % a)
                continue
            if a in selfreb:
                ctx.ok('C06.R1', m0, n0, '%s re-created per object after '
                       'cloning' % a)
                continue
            if a in called and called[a][1]:
                # conditionally re-created (e.g. only with a new flow rate):
                # fine if nothing mutates it outside setup
                pass
            # shared package object whose only state changes happen inside
            # its own methods under an update-before-use discipline
            if a in FIELD_CLASS and all('state-changing method' in h
                                        for _, _, h in muts[a]):
                inner = _inner_discipline(repo, repo.cls(*FIELD_CLASS[a]))
                if inner is not None and not inner:
                    ctx.ok('C06.R1', m0, n0, '%s is shared; its class only '
                           'changes state through update-before-use on its '
                           'own sub-objects' % a)
                    continue
            # update-before-use discipline for shared package objects
            ubu = _update_before_use(repo, ci, methods, a, memo)
            if ubu is not None and not ubu:
                ctx.ok('C06.R1', m0, n0, '%s is shared but every read is '
                       'dominated by an update on the same receiver' % a)
                continue
            stale = ''
            if ubu:
                stale = '; stale reads (not preceded by an update in the ' \
                    'same function) e.g. %s' % ', '.join(sorted(
                        {'%s: %s' % (m.qual, ' '.join(src(parent(r)).split())
                                     [:50]) for m, r in ubu})[:4])
            ctx.violation(
                'C06.R1', m0, n0,
                'attribute %s is not given a fresh object by %s.clone (nor by '
                'its callers), so every copy made from one template shares '
                'it, yet %s %s (%d mutation sites in per-assembly code)%s: '
                'advancing one assembly changes state seen by the others'
                % (where, cname, m0.qual, how, len(muts[a]), stale),
                key='%s | shared mutable %s' % (ci.full, a))
    ctx.trusted.append('receiver table FIELD_CLASS, entry points ENTRY and '
                       'caller-side rebind sites CALLER_REBINDS in '
                       'dsa/rules/c06.py')


# ---------------------------------------------------------------------------

LOWER = ('dassh.assembly', 'dassh.region', 'dassh.region_rodded',
         'dassh.region_unrodded', 'dassh.pin_model', 'dassh.material',
         'dassh.subchannel', 'dassh.pin')
UPPER_NAMES = {'Reactor', 'reactor', 'r_obj', 'reactor_obj', 'rx',
               'assemblies', 'asm_list', 'core', 'Core'}

POSITIVE = '''
import numpy as np
_cache = {}
def f(x):
    global _n
    _n = 1
    _cache['k'] = x
'''


def _global_writes(m):
    out = []
    gl = set(m.globals)
    for fi in m.funcs.values():
        declared = set()
        for n in walk_no_nested(fi.node):
            if isinstance(n, ast.Global):
                declared |= set(n.names)
        for t, st in U.stores(fi.node):
            if isinstance(t, ast.Name) and t.id in declared:
                out.append((fi, st, 'assigns global %s' % t.id))
            ap = access_path(t)
            if ap is not None and len(ap) > 1 and ap[0] in gl and \
                    not U.assigns_of(fi.node, ap[0]) and \
                    ap[0] not in fi.params and isinstance(
                        m.globals[ap[0]], (ast.Dict, ast.List, ast.Call)):
                out.append((fi, st, 'stores into module-level %s' % ap[0]))
        for n in walk_no_nested(fi.node):
            if isinstance(n, ast.Call) and isinstance(n.func, ast.Attribute) \
                    and n.func.attr in MUTATORS and isinstance(
                        n.func.value, ast.Name) and n.func.value.id in gl \
                    and not U.assigns_of(fi.node, n.func.value.id) and \
                    n.func.value.id not in fi.params and isinstance(
                        m.globals[n.func.value.id], (ast.Dict, ast.List)):
                out.append((fi, n, 'mutates module-level %s'
                            % n.func.value.id))
    return out


def r2(ctx):
    repo = ctx.repo
    from ..core import Module
    pm = Module('dassh._positive', '<positive>', 'dassh/_positive.py',
                POSITIVE)
    if len(_global_writes(pm)) < 2:
        raise AnalysisError('C06.R2 positive example not detected')
    n = 0
    for mn, m in repo.modules.items():
        if mn.startswith(('dassh.plot', 'dassh.py4c')):
            continue
        for fi, node, what in _global_writes(m):
            # logging configuration and the py4c readers are not solver state
            if fi.mod.name == 'dassh.logged_class':
                continue
            ctx.violation('C06.R2', fi, node, '%s after import: state shared '
                          'by all assemblies' % what)
        for fi in m.funcs.values():
            n += 1
            if mn in LOWER:
                bad = [x for x in walk_no_nested(fi.node)
                       if isinstance(x, ast.Name) and x.id in UPPER_NAMES
                       and isinstance(x.ctx, ast.Load)]
                bad += [x for x in walk_no_nested(fi.node)
                        if isinstance(x, ast.Attribute) and x.attr in (
                            'assemblies', 'core') and src(x.value) == 'self']
                ctx.require(not bad, 'C06.R2', fi, bad[0] if bad else None,
                            'assembly-level code refers to %s: an assembly '
                            'must not reach the reactor, the core or other '
                            'assemblies' % sorted({src(b) for b in bad}),
                            key='%s | reaches upward' % fi.full)
    # each assembly is advanced with its own data only (shared with C02.R2)
    st = repo.func('reactor', 'Reactor.axial_step')
    h = find_all('self._calculate_asm_temperatures(self.assemblies[ai], ai, z,'
                 ' dz, dump_step)', st.node)
    ctx.require(len(h) == 1, 'C06.R2', st, h[0][0] if h else st.node,
                'each assembly is advanced with its own object and index',
                key=st.full + ' | own object')
    ca = repo.func('reactor', 'Reactor._calculate_asm_temperatures')
    others = [x for x in walk_no_nested(ca.node) if isinstance(x, ast.Attribute)
              and x.attr == 'assemblies']
    ctx.require(not others, 'C06.R2', ca, others[0] if others else None,
                'the per-assembly step must not look at the assembly list',
                key=ca.full + ' | no list access')
    ctx.extra['functions_checked_for_layering'] = n


# ---------------------------------------------------------------------------
# R3: no decision carried from one assembly to the next

R3_SCOPE = ('dassh.reactor', 'dassh.assembly', 'dassh.core',
            'dassh.region_rodded', 'dassh.region_unrodded', 'dassh.region',
            'dassh.power', 'dassh.orificing', 'dassh.__main__')
R3_OK = {
    ('dassh.core:Core._calculate_gap_xpts', 'adj'):
        'dead code: the method has no call site in the package',
}
_ASM_ITER = ('assemblies', 'asm_list', 'n_asm', 'asm_templates')


def r3(ctx):
    from .c13 import _exposed
    n = 0
    for fi in ctx.repo.all_funcs():
        if fi.mod.name not in R3_SCOPE:
            continue
        for lp in walk_no_nested(fi.node):
            if not (isinstance(lp, ast.For) and any(
                    k in src(lp.iter) for k in _ASM_ITER)):
                continue
            tg = {x.id for x in ast.walk(lp.target)
                  if isinstance(x, ast.Name)}
            # outer loop variables are constant within one pass of this loop
            outer = set()
            for o in U.enclosing_loops(lp):
                if isinstance(o, ast.For):
                    outer |= {x.id for x in ast.walk(o.target)
                              if isinstance(x, ast.Name)}
            exp = _exposed(lp.body, set(fi.params) | tg | outer |
                           {'self', 'np', 'dassh'})
            rebound = set()
            for st in ast.walk(lp):
                if isinstance(st, ast.Assign):
                    used = {x.id for x in ast.walk(st.value)
                            if isinstance(x, ast.Name)}
                    for t in st.targets:
                        # `a, b = f(x)` re-binds a and b just as well
                        for t_ in (t.elts if isinstance(t, ast.Tuple)
                                   else [t]):
                            if isinstance(t_, ast.Name) and \
                                    t_.id not in used:
                                rebound.add(t_.id)
            n += 1
            seen = set()
            for x in exp:
                if x.id in rebound and x.id not in seen and \
                        (fi.full, x.id) not in R3_OK:
                    seen.add(x.id)
                    ctx.violation(
                        'C06.R3', fi, x,
                        '`%s` is re-bound inside the per-assembly loop at '
                        'line %d but read here before it is bound in the same '
                        'pass: the value an earlier assembly left behind '
                        'decides for a later one (results depend on the '
                        'order and on the other assemblies in the core)'
                        % (x.id, lp.lineno),
                        key='%s | carried %s' % (fi.full, x.id))
            if not seen:
                ctx.ok('C06.R3', fi, lp, 'nothing re-bound in the body is '
                       'read before its binding')
    if n == 0:
        raise AnalysisError('C06.R3: no per-assembly loop found')
