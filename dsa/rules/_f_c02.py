"""C02.R7 -- a low-fidelity (unrodded) region hands the gap exactly the heat
its coolant loses through the wall.

Clause.  For every wall cell of an unrodded region and both wall models
(regular / convection approximation)

    heat the coolant equation takes from the wall cell
      + heat the gap is credited for that cell                    == 0

identically in all temperatures, coefficients and dimensions, where

  * the wall temperatures the coolant equation reads are the ones the
    region's own wall model (`_calc_duct_temp`, non-adiabatic path) stores;
  * the gap is credited  h_gap x w x dz x (T_outer surface - T_gap)  (the form
    of `Core._update_energy_balance`, decided by C02.R3; outer surface =
    last duct, outer face, C02.R2), and
  * w is the width of that wall cell in the region's own table of duct-cell
    boundaries `calculate_xbnds()` -- the coordinate in which the duct<->gap
    maps and `Core.gap_params['asm wp']` measure the perimeter.

Two things can break it and are told apart in the report: the coolant side
integrates the wall flux over another width than the gap side (another face
of the wall, another fraction of the perimeter), or it applies another
coefficient / temperature difference than the wall model (e.g. the
convection factor a second time).

Technique.  Exact algebra (dsa.poly / dsa.algeval; sqrt(3) is the atom r3
with r3^2 = 3).  `_calc_duct_temp` and `_calc_coolant_temp` are evaluated
along the paths selected by their boolean arguments; constructor-constant
attributes (`self.duct_perim_over_6`, `self.duct_thickness`, ...) are
replaced by the value the constructor chain gives them (flow-sensitive
expansion inside `__init__`, base constructors followed); `calculate_xbnds`
is evaluated by a small array evaluator (lists of rational functions).  The
heat "taken from the wall" is read twice: from what is tallied
(`update_ebal`, the number `ebal['duct']` reports) and from the returned
temperature increment x node flow x cp minus the power share.  Nothing of
/repo is imported or run.

Trusted: `self.duct_ftf` of an unrodded region is the (inner, outer) pair
(C11.R7); the wall cells of `calculate_xbnds` are x[k+1]-x[k], k = 1..n-2,
plus the corner cell split between the two ends (`mesh_functions.
_map_asm2gap`, C10); node i of the six-node model faces wall cell i.
"""
import ast
import re

from ..core import AnalysisError, src, const, call_name, walk_no_nested
from ..poly import Rat, from_ast, NotPolynomial
from ..algeval import run_function
from .. import util as U
from . import _hexgeom as H

PROPS = ('C02',)
RULE = 'C02.R7'
MOD = 'region_unrodded'
R3 = Rat.sym('r3')

# (class, flow attribute of one coolant node, number of coolant nodes); the
# same table as C01.R8
MODELS = (('SingleNodeHomogeneous', 'self.flow_rate', 1),
          ('MultiNodeHomogeneous', 'self._scfr', 6))


def _s(n):
    return ' '.join(src(n).split())


def _is_sqrt3(n):
    if isinstance(n, ast.Call) and (call_name(n) or '') in (
            'np.sqrt', 'numpy.sqrt', 'math.sqrt', 'sqrt') and \
            len(n.args) == 1 and not n.keywords:
        return const(n.args[0]) in (3, 3.0)
    if isinstance(n, ast.BinOp) and isinstance(n.op, ast.Pow):
        return const(n.left) in (3, 3.0) and const(n.right) == 0.5
    return False


class _Geo:
    """Atom table of one class: flat-to-flat pair, sqrt(3) spellings, and the
    constructor values of `self.<attr>`."""

    def __init__(self, repo, ci):
        self.repo, self.ci = repo, ci
        self.atoms = {'self.duct_ftf[0]': 'fi', 'self.duct_ftf[1]': 'fo',
                      'self.duct_ftf[-2]': 'fi', 'self.duct_ftf[-1]': 'fo'}
        for m in {c.mod for c in repo.mro(ci)}:
            for g, v in m.globals.items():
                if _is_sqrt3(v):
                    self.atoms[g] = 'r3'
        self.cache = {}
        self.used = {}          # attr -> (FuncInfo, stmt) of the definition
        self.opaque = {}        # attr -> reason it stays a symbol
        self.read = set()       # symbols the coolant equation read

    # -- expressions ------------------------------------------------------
    def atoms_for(self, expr):
        at = dict(self.atoms)
        for n in ast.walk(expr):
            if _is_sqrt3(n):
                at[_s(n)] = 'r3'
        return at

    def rat(self, expr, init=None, before=None, seen=()):
        """Rat of an arithmetic expression; `self.<attr>` symbols are
        replaced by their constructor values where there is one."""
        r = from_ast(expr, self.atoms_for(expr), auto=True)
        return self.close(r, init, before, seen)

    def close(self, r, init=None, before=None, seen=()):
        for _ in range(20):
            todo = [s for s in sorted(r.n.symbols() | r.d.symbols())
                    if re.fullmatch(r'<self\.\w+>', s)
                    and s[6:-1] not in self.opaque]
            done = False
            for s in todo:
                v = self.ctor_value(s[6:-1], init, before, seen)
                if v is not None:
                    r = r._subs_rat(s, v)
                    done = True
            if not done:
                return r
        raise AnalysisError('constructor values of %s do not close'
                            % self.ci.name)

    # -- constructor values -------------------------------------------------
    def _stored_elsewhere(self, attr):
        """`<x>.attr = ...` outside the constructors of the class chain."""
        chain = self.repo.mro(self.ci)
        for c in chain:
            for f in c.mod.funcs.values():
                # constructors of the chain are evaluated; a constructor of
                # a subclass does not touch instances of this class
                if f.name == '__init__' and f.cls is not None and (
                        f.cls in chain or self.ci in self.repo.mro(f.cls)):
                    continue
                for n in ast.walk(f.node):
                    if isinstance(n, ast.Attribute) and n.attr == attr and \
                            isinstance(n.ctx, (ast.Store, ast.Del)):
                        return f
                    if isinstance(n, ast.Call) and call_name(n) in (
                            'setattr', 'delattr') and len(n.args) >= 2 and \
                            const(n.args[1]) == attr:
                        return f
        return None

    def ctor_value(self, attr, init=None, before=None, seen=()):
        key = (attr, init.full if init is not None else None, before)
        if key in self.cache:
            return self.cache[key]
        v = None
        if attr in seen:
            self.opaque[attr] = 'defined in terms of itself'
        elif self.repo.lookup_method(self.ci, attr) is not None:
            self.opaque[attr] = 'property / method'
        else:
            f = self._stored_elsewhere(attr)
            if f is not None:
                self.opaque[attr] = 're-bound in %s' % f.qual
            else:
                v = self._ctor_value(attr, init, before, seen + (attr,))
        self.cache[key] = v
        return v

    def _init_of(self, ci):
        for c in self.repo.mro(ci):
            if '__init__' in c.methods:
                return c, c.methods['__init__']
        return None, None

    def _ctor_value(self, attr, init, before, seen):
        if init is None:
            owner, init = self._init_of(self.ci)
        else:
            owner = init.cls
        while init is not None:
            body = init.node.body
            events = []         # (position, kind, stmt)
            for k, st in enumerate(body):
                if before is not None and st.lineno >= before:
                    break
                tg = []
                if isinstance(st, (ast.Assign, ast.AugAssign, ast.AnnAssign)):
                    tg = [t for t in ast.walk(st) if isinstance(
                        t, ast.Attribute) and isinstance(t.ctx, ast.Store)
                        and _s(t) == 'self.' + attr]
                if tg:
                    events.append((k, 'store', st))
                    continue
                nested = [t for t in ast.walk(st) if isinstance(
                    t, ast.Attribute) and isinstance(t.ctx, ast.Store)
                    and _s(t) == 'self.' + attr]
                if nested:
                    events.append((k, 'conditional', st))
                    continue
                for c in ast.walk(st):
                    if isinstance(c, ast.Call) and isinstance(
                            c.func, ast.Attribute) and \
                            c.func.attr == '__init__':
                        events.append((k, 'base', c))
            last = events[-1] if events else None
            if last is None:
                return None
            if last[1] == 'conditional':
                self.opaque[attr] = 'stored under a condition / in a loop ' \
                    'in %s' % init.qual
                return None
            if last[1] == 'store':
                st = last[2]
                if not (isinstance(st, ast.Assign) and len(st.targets) == 1
                        and isinstance(st.targets[0], ast.Attribute)):
                    self.opaque[attr] = 'not a plain assignment in %s' \
                        % init.qual
                    return None
                e = U.value_at(init.node, st.value, st.lineno)
                try:
                    v = self.rat(e, init, st.lineno, seen)
                except NotPolynomial:
                    self.opaque[attr] = 'not arithmetic: %s' % _s(st.value)
                    return None
                self.used[attr] = (init, st, v)
                return v
            # the last event is a base-constructor call: does a base
            # constructor define the attribute?  (search the earlier events
            # of this constructor otherwise)
            bases = [b for b in self.repo.mro(owner)[1:]
                     if '__init__' in b.methods]
            call = last[2]
            recv = _s(call.func.value)
            tgt = None
            for b in bases:
                if recv == b.name or recv.endswith('.' + b.name) or \
                        recv.startswith('super('):
                    tgt = b
                    break
            if tgt is not None:
                sub = _Geo(self.repo, self.ci)
                sub.opaque = self.opaque
                sub.used = self.used
                v = sub._ctor_value(attr, tgt.methods['__init__'], None, seen)
                if v is not None or attr in self.opaque:
                    return v
            before = call.lineno
        return None


# ---------------------------------------------------------------------------
# calculate_xbnds: lists of rational functions

class _Arr(list):
    pass


def _xbnds(geo, fi):
    env = {}

    def bad(n, why='construct not modelled'):
        raise AnalysisError('%s: %s: %s' % (fi.qual, why, _s(n)[:80]))

    def bc(op, a, b, n):
        if isinstance(a, _Arr) and isinstance(b, _Arr):
            if len(a) != len(b):
                bad(n, 'operands of different length')
            return _Arr(op(x, y) for x, y in zip(a, b))
        if isinstance(a, _Arr):
            return _Arr(op(x, b) for x in a)
        if isinstance(b, _Arr):
            return _Arr(op(a, y) for y in b)
        return op(a, b)

    def ev(n):
        if isinstance(n, ast.Name) and n.id in env:
            return env[n.id]
        c = const(n)
        if isinstance(c, (int, float)) and not isinstance(c, bool):
            return from_ast(n, {})
        if _is_sqrt3(n) or _s(n) in geo.atoms and geo.atoms[_s(n)] == 'r3':
            return R3
        if isinstance(n, (ast.List, ast.Tuple)):
            out = _Arr()
            for e in n.elts:
                v = ev(e)
                if isinstance(v, _Arr):
                    bad(n, 'nested sequence')
                out.append(v)
            return out
        if isinstance(n, ast.ListComp) and len(n.generators) == 1 and \
                not n.generators[0].ifs and isinstance(
                    n.generators[0].target, ast.Name):
            it = ev(n.generators[0].iter)
            if not isinstance(it, _Arr):
                bad(n)
            out = _Arr()
            nm = n.generators[0].target.id
            old = env.get(nm)
            for x in it:
                env[nm] = x
                out.append(ev(n.elt))
            env.pop(nm, None)
            if old is not None:
                env[nm] = old
            return out
        if isinstance(n, ast.UnaryOp) and isinstance(n.op, (ast.USub,
                                                            ast.UAdd)):
            v = ev(n.operand)
            if isinstance(n.op, ast.UAdd):
                return v
            return _Arr(-x for x in v) if isinstance(v, _Arr) else -v
        if isinstance(n, ast.BinOp):
            if isinstance(n.op, ast.Pow):
                e = const(n.right)
                a = ev(n.left)
                if isinstance(e, int) and not isinstance(a, _Arr):
                    return a ** e
                bad(n)
            a, b = ev(n.left), ev(n.right)
            ops = {ast.Add: lambda x, y: x + y, ast.Sub: lambda x, y: x - y,
                   ast.Mult: lambda x, y: x * y, ast.Div: lambda x, y: x / y}
            if type(n.op) not in ops:
                bad(n)
            return bc(ops[type(n.op)], a, b, n)
        if isinstance(n, ast.Call):
            nm = call_name(n) or ''
            short = nm.split('.')[-1]
            if nm.split('.')[0] in ('np', 'numpy') or nm in ('list', 'tuple',
                                                            'float', 'range'):
                if short in ('array', 'asarray', 'list', 'tuple', 'float') \
                        and n.args:
                    return ev(n.args[0])
                if short == 'cumsum' and len(n.args) == 1:
                    a = ev(n.args[0])
                    out, acc = _Arr(), Rat.const(0)
                    for x in a:
                        acc = acc + x
                        out.append(acc)
                    return out
                if short in ('arange', 'range') and n.args and all(
                        isinstance(const(a), int) for a in n.args):
                    return _Arr(Rat.const(k) for k in range(
                        *[const(a) for a in n.args]))
                if short in ('ones', 'zeros') and len(n.args) == 1 and \
                        isinstance(const(n.args[0]), int):
                    return _Arr(Rat.const(1 if short == 'ones' else 0)
                                for _ in range(const(n.args[0])))
                if short in ('concatenate', 'hstack', 'append') and n.args:
                    parts = n.args if short == 'append' else (
                        n.args[0].elts if isinstance(
                            n.args[0], (ast.List, ast.Tuple)) else None)
                    if parts is None:
                        bad(n)
                    out = _Arr()
                    for p in parts:
                        v = ev(p)
                        out.extend(v if isinstance(v, _Arr) else [v])
                    return out
            bad(n, 'call not modelled')
        if isinstance(n, ast.Subscript) and isinstance(n.value, ast.Name) \
                and isinstance(env.get(n.value.id), _Arr):
            a = env[n.value.id]
            k = const(n.slice)
            if isinstance(n.slice, ast.UnaryOp) and isinstance(
                    n.slice.op, ast.USub):
                k = -const(n.slice.operand)
            if isinstance(k, int):
                return a[k]
            if isinstance(n.slice, ast.Slice) and n.slice.step is None:
                lo = const(n.slice.lower) if n.slice.lower is not None \
                    else None
                hi = n.slice.upper
                if isinstance(hi, ast.UnaryOp) and isinstance(hi.op, ast.USub):
                    hi = -const(hi.operand)
                elif hi is not None:
                    hi = const(hi)
                return _Arr(a[lo:hi])
            bad(n)
        if isinstance(n, (ast.Attribute, ast.Subscript, ast.Name)):
            try:
                return geo.rat(n)
            except NotPolynomial:
                bad(n)
        bad(n)

    for st in fi.node.body:
        if isinstance(st, ast.Expr) and isinstance(st.value, ast.Constant):
            continue
        if isinstance(st, ast.Assign) and len(st.targets) == 1 and \
                isinstance(st.targets[0], ast.Name):
            env[st.targets[0].id] = ev(st.value)
            continue
        if isinstance(st, ast.AugAssign) and isinstance(st.target, ast.Name) \
                and st.target.id in env and isinstance(
                    st.op, (ast.Add, ast.Sub, ast.Mult, ast.Div)):
            env[st.target.id] = ev(ast.BinOp(
                left=ast.Name(id=st.target.id, ctx=ast.Load()), op=st.op,
                right=st.value))
            continue
        if isinstance(st, ast.Return) and st.value is not None:
            v = ev(st.value)
            if not isinstance(v, _Arr):
                bad(st, 'does not return a table of boundaries')
            return v, st
        bad(st, 'statement not modelled')
    raise AnalysisError('%s: no return' % fi.qual)


def _cell_widths(x):
    """Wall cells of a boundary table (convention of _map_asm2gap): the
    pieces x[k+1]-x[k]; the first and the last piece are the two halves of
    one (corner) cell."""
    pieces = [x[k + 1] - x[k] for k in range(len(x) - 1)]
    return [pieces[0] + pieces[-1]] + pieces[1:-1]


# ---------------------------------------------------------------------------
# wall temperatures: canonical keys of self.temp['duct_*'][...]

def _temp_key(n):
    """('duct_surf', (0, 1)) for self.temp['duct_surf'][0, 1] in any index
    spelling (chained / tuple subscripts, trailing full slices dropped);
    None for anything else."""
    idx = []
    cur = n
    while isinstance(cur, ast.Subscript):
        sl = cur.slice
        parts = list(sl.elts) if isinstance(sl, ast.Tuple) else [sl]
        idx = parts + idx
        cur = cur.value
        if _s(cur) == 'self.temp':
            break
    else:
        return None
    if not idx or not isinstance(const(idx[0]), str):
        return None
    name, rest = const(idx[0]), idx[1:]
    while rest and isinstance(rest[-1], ast.Slice) and \
            rest[-1].lower is None and rest[-1].upper is None and \
            rest[-1].step is None:
        rest = rest[:-1]
    out = []
    for p in rest:
        v = const(p)
        if isinstance(p, ast.UnaryOp) and isinstance(p.op, ast.USub) and \
                isinstance(const(p.operand), int):
            v = -const(p.operand)
        if not isinstance(v, int):
            return None
        out.append(v)
    return name, tuple(out)


def _wall_sym(key):
    return 'W[%s%s]' % (key[0], ''.join(',%d' % i for i in key[1]))


def _thermal_atoms(geo, fn_node, wall=True):
    """coolant temperature -> T (uniform reading, as C01.R8), neighbour sum
    -> S, wall temperatures -> canonical symbols, flat-to-flat distances and
    sqrt(3) as in the constructor."""
    from .c01 import _coolant_atoms
    atoms = geo.atoms_for(fn_node)
    atoms.update(_coolant_atoms(fn_node))
    if not wall:
        return atoms
    for n in ast.walk(fn_node):
        if isinstance(n, ast.Subscript):
            k = _temp_key(n)
            if k is not None and k[0].startswith('duct') and \
                    isinstance(n.ctx, ast.Load):
                atoms.setdefault(_s(n), _wall_sym(k))
    return atoms


def _show(r):
    """n / d with integer coefficients without common content."""
    from fractions import Fraction
    from math import gcd
    r = H.reduce_r3(r)
    cs = [v for p in (r.n, r.d) for v in p.t.values()]
    if not cs:
        return '0'
    den = 1
    for v in cs:
        den = den * v.denominator // gcd(den, v.denominator)
    g = 0
    for v in cs:
        g = gcd(g, int(v * den))
    f = Fraction(den, g or 1)
    if r.d.t and min(r.d.t.items())[1] < 0:
        f = -f
    n = type(r.n)({k: v * f for k, v in r.n.t.items()})
    d = type(r.d)({k: v * f for k, v in r.d.t.items()})
    if d == type(d).const(1):
        return repr(n)
    return '(%r) / (%r)' % (n, d)


def _evalf(r, point, default):
    """Value of a Rat at rational sample values (r3 ~ sqrt 3); None when the
    denominator vanishes there."""
    from fractions import Fraction
    n = d = None
    vals = []
    for p in (r.n, r.d):
        tot = Fraction(0)
        for k, v in p.t.items():
            for sy, e in k:
                v = v * point.setdefault(sy, default(sy)) ** e
            tot += v
        vals.append(tot)
    if vals[1] == 0:
        return None
    return vals[0] / vals[1]


def _symbols(r):
    return r.n.symbols() | r.d.symbols()


# ---------------------------------------------------------------------------

def _wall_model(ctx, geo, fd):
    """{wall symbol: Rat} stored by the non-adiabatic path of the wall model,
    gap temperature / coefficient symbols."""
    if len(fd.params) < 4:
        raise AnalysisError('%s: expected (self, gap temperature, gap htc, '
                            'adiabatic flag)' % fd.qual)
    tg, hg, flag = fd.params[1:4]
    # (reads of wall temperatures inside the wall model resolve to the
    # values stored before them, by text)
    r = run_function(fd, {flag: False}, _thermal_atoms(geo, fd.node, False))
    wall = {}
    for key, v in r.env.items():
        try:
            node = ast.parse(key, mode='eval').body
        except SyntaxError:
            continue
        k = _temp_key(node)
        if k is not None and k[0].startswith('duct'):
            wall[_wall_sym(k)] = geo.close(v)
    return wall, Rat.sym('<%s>' % tg), Rat.sym('<%s>' % hg)


def _subs_all(r, table):
    for s in sorted(_symbols(r)):
        if s in table:
            r = r._subs_rat(s, table[s])
    return r


def run(ctx):
    ctx.decided.append(
        'R7 (exact algebra over the wall model, the coolant equation and the '
        'duct-cell boundary table of the low-fidelity regions) for every '
        'wall cell and both wall models, the heat the coolant equation takes '
        'from the wall (tallied, and as increment x node flow x cp) plus the '
        'heat the gap is credited for that cell, h_gap x w x dz x (T_outer '
        'surface - T_gap) with w the cell width of calculate_xbnds(), is '
        'identically zero: same width on both sides of the wall, same '
        'coefficient and temperature difference as the wall model')
    ctx.trusted.append(
        'C02.R7: self.duct_ftf of an unrodded region is the (inner, outer) '
        'pair (C11.R7); cell convention of mesh_functions._map_asm2gap '
        '(pieces x[k+1]-x[k], first + last piece = one corner cell); gap '
        'tally h x wp x dz x (T_duct - T_gap) (C02.R3); six-node model: node '
        'i faces wall cell i; table MODELS (node flow attribute, node count)')
    repo = ctx.repo
    repo.mod(MOD)
    for cname, flow, nnode in MODELS:
        ci = repo.cls(MOD, cname)
        geo = _Geo(repo, ci)
        # ---- gap side: width of a wall cell
        fx = repo.lookup_method(ci, 'calculate_xbnds')
        fd = repo.lookup_method(ci, '_calc_duct_temp')
        fc = repo.lookup_method(ci, '_calc_coolant_temp')
        fu = repo.lookup_method(ci, '_update_coolant_params')
        for nm, f in (('calculate_xbnds', fx), ('_calc_duct_temp', fd),
                      ('_calc_coolant_temp', fc)):
            if f is None:
                raise AnalysisError('anchor method %s.%s vanished'
                                    % (cname, nm))
        xb, xret = _xbnds(geo, fx)
        if len(xb) < 3:
            raise AnalysisError('%s: fewer than 3 boundaries' % fx.qual)
        widths = _cell_widths(xb)
        # reference width: the one most cells have
        w = max(widths, key=lambda c: sum(
            1 for x in widths if H.is_zero(x - c)))
        uneq = [k for k, x in enumerate(widths) if not H.is_zero(x - w)]
        tagx = '%s | %s' % (ci.full, fx.qual)
        if not ctx.require(
                len(widths) == 6 and not uneq, RULE, fx, xret,
                'the %s coolant equation exchanges heat with six wall cells '
                'of one width; calculate_xbnds() gives the gap %d cells%s'
                % (cname, len(widths), ', cell(s) %s of another width than '
                   'the others (%s)' % (uneq, _show(w)) if uneq else ''),
                note='%s: six equal wall cells' % cname,
                key=tagx + ' | six equal cells'):
            continue
        # ---- wall model
        wall, TG, HG = _wall_model(ctx, geo, fd)
        out_key = _wall_sym(('duct_surf', (0, 1)))
        if out_key not in wall:
            raise AnalysisError(
                '%s: the store of the outer surface temperature '
                "self.temp['duct_surf'][0, 1] was not found on the "
                'non-adiabatic path (stores seen: %s)'
                % (fd.qual, sorted(wall)))
        # factors by which the wall-side coefficient is scaled when it is
        # set (the convection factor): a second application of one of them
        # in the coolant equation is reported as such
        scal = set()
        if fu is not None:
            for st in walk_no_nested(fu.node):
                if isinstance(st, ast.AugAssign) and isinstance(
                        st.op, ast.Mult) and 'htc' in _s(st.target):
                    scal.add('<%s>' % _s(st.value))
        # ---- coolant equation, both wall models
        if len(fc.params) < 5:
            raise AnalysisError('%s: expected (self, dz, power, adiabatic, '
                                'ebal)' % fc.qual)
        dzn, pwn, adn, ebn = fc.params[1:5]
        DZ = Rat.sym('<%s>' % dzn)
        M = Rat.sym('<%s>' % flow)
        CP = Rat.sym('<self.coolant.heat_capacity>')
        SUM = Rat.sym('<SUM>')
        credit = HG * w * DZ * (wall[out_key] - TG)
        atoms = _thermal_atoms(geo, fc.node)
        reported = set()
        for approx in (False, True):
            flags = {adn: False, ebn: True, 'self._conv_approx': approx,
                     "%s['refl'] is None" % pwn: False}
            r = run_function(fc, flags, atoms)
            eb = r.call('update_ebal')
            scen = 'convection approximation' if approx else 'regular wall'
            if r.ret is None or len(eb) != 1 or len(eb[0][1]) != 2 or \
                    None in eb[0][1]:
                ctx.violation(
                    RULE, fc, fc.node, 'the coolant update must return its '
                    'increment and tally power and wall heat once '
                    '(update_ebal) on the non-adiabatic path (%s)' % scen,
                    key='%s | shape' % fc.full)
                continue
            q_in, q_tally = eb[0][1]
            q_inc = (r.ret * M * CP - q_in / Rat.const(nnode)).subs(
                'S', Rat.sym('T') * Rat.const(2))
            for what, q, mult in (
                    ('tallied wall heat (update_ebal)', q_tally,
                     Rat.const(1)),
                    ('coolant enthalpy rise minus power share', q_inc,
                     SUM if nnode == 1 else Rat.const(1))):
                geo.read |= _symbols(q)
                q = _subs_all(geo.close(q), wall)
                D = q + mult * credit
                note = '%s, %s' % (scen, what)
                if H.is_zero(D):
                    ctx.ok(RULE, fc, r.ret_node, note)
                    continue
                _report(ctx, geo, fc, fx, r, D, q,
                        mult * HG * DZ * (wall[out_key] - TG), scal, note,
                        reported, w)
    ctx.min_instances(RULE, 10)


def _report(ctx, geo, fc, fx, r, D, q, per_width, scal, note, reported, w):
    """D = q + per_width * w is not zero: say why."""
    num = H.reduce_r3(D).n
    second = sorted(s for s in scal if s in num.symbols())
    D1, q1 = D, q
    for s in second:
        D1 = D1.subs(s, Rat.const(1))
        q1 = q1.subs(s, Rat.const(1))
    node = r.ret_node
    for c in ast.walk(fc.node):
        if isinstance(c, ast.Call) and (call_name(c) or '').endswith(
                'update_ebal') and len(c.args) == 2 and \
                not _s(c.args[1]).startswith('np.zeros'):
            node = c
    if second:
        key = '%s | convection factor applied once' % fc.full
        if key not in reported:
            reported.add(key)
            ctx.violation(
                RULE, fc, node,
                'heat leaving the coolant through a wall cell must be the '
                'heat the gap is credited for it; here the coolant equation '
                'multiplies the wall heat by %s although the coefficient the '
                'wall model (_calc_duct_temp) uses already carries that '
                'factor once (_update_coolant_params): the coolant loses %s '
                'times the heat the wall conducts to the gap, so for a '
                'convection factor other than 1 energy is created or lost at '
                'every wall cell of this region (%s)' % (
                    ', '.join(s[1:-1] for s in second),
                    ' x '.join(s[1:-1] for s in second), note), key=key)
    if H.is_zero(D1):
        return
    key = '%s | heat leaving = heat credited' % fc.full
    if key in reported:
        return
    reported.add(key)
    # diagnosis 1: the identity holds with the width of the gap side replaced
    # by one of the constructor dimensions the coolant equation read -> the
    # two sides of the wall integrate the same flux over different widths
    where, wnode, why = fc, node, None
    for a, (fi_, st, v) in sorted(geo.used.items()):
        if '<self.%s>' % a not in geo.read:
            continue
        for div in (1, 6):
            if H.is_zero(q1 + per_width * v / Rat.const(div)):
                why = ('the coolant equation integrates the wall flux over '
                       '%s = %s (`%s` in %s) while the gap is credited over '
                       '%s' % ('self.' + a + ('' if div == 1 else ' / 6'),
                               _show(v / Rat.const(div)), _s(st),
                               fi_.qual, _show(w)))
                where, wnode = fi_, st
                break
        if why:
            break
    if why is None:
        # diagnosis 2: ratio heat lost / heat credited at two sample points
        # (fi = 0.9 fo; temperatures and coefficients distinct numbers): a
        # ratio that does not depend on the thermal state is a mismatch of
        # widths, otherwise of coefficient / temperature difference
        def depends(r, sy):
            if sy not in _symbols(r):
                return False
            try:
                return not H.is_zero(r.subs(sy, Rat.const(1))
                                     - r.subs(sy, Rat.const(2)))
            except ZeroDivisionError:
                return True
        opaque = ['self.%s (%s)' % (a, y) for a, y in sorted(
            geo.opaque.items()) if depends(D1, '<self.%s>' % a)]
        from fractions import Fraction
        try:
            ratio = (Rat.const(0) - q1) / (per_width * w)
        except ZeroDivisionError:
            ratio = None        # the wall model credits the gap nothing
        rs = []
        for seed in (0, 1) if ratio is not None else ():
            cnt = [0]

            def default(sy, seed=seed, cnt=cnt):
                cnt[0] += 1
                return Fraction(3 + 2 * cnt[0] + 7 * seed * cnt[0] ** 2,
                                1 + cnt[0] + seed)
            pt = {'fo': Fraction(1), 'fi': Fraction(9, 10),
                  'r3': Fraction(1732050808, 10 ** 9)}
            try:
                v = _evalf(ratio, pt, default)
            except ZeroDivisionError:
                v = None
            rs.append(v)
        if opaque:
            # (a sample value for an unknown dimension says nothing)
            num_txt = ''
        elif ratio is None:
            num_txt = ('; with the wall temperatures of the wall model the '
                       'gap is credited no heat at all (outer surface '
                       'temperature = gap temperature)')
        elif None in rs:
            num_txt = ''
        elif abs(rs[0] - rs[1]) < Fraction(1, 10 ** 6):
            num_txt = ('; for an inner flat-to-flat of 0.9 x the outer one '
                       'the coolant loses %.4f x the heat the gap is '
                       'credited, whatever the temperatures and coefficients '
                       '(the two sides of the wall use different widths)'
                       % float(rs[0]))
        else:
            num_txt = ('; the ratio heat lost / heat credited depends on the '
                       'thermal state (%.4f and %.4f at two sample states): '
                       'the coolant equation applies another coefficient or '
                       'temperature difference than the wall model'
                       % (float(rs[0]), float(rs[1])))
        dims = ' | '.join(_s(st) for a, (fi_, st, v) in sorted(
            geo.used.items()) if '<self.%s>' % a in geo.read)
        why = 'residual %s ...%s%s%s' % (
            str(H.reduce_r3(D1).n)[:120], num_txt,
            '; dimensions read from the constructor: ' + dims if dims else '',
            '; not constructor constants: ' + ', '.join(opaque)
            if opaque else '')
    ctx.violation(
        RULE, where, wnode,
        'heat leaving the coolant of a low-fidelity region through a wall '
        'cell must equal the heat the gap is credited for that cell, h_gap x '
        'w x dz x (T_outer surface - T_gap) with w = %s the cell width of '
        '%s() (the width the duct<->gap maps and Core.gap_params[asm wp] '
        'use) -- %s: %s' % (_show(w), fx.qual, note, why), key=key)
