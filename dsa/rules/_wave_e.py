"""Rules added after the fifth adversarial round (kept in one module; each
function is called from the property module named in its docstring)."""
import ast

from ..core import (AnalysisError, call_name, const, src, walk_no_nested,
                    parent)
from .. import util as U


def _s(n):
    return ' '.join(src(n).split())


# ---------------------------------------------------------------------------
# C04.R8: the step criteria are evaluated with parameters of the evaluation
# temperature

def c04_r8(ctx):
    """(C04) calculate_min_dz evaluates the criteria at the inlet and the
    outlet temperature: inside its temperature loop the interior parameter
    update must be unconditional, i.e. called with the material tracker
    switched off (the tracker skips the update while the coolant is close to
    its reference state, which leaves the parameters of another temperature
    -- or none at all on a fresh clone -- in place)."""
    fi = ctx.repo.func('region_rodded', 'calculate_min_dz')
    b = fi.params[0]
    loops = [n for n in walk_no_nested(fi.node) if isinstance(n, ast.For)
             and isinstance(n.target, ast.Name)]
    n = 0
    for lp in loops:
        t = lp.target.id
        for c in ast.walk(lp):
            if not (isinstance(c, ast.Call) and call_name(c) ==
                    '%s._update_coolant_int_params' % b):
                continue
            n += 1
            callee = ctx.repo.func('region_rodded',
                                   'RoddedRegion._update_coolant_int_params')
            pos = callee.params[1:]
            val = None
            for k in c.keywords:
                if k.arg == 'use_mat_tracker':
                    val = k.value
            if 'use_mat_tracker' in pos and len(c.args) > pos.index(
                    'use_mat_tracker'):
                val = c.args[pos.index('use_mat_tracker')]
            ok = val is not None and const(val) is False and c.args and \
                isinstance(c.args[0], ast.Name) and c.args[0].id == t
            ctx.require(ok, 'C04.R8', fi, c,
                        'the step criteria must be evaluated with correlated '
                        'parameters of the evaluation temperature: '
                        '_update_coolant_int_params(<loop temperature>, '
                        'use_mat_tracker=False); with the tracker on the '
                        'update is skipped near the reference state and the '
                        'criterion sees stale (or zero) parameters',
                        key='%s | tracker off in the temperature loop'
                        % fi.full)
    if n == 0:
        raise AnalysisError('calculate_min_dz: parameter update in the '
                            'temperature loop vanished')


# ---------------------------------------------------------------------------
# C05.R6: which wall is adiabatic -- finite domain

def c05_r6(ctx):
    """(C05/C04) selection of the adiabatic wall handed to the criteria,
    decided over n_bypass in {0,1,2} x bypass flow {0,>0} x adiabatic {F,T}
    by the finite-domain evaluator: None / 'outer_byp' (any flowing bypass)
    / 'outer'."""
    from .. import finite as FD
    FD.NP_MODELS.setdefault('np.sum', lambda x: sum(x))
    fi = ctx.repo.func('region_rodded', 'calculate_min_dz')
    b = fi.params[0]
    ad = fi.params[3] if len(fi.params) > 3 else 'adiabatic'
    # statements up to (excluding) the temperature loop
    pre = []
    for st in fi.node.body:
        if isinstance(st, ast.For):
            break
        if isinstance(st, ast.Expr) and isinstance(st.value, ast.Constant):
            continue
        pre.append(st)
    name = None
    for st in pre:
        for a in ast.walk(st):
            if isinstance(a, ast.Assign) and isinstance(
                    a.targets[0], ast.Name) and isinstance(
                        const(a.value), str) and 'outer' in const(a.value):
                name = a.targets[0].id
    if name is None:
        raise AnalysisError('calculate_min_dz: adiabatic-wall selection '
                            'vanished')
    n = 0
    for nb in (0, 1, 2):
        for flow in (0, 1):
            for adiabatic in (False, True):
                if nb == 0 and flow:
                    continue
                ev = FD.Evaluator({}, set(), attr_env={
                    '%s.n_bypass' % b: nb,
                    '%s.byp_flow_rate' % b: [flow] * max(nb, 1)})
                env = {ad: adiabatic}
                try:
                    ev.run_block(pre, env)
                except FD.Unsupported as e:
                    raise AnalysisError('calculate_min_dz: adiabatic-wall '
                                        'selection not evaluable: %s' % e)
                got = env.get(name)
                want = None if not adiabatic else (
                    'outer_byp' if nb > 0 and flow else 'outer')
                n += 1
                ctx.require(got == want, 'C05.R6', fi, fi.node,
                            'adiabatic wall for n_bypass=%d, bypass flow %s, '
                            'adiabatic=%s is %r, expected %r (with a flowing '
                            'bypass the interior still exchanges heat with '
                            'the inner duct: its criterion must not be '
                            'evaluated as adiabatic)'
                            % (nb, '> 0' if flow else '0', adiabatic, got,
                               want),
                            key='%s | adiabatic wall %d %d %s'
                            % (fi.full, nb, flow, adiabatic))
    return n


# ---------------------------------------------------------------------------
# C08.R8: coolant edge / corner centroids are placed against the innermost wall

def c08_r8(ctx):
    """(C08) Subchannel.find_sc_xy hands the inner flat-to-flat of the
    INNERMOST duct (min(duct_ftf[0])) to the edge and corner centroid
    helpers."""
    fi = ctx.repo.func('subchannel', 'Subchannel.find_sc_xy')
    n = 0
    for helper in ('_find_edge_xy', '_find_corner_xy'):
        callee = ctx.repo.func('subchannel', 'Subchannel.' + helper)
        pname = [p for p in callee.params if 'ftf' in p.lower()]
        if len(pname) != 1:
            raise AnalysisError('%s: flat-to-flat parameter' % helper)
        idx = callee.params[1:].index(pname[0])
        calls = [c for c in ast.walk(fi.node) if isinstance(c, ast.Call)
                 and call_name(c) == 'self.' + helper]
        if len(calls) != 1:
            raise AnalysisError('find_sc_xy: call of %s' % helper)
        c = calls[0]
        arg = c.args[idx] if idx < len(c.args) else None
        for k in c.keywords:
            if k.arg == pname[0]:
                arg = k.value
        ok = False
        txt = None
        if arg is not None:
            e = U.value_at(fi.node, arg, c.lineno, keep=tuple(fi.params))
            txt = _s(e)
            ok = txt in ('min(duct_ftf[0])', 'duct_ftf[0][0]',
                         'np.min(duct_ftf[0])')
        n += 1
        ctx.require(ok, 'C08.R8', fi, c,
                    '%s must be given the inner flat-to-flat of the innermost '
                    'duct, min(duct_ftf[0]); got `%s` (with several ducts '
                    'the coolant centroids are otherwise placed against a '
                    'wall that is not theirs)' % (helper, txt),
                    key='%s | %s ftf' % (fi.full, helper))
    return n


# ---------------------------------------------------------------------------
# C10.R6: gap cell boundaries of a side depend on that side only

def c10_r6(ctx):
    """(C10/C09) Core._calculate_gap_xbnds: the first boundary of a side is
    the side's start plus the corner length of THAT side; pitch and corner
    length are bound once per side from dims[asm, side] and no absolute side
    index is singled out."""
    fi = ctx.repo.func('core', 'Core._calculate_gap_xbnds')
    unpack = [a for a in ast.walk(fi.node) if isinstance(a, ast.Assign)
              and isinstance(a.targets[0], ast.Tuple)
              and "_geom_params['dims']" in src(a.value)]
    if len(unpack) != 1 or len(unpack[0].targets[0].elts) != 2:
        raise AnalysisError('_calculate_gap_xbnds: dims unpacking')
    pp, dwc = [e.id for e in unpack[0].targets[0].elts]
    side_loop = [l for l in U.enclosing_loops(unpack[0])
                 if isinstance(l, ast.For)]
    if not side_loop:
        raise AnalysisError('_calculate_gap_xbnds: side loop')
    lp = side_loop[0]
    side = src(lp.target)
    ok_src = _s(unpack[0].value).endswith('[asm, %s]' % side) or \
        _s(unpack[0].value).endswith('[asm][%s]' % side)
    rebinds = [a for a in ast.walk(lp) if isinstance(a, (ast.Assign,
                                                         ast.AugAssign))
               and a is not unpack[0] and any(
                   isinstance(t, ast.Name) and t.id in (pp, dwc)
                   for t in (a.targets if isinstance(a, ast.Assign)
                             else [a.target]))]
    singled = [t for t in ast.walk(lp) if isinstance(t, ast.Compare)
               and any(isinstance(x, ast.Name) and x.id == side
                       for x in ast.walk(t))
               and any(isinstance(const(x), int) for x in
                       [t.left] + t.comparators)]
    ctx.require(ok_src and not rebinds and not singled, 'C10.R6', fi,
                (rebinds or singled or [unpack[0]])[0],
                'pitch and corner length of a side must come from '
                'dims[asm, side] of that side only (re-bound: %s; absolute '
                'side index tested: %s): the gap cells of a side belong to '
                'the neighbour across that side'
                % ([_s(r) for r in rebinds], [_s(t) for t in singled]),
                key='%s | side parameters' % fi.full)
    first = [c for c in ast.walk(lp) if isinstance(c, ast.Call)
             and (call_name(c) or '').endswith('.append') and c.args
             and dwc in {x.id for x in ast.walk(c.args[0])
                         if isinstance(x, ast.Name)}]
    ok = len(first) == 1
    if ok:
        e = U.value_at(fi.node, first[0].args[0], first[0].lineno,
                       keep=(pp, dwc, side, 'asm'))
        txt = _s(e)
        ok = txt in ('self.duct_oftf / _sqrt3 * %s + %s' % (side, dwc),
                     '%s * (self.duct_oftf / _sqrt3) + %s' % (side, dwc),
                     'starting_x + %s' % dwc)
    ctx.require(ok, 'C10.R6', fi, first[0] if first else lp,
                'first gap boundary of a side = side start (hexagon side '
                'length x side index) + corner length of that side',
                key='%s | first boundary' % fi.full)
    return 2


# ---------------------------------------------------------------------------
# C11.R8: no in-place arithmetic through views of the temperature state

def _state_ranks(repo):
    fi = repo.func('region', 'DASSH_Region.__init__')
    ranks = {}
    for t, st in U.stores(fi.node):
        if isinstance(t, ast.Subscript) and src(t.value) == 'self.temp' and \
                isinstance(st, ast.Assign) and isinstance(
                    st.value, ast.Call) and st.value.args:
            a = st.value.args[0]
            ranks[const(t.slice)] = len(a.elts) if isinstance(
                a, ast.Tuple) else 1
    if len(ranks) < 4:
        raise AnalysisError('DASSH_Region.__init__: temperature state '
                            'arrays %s' % sorted(ranks))
    return ranks


def view_mutations(fn_node, ranks):
    """Locals bound to a view of self.temp[<key>] (fewer scalar indices than
    the rank of the array, or a slice) that are then modified in place."""
    hits = []
    body = list(walk_no_nested(fn_node))
    views = {}
    for st in body:
        if isinstance(st, ast.Assign) and len(st.targets) == 1 and \
                isinstance(st.targets[0], ast.Name):
            v = st.value
            idx = []
            x = v
            while isinstance(x, ast.Subscript):
                idx.append(x.slice)
                x = x.value
            if len(idx) >= 1 and isinstance(x, ast.Attribute) and \
                    src(x) == 'self.temp':
                key = const(idx[-1])
                rest = idx[:-1]
                scalars = 0
                for s_ in rest:
                    elts = s_.elts if isinstance(s_, ast.Tuple) else [s_]
                    scalars += sum(1 for e in elts
                                   if not isinstance(e, ast.Slice))
                if key in ranks and scalars < ranks[key]:
                    views.setdefault(st.targets[0].id, []).append(st)
            elif st.targets[0].id in views:
                # re-bound to something else later: keep the line for order
                views[st.targets[0].id].append(st)
    for st in body:
        tgt = None
        if isinstance(st, ast.AugAssign) and not getattr(
                st, '_was_assign', False):
            tgt = st.target
        elif isinstance(st, ast.Assign) and isinstance(
                st.targets[0], ast.Subscript):
            tgt = st.targets[0]
        if tgt is None:
            continue
        root = tgt
        while isinstance(root, ast.Subscript):
            root = root.value
        if not (isinstance(root, ast.Name) and root.id in views):
            continue
        # the latest binding before this statement must be the view
        prior = [d for d in views[root.id] if d.lineno < st.lineno]
        if not prior:
            continue
        last = max(prior, key=lambda d: d.lineno)
        if 'self.temp' in src(last.value):
            hits.append((st, root.id, last))
    return hits


VIEW_POSITIVE = """
class R:
    def step(self, i, w):
        d = self.temp['duct_surf'][i, 1]
        d -= self.temp['coolant_byp'][i]
        d *= w
        return d
"""


def c11_r8(ctx):
    """(C11) a local that is a view of a temperature state array is never
    modified in place in the region modules: numpy in-place arithmetic on the
    view overwrites the stored wall / coolant temperatures."""
    from ..core import Module
    ranks = _state_ranks(ctx.repo)
    n = 0
    for mn in ('region', 'region_rodded', 'region_unrodded'):
        for fi in ctx.repo.mod(mn).funcs.values():
            for st, nm, d in view_mutations(fi.node, ranks):
                ctx.violation('C11.R8', fi, st,
                              '`%s` is a view of the temperature state '
                              '(`%s`, line %d); modifying it in place '
                              'overwrites the stored temperatures'
                              % (nm, _s(d.value), d.lineno),
                              key='%s | in-place on view %s' % (fi.full, nm))
            n += 1
    pm = Module('dassh._positive', '<positive>', 'dassh/_positive.py',
                VIEW_POSITIVE)
    if len(view_mutations(pm.funcs['R.step'].node, ranks)) != 2:
        raise AnalysisError('C11.R8 positive example not detected')
    ctx.ok('C11.R8', 'synthetic positive example', None,
           'detected; %d functions scanned, state ranks %s' % (n, ranks))


# ---------------------------------------------------------------------------
# C12.R9: with spacer grids the split always comes from the grid iteration

def c12_r9(ctx):
    """(C12) in the CTD and UCTD flow-split entry points every return other
    than the bundle-plus-grid iteration is reachable only when `grid` is
    false (the friction-only constants do not equalise friction + grid
    loss)."""
    from ..dataflow import path_conditions
    n = 0
    for modn in ('correlations.flowsplit_ctd', 'correlations.flowsplit_uctd'):
        fi = ctx.repo.func(modn, 'calculate_flow_split')
        if 'grid' not in fi.params:
            raise AnalysisError('%s: grid parameter' % fi.full)
        rets = [r for r in walk_no_nested(fi.node)
                if isinstance(r, ast.Return)]
        grid_rets = [r for r in rets if r.value is not None and
                     '_calc_bundle_plus_grid_flow_split' in src(r.value)]
        if not grid_rets:
            ctx.violation('C12.R9', fi, fi.node, 'no return through the '
                          'bundle-plus-grid iteration',
                          key=fi.full + ' | grid return')
            continue
        for r in rets:
            if r in grid_rets:
                continue
            conds = path_conditions(fi, r)
            known_false = any(_s(t) == 'grid' and not pol
                              for t, pol in conds) or any(
                _s(t) == 'not grid' and pol for t, pol in conds)
            n += 1
            ctx.require(known_false, 'C12.R9', fi, r,
                        'this return can be reached with grid=True: with '
                        'spacer grids the split must come from the '
                        'bundle-plus-grid iteration in every flow regime',
                        key='%s | return line-independent %s'
                        % (fi.full, _s(r.value)[:50]))
    if n < 4:
        raise AnalysisError('C12.R9: only %d returns examined' % n)


# ---------------------------------------------------------------------------
# C03.R8: per-assembly power data come from the assembly's own record

def c03_r8(ctx):
    """(C03) Reactor._setup_asm_power, user-power branch: the axial mesh, the
    average profile and the component profiles of position i are all read
    from ONE record, and that record is selected by i."""
    fi = ctx.repo.func('reactor', 'Reactor._setup_asm_power')
    loops = [n for n in walk_no_nested(fi.node) if isinstance(n, ast.For)
             and isinstance(n.target, ast.Name)
             and "['Assignment']['ByPosition']" in src(n.iter)]
    if len(loops) != 1:
        raise AnalysisError('_setup_asm_power: position loop')
    lp = loops[0]
    i = lp.target.id
    br = [n for n in ast.walk(lp) if isinstance(n, ast.If)
          and _s(n.test).startswith('%s in ' % i)]
    if len(br) != 1:
        raise AnalysisError('_setup_asm_power: user-power branch')
    body = br[0].body
    want = {'z_mesh': "['zfm']", 'avg_power_profile': "['avg_power']",
            'power_profile': ''}
    roots = {}
    for nm, suffix in want.items():
        a = [x for st in body for x in ast.walk(st) if isinstance(
            x, ast.Assign) and len(x.targets) == 1 and isinstance(
                x.targets[0], ast.Name) and x.targets[0].id == nm]
        if len(a) != 1:
            raise AnalysisError('_setup_asm_power: binding of %s' % nm)
        e = U.value_at(fi.node, a[0].value, a[0].lineno, keep=(i,))
        t = _s(e)
        ok = t.endswith(suffix)
        root = t[:len(t) - len(suffix)] if ok else t
        roots[nm] = (root, a[0], ok)
    rs = {r for r, a, ok in roots.values()}
    good = all(ok for r, a, ok in roots.values()) and len(rs) == 1 and any(
        isinstance(x, ast.Name) and x.id == i
        for x in ast.walk(ast.parse(next(iter(rs)), mode='eval')))
    bad = [a for r, a, ok in roots.values()][0]
    for nm, (r, a, ok) in roots.items():
        if not ok or sum(1 for r2, _, _ in roots.values() if r2 == r) == 1:
            bad = a
    ctx.require(good, 'C03.R8', fi, bad,
                'axial power mesh, average profile and component profiles of '
                'a position must come from that position\'s own user-power '
                'record (got %s): a mesh taken from another assembly applies '
                'the cell averages over the wrong spans'
                % {k: v[0] for k, v in roots.items()},
                key='%s | own record' % fi.full)


# ---------------------------------------------------------------------------
# C07.R6: masks of the 0-based pin adjacency

def c07_r6(ctx):
    """(C07) outside subchannel.py the pin<->subchannel adjacency arrays are
    0-based with -1 as filler: a mask that treats index 0 as 'no neighbour'
    singles out one absolute subchannel / pin."""
    ok_pairs = {(ast.Lt, 0), (ast.GtE, 0), (ast.Eq, -1), (ast.NotEq, -1),
                (ast.Gt, -1), (ast.LtE, -1)}
    sub = ctx.repo.func('subchannel', 'Subchannel.__init__')
    shifted = any(isinstance(a, ast.AugAssign) and isinstance(a.op, ast.Sub)
                  and _s(a.target) == 'self.pin_adj' and const(a.value) == 1
                  for a in ast.walk(sub.node))
    if not shifted:
        raise AnalysisError('Subchannel.__init__: pin_adj is no longer '
                            'shifted to base 0')
    n = 0
    for m in ctx.repo.modules.values():
        if m.name.endswith('.subchannel'):
            continue
        for fi in m.funcs.values():
            for c in ast.walk(fi.node):
                if not (isinstance(c, ast.Compare) and len(c.ops) == 1):
                    continue
                l, r = c.left, c.comparators[0]
                if not (isinstance(l, ast.Attribute) and l.attr in (
                        'pin_adj', 'rev_pin_adj')):
                    continue
                v = const(r)
                if isinstance(r, ast.UnaryOp) and isinstance(
                        r.op, ast.USub):
                    v = -const(r.operand) if isinstance(
                        const(r.operand), int) else None
                if not isinstance(v, int):
                    continue
                n += 1
                ctx.require((type(c.ops[0]), v) in ok_pairs, 'C07.R6', fi, c,
                            'mask `%s` on a 0-based adjacency array with -1 '
                            'filler: entry 0 is a real neighbour (subchannel '
                            '/ pin number 0), so this test drops or keeps '
                            'one absolute index' % _s(c),
                            key='%s | mask %s' % (fi.full, _s(l)))
    if n < 2:
        raise AnalysisError('C07.R6: only %d masks found' % n)


# ---------------------------------------------------------------------------
# C09.R7: gap cell area from the cell's own perimeter share

def c09_r7(ctx):
    """(C09) Core._calculate_sc_area: no absolute side index into the
    per-(assembly, side) tables, and an isolated corner cell takes its own
    share of the duct perimeter (gap_params['asm wp'][asm, loc] of the
    adjacency look-up)."""
    fi = ctx.repo.func('core', 'Core._calculate_sc_area')
    fixed = []
    for x in ast.walk(fi.node):
        if isinstance(x, ast.Subscript) and isinstance(x.slice, ast.Tuple) \
                and len(x.slice.elts) >= 2 and (
                    "_geom_params" in src(x.value)
                    or "gap_params" in src(x.value)):
            second = x.slice.elts[1]
            if isinstance(const(second), int) or (isinstance(
                    second, ast.UnaryOp) and isinstance(
                        const(second.operand), int)):
                fixed.append(x)
    ctx.require(not fixed, 'C09.R7', fi, fixed[0] if fixed else fi.node,
                'gap cell area reads a per-side table at a fixed side index '
                '(%s): the side facing a finer neighbour carries the '
                'neighbour\'s mesh, so the area becomes mesh dependent'
                % [_s(f) for f in fixed],
                key='%s | no fixed side' % fi.full)
    sts = [st for t, st in U.stores(fi.node) if isinstance(st, ast.Assign)
           and _s(t) == 'area[i]']
    own = [st for st in sts if "['asm wp'][asm[0], loc[0]]" in _s(st.value)]
    ctx.require(len(own) == 1 and any(
        'len(asm) == 1' in _s(t) for t, pol in U.guards(own[0])
        if pol) if own else False, 'C09.R7', fi, sts[0] if sts else fi.node,
        'an isolated corner cell (one adjacent assembly) takes its own '
        'perimeter share gap_params[\'asm wp\'][asm[0], loc[0]]',
        key='%s | isolated corner' % fi.full)


# ---------------------------------------------------------------------------
# C13.R7: the film correlation uses all four user coefficients

def c13_r7(ctx):
    """(C13) Nu = A Re^B Pr^C + D: _dittus_boelter raises Re and Pr to their
    own exponents, and the bundle / subchannel entry points hand it the
    Reynolds number they were given and the coolant's Prandtl number."""
    from ..core import find_all
    m = 'correlations.nusselt_db'
    db = ctx.repo.func(m, '_dittus_boelter')
    re_, pr_, c_ = db.params[:3]
    pats = ['return %s[0] * %s**%s[1] * %s**%s[2] + %s[3]'
            % (c_, re_, c_, pr_, c_, c_),
            'return %s[0] * (%s**%s[1] * %s**%s[2]) + %s[3]'
            % (c_, re_, c_, pr_, c_, c_)]
    hit = any(find_all(p, db.node, 'stmt') for p in pats)
    if not hit:
        # accept np.power spelling
        rets = [r for r in ast.walk(db.node) if isinstance(r, ast.Return)]
        hit = len(rets) == 1 and _s(rets[0].value) in (
            '%s[0] * np.power(%s, %s[1]) * np.power(%s, %s[2]) + %s[3]'
            % (c_, re_, c_, pr_, c_, c_),)
    ctx.require(hit, 'C13.R7', db, db.node,
                'Nu must be consts[0] * Re**consts[1] * Pr**consts[2] + '
                'consts[3]', key=db.full + ' | form')
    for q in ('calculate_bundle_Nu', 'calculate_sc_Nu'):
        fi = ctx.repo.func(m, q)
        rets = [r for r in walk_no_nested(fi.node)
                if isinstance(r, ast.Return) and r.value is not None]
        ok = False
        txt = ''
        if len(rets) == 1:
            e = U.value_at(fi.node, rets[0].value, rets[0].lineno,
                           keep=tuple(fi.params))
            txt = _s(e)
            ok = txt == '_dittus_boelter(%s, _calc_prandtl(%s), %s)' % (
                fi.params[1], fi.params[0], fi.params[2])
        ctx.require(ok, 'C13.R7', fi, rets[0] if rets else fi.node,
                    '%s must evaluate _dittus_boelter(Re, Pr(coolant), '
                    'consts) with Re and Pr as separate arguments; got `%s`'
                    % (q, txt), key=fi.full + ' | arguments')


# ---------------------------------------------------------------------------
# C18.R7: user-power labels are 1..N

def c18_r7(ctx):
    """(C18) power._check_component_indexing: the item count N is the LARGEST
    label, so that 'rows = regions x N' together with the per-region
    contiguity test rejects every label set other than 1..N."""
    fi = ctx.repo.func('power', '_check_component_indexing')
    arr = fi.params[0]
    d = [a for a in ast.walk(fi.node) if isinstance(a, ast.Assign)
         and isinstance(a.targets[0], ast.Name)
         and a.targets[0].id == 'N_idx']
    ok = len(d) == 1 and _s(d[0].value) in (
        'np.max(%s[:, 4])' % arr, 'max(%s[:, 4])' % arr,
        '%s[:, 4].max()' % arr, 'np.amax(%s[:, 4])' % arr)
    ctx.require(ok, 'C18.R7', fi, d[0] if d else fi.node,
                'the required item count must be the largest label '
                'np.max(%s[:, 4]) (a count of distinct labels accepts label '
                'sets with gaps)' % arr, key=fi.full + ' | N is max label')
    shape = [c for c in ast.walk(fi.node) if isinstance(c, ast.Compare)
             and _s(c) in ('%s.shape[0] == N_axial_regions * N_idx' % arr,
                           '%s.shape[0] == N_idx * N_axial_regions' % arr,
                           '%s.shape[0] != N_axial_regions * N_idx' % arr)]
    cont = [c for c in ast.walk(fi.node) if isinstance(c, ast.Call)
            and call_name(c) in ('np.allclose', 'np.array_equal')
            and 'np.arange(1, N_idx + 1)' in _s(c)]
    ctx.require(bool(shape) and bool(cont), 'C18.R7', fi, fi.node,
                'row-count test (rows = regions x N) and per-region '
                'contiguity test (labels == 1..N) must both be present',
                key=fi.full + ' | tests present')


# ---------------------------------------------------------------------------
# C19.R7: the nominal temperature rises are read-only in the hot-spot module

def c19_r7(ctx):
    """(C19) the array of nominal rises returned by _get_peak_dt flows,
    whole or as views (slices), through the helpers of hotspot.py into
    calculate_temps.  No function on that flow may store into it or modify
    it in place: the hot-spot temperatures must be built from the nominal
    rises of the peak pin, unchanged."""
    m = ctx.repo.mod('hotspot')
    start = ctx.repo.func('hotspot', 'analyze')
    tainted = {}          # function full name -> set of local names

    def holds(expr):
        """expr is the fresh result of _get_peak_dt, a view of it, or a
        dictionary / conditional expression of such results."""
        x = expr
        while isinstance(x, ast.Subscript):
            x = x.value
        if isinstance(x, ast.Call) and call_name(x) == '_get_peak_dt':
            return True
        if isinstance(x, ast.DictComp):
            return holds(x.value)
        if isinstance(x, ast.IfExp):
            return holds(x.body) or holds(x.orelse)
        return False

    def taint_of(fi, expr, names):
        """Is expr the array / a view of it?"""
        x = expr
        while isinstance(x, ast.Subscript):
            x = x.value
        return (isinstance(x, ast.Name) and x.id in names) or (
            fi is start and holds(expr))

    work = []
    seeds = {a.targets[0].id for a in ast.walk(start.node)
             if isinstance(a, ast.Assign) and len(a.targets) == 1
             and isinstance(a.targets[0], ast.Name)
             and holds(a.value)}
    if not seeds:
        raise AnalysisError('hotspot.analyze: _get_peak_dt result')
    tainted[start.qual] = set(seeds)
    work.append(start)
    seen = set()
    n = 0
    while work:
        fi = work.pop()
        names = tainted[fi.qual]
        key = (fi.qual, tuple(sorted(names)))
        if key in seen:
            continue
        seen.add(key)
        # local aliases / views
        changed = True
        while changed:
            changed = False
            for a in ast.walk(fi.node):
                if isinstance(a, ast.Assign) and len(a.targets) == 1 and \
                        isinstance(a.targets[0], ast.Name) and \
                        a.targets[0].id not in names and \
                        taint_of(fi, a.value, names):
                    names.add(a.targets[0].id)
                    changed = True
        for st in ast.walk(fi.node):
            tgt = None
            if isinstance(st, ast.Assign):
                for t in st.targets:
                    if isinstance(t, ast.Subscript) and taint_of(fi, t, names):
                        tgt = t
            elif isinstance(st, ast.AugAssign) and not getattr(
                    st, '_was_assign', False) and taint_of(
                        fi, st.target, names):
                tgt = st.target
            if tgt is not None:
                ctx.violation('C19.R7', fi, st,
                              'the nominal temperature rises (`%s`) are '
                              'modified in place: the hot-spot sum is then '
                              'built from altered rises (the array is shared '
                              'with the caller)' % _s(tgt),
                              key='%s | store into nominal rises' % fi.full)
        for c in ast.walk(fi.node):
            if not isinstance(c, ast.Call):
                continue
            cn = call_name(c) or ''
            callee = m.funcs.get(cn) if cn in m.funcs else None
            if callee is None or callee.cls is not None:
                continue
            for k, a in enumerate(c.args):
                if taint_of(fi, a, names) and k < len(callee.params):
                    s_ = tainted.setdefault(callee.qual, set())
                    if callee.params[k] not in s_:
                        s_.add(callee.params[k])
                    work.append(callee)
            for kw in c.keywords:
                if kw.arg in callee.params and taint_of(fi, kw.value, names):
                    tainted.setdefault(callee.qual, set()).add(kw.arg)
                    work.append(callee)
        n += 1
    reached = sorted(tainted)
    if not {'_evaluate_hcf_expr', '_eval_expr', 'calculate_temps'} <= set(
            reached):
        raise AnalysisError('C19.R7: flow of the nominal rises reaches only '
                            '%s' % reached)
    ctx.ok('C19.R7', start, None, 'nominal rises read-only along %s'
           % reached)


# ---------------------------------------------------------------------------

def _c15_r8(ctx):
    """(C15) the peak records are per assembly: Assembly.clone gives every
    copy fresh peak containers (rule shared with C06.R1, clone ownership)."""
    from . import c06
    from ..resolve import Resolver
    c06.r1(ctx.alias({'C06.R1': 'C15.R8'}), Resolver(ctx.repo))
    ctx.min_instances('C15.R8', 20)


EXTRA = {
    'C03': [(c03_r8, 'R8 per-assembly power mesh, average and component '
             'profiles come from the position\'s own user-power record')],
    'C04': [(c04_r8, 'R8 the step criteria are evaluated with correlated '
             'parameters of the evaluation temperature (material tracker '
             'off inside calculate_min_dz)'),
            (c05_r6, None)],
    'C05': [(c05_r6, 'R6 adiabatic-wall selection of calculate_min_dz decided '
             'over n_bypass x bypass flow x adiabatic (finite domain)')],
    'C07': [(c07_r6, 'R6 masks of the 0-based pin adjacency arrays never '
             'treat index 0 as "no neighbour"')],
    'C08': [(c08_r8, 'R8 coolant edge / corner centroids are placed against '
             'the innermost duct wall')],
    'C09': [(c09_r7, 'R7 gap cell area from the cell\'s own perimeter share; '
             'no fixed side index into per-side tables')],
    'C10': [(c10_r6, 'R6 gap cell boundaries of a side depend on that side '
             'only')],
    'C11': [(c11_r8, 'R8 no in-place arithmetic through views of the '
             'temperature state arrays')],
    'C12': [(c12_r9, 'R9 with spacer grids every flow-split return comes '
             'from the bundle-plus-grid iteration')],
    'C13': [(c13_r7, 'R7 film correlation Nu = A Re^B Pr^C + D with Re and '
             'Pr as separate arguments')],
    'C15': [(_c15_r8, 'R8 clone ownership of the peak records (= C06.R1)')],
    'C18': [(c18_r7, 'R7 user-power labels: required count is the largest '
             'label; row-count and contiguity tests present')],
    'C19': [(c19_r7, 'R7 the nominal temperature rises are read-only on their '
             'way through hotspot.py (interprocedural alias/view tracking)')],
}


def extra(ctx, prop):
    for fn, text in EXTRA.get(prop, []):
        if prop == 'C04' and fn is c05_r6:
            # the same finite-domain decision is a premise of C04 (which wall
            # the criteria treat as adiabatic)
            fn(ctx.alias({'C05.R6': 'C04.R8'}))
            continue
        fn(ctx)
        if text:
            ctx.decided.append(text)
