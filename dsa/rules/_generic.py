"""Generic nets, instantiated per property on the functions that property
depends on (rule ids Cxx.G1 .. Cxx.G8).

The rules of cXX.py decide clauses somebody wrote down for one function.  The
adversarial rounds (DESIGN 8) showed a second population of breaking changes
that are not about any particular equation: a positional argument in the wrong
slot, an in-place update of an array that belongs to the caller, a value left
over from the last loop iteration standing in for the collection, a record
table sorted column by column.  These are decided here once, over the whole
package, and each hit is attributed to the properties whose mechanism runs
through the function (function-level ownership, below) -- a violation for
those, an advisory for the others.

Ownership.  relevant(P) = functions in which P's own rules registered an
instance + the functions named in P's anchors (properties.jsonl `where`
fields), closed under resolved callees (dsa/resolve.py; by-name resolution
only when the method name is unique to <= 3 classes).  A defect of one of
these kinds in a function of relevant(P) changes a value P's mechanism
consumes.

  G1  argument selection          (rules/_argswap.py)
  G2  parameter-mutation effects  -- frozen effect signatures
  G3  stale loop values           (c20.stale_loop_reads) -- frozen exceptions
  G4  row integrity of tables     (rules/_rowtear.py)
  G5  memo tables in loops        -- the key determines the stored value
  G6  element decides for all     -- fixed element of an iterated collection in a guard
  G7  array as truth value        -- attribute bound to an array by every definition, bare in a test
  G8  process-level state         -- memoisation, module-level containers written (also via attribute / local alias)
"""
import ast
import json
import os
import re

from ..core import (AnalysisError, Module, VERIF, call_name, parent, src,
                    walk_no_nested)
from ..resolve import Resolver, bind_args

# ---------------------------------------------------------------------------
# ownership


def _anchor_functions(repo, prop):
    out = set()
    with open(os.path.join(VERIF, 'properties.jsonl')) as fh:
        for line in fh:
            d = json.loads(line)
            if d['id'] != prop:
                continue
            for k in ('state', 'mechanism'):
                for it in d['anchors'].get(k, []):
                    w = it.get('where') or ''
                    for part in w.split(';'):
                        m = re.match(r'\s*(dassh/[\w/]+\.py)\s*:\s*(.*)', part)
                        if not m:
                            continue
                        rel, names = m.groups()
                        for nm in re.findall(r'[A-Za-z_][\w\.]*', names):
                            last = nm.split('.')[-1]
                            for fi in repo.all_funcs():
                                if fi.mod.rel == rel and fi.name == last:
                                    out.add(fi.full)
    return out


def _instance_functions(ctx):
    out = set()
    byq = {}
    for fi in ctx.repo.all_funcs():
        byq.setdefault((fi.mod.rel, fi.qual), fi)
    for i in ctx.instances:
        m = re.match(r'(dassh/[\w/]+\.py):\d+ \(([^)]+)\)', i['where'])
        if m and (m.group(1), m.group(2)) in byq:
            out.add(byq[(m.group(1), m.group(2))].full)
    return out


_GRAPH = {}


def _call_graph(repo):
    """caller.full -> set(callee.full); by-name edges only for rare names."""
    if id(repo) in _GRAPH:
        return _GRAPH[id(repo)]
    R = Resolver(repo)
    g = {}
    for fi in repo.all_funcs():
        outs = set()
        for c in walk_no_nested(fi.node):
            if not isinstance(c, ast.Call):
                continue
            try:
                cs, how = R.callees(fi, c)
            except Exception:
                continue
            if how == 'by-name' and len(cs) > 3:
                continue
            outs |= {x.full for x in cs}
        g[fi.full] = outs
    _GRAPH[id(repo)] = (g, R)
    return g, R


def relevant(ctx, prop):
    repo = ctx.repo
    g, _ = _call_graph(repo)
    seeds = _anchor_functions(repo, prop) | _instance_functions(ctx)
    # the functions that call an anchor directly wire its result into the
    # model (e.g. Reactor._setup_gap_mesh_params around _map_asm2gap)
    anchors = _anchor_functions(repo, prop)
    ncallers = {}
    for f, outs in g.items():
        for o in outs & anchors:
            ncallers[o] = ncallers.get(o, 0) + 1
    wired = {o for o in anchors if ncallers.get(o, 0) <= 4}   # no hubs (log)
    seeds |= {f for f, outs in g.items() if outs & wired
              and not f.endswith('.__init__')}
    seen = set(seeds)
    work = list(seeds)
    while work:
        f = work.pop()
        for c in g.get(f, ()):
            if c not in seen:
                seen.add(c)
                work.append(c)
    return seen, seeds


# ---------------------------------------------------------------------------
# G2: parameter-mutation effects

MUTATORS = {'sort', 'append', 'extend', 'fill', 'pop', 'insert', 'remove',
            'clear', 'update', 'setdefault', 'reverse', 'resize', 'put',
            'popitem', 'itemset', 'partition', '__setitem__', 'setflags'}
NP_INPLACE = {'np.put', 'np.place', 'np.copyto', 'np.fill_diagonal',
              'np.putmask', 'np.put_along_axis', 'random.shuffle',
              'np.random.shuffle'}
FRESH_CALLS = {'np.array', 'np.asarray_chkfinite', 'np.copy', 'copy.copy',
               'copy.deepcopy', 'deepcopy', 'list', 'dict', 'sorted',
               'np.zeros_like', 'np.ones_like', 'np.sort', 'tuple', 'set',
               'np.concatenate', 'np.hstack', 'np.vstack', 'np.unique'}


def _root(n):
    d = 0
    while isinstance(n, (ast.Subscript, ast.Attribute)):
        n = n.value
        d += 1
    return n, d


def _is_view_index(sl):
    """Basic (non-fancy) index: slices, integer constants, plain names and
    simple arithmetic on them -- the result may share memory."""
    elts = sl.elts if isinstance(sl, ast.Tuple) else [sl]
    for e in elts:
        if isinstance(e, ast.Slice):
            continue
        if isinstance(e, ast.Constant) and (isinstance(e.value, (int, str))
                                            or e.value is Ellipsis):
            continue
        if isinstance(e, ast.Name):
            continue
        if isinstance(e, (ast.BinOp, ast.UnaryOp)) and all(
                isinstance(x, (ast.Name, ast.Constant, ast.BinOp, ast.UnaryOp,
                               ast.operator, ast.unaryop, ast.expr_context))
                for x in ast.walk(e)):
            continue
        return False
    return True


def _has_slice(sl):
    elts = sl.elts if isinstance(sl, ast.Tuple) else [sl]
    return any(isinstance(e, ast.Slice) or (isinstance(e, ast.Constant)
                                            and e.value is Ellipsis)
               for e in elts)


def _alias_of(expr, alias):
    """(param, kind) if expr denotes (part of) a caller-owned object:
    kind 'whole' | 'slice' (surely an array view) | 'elem' (may be scalar)."""
    if isinstance(expr, ast.Name):
        return alias.get(expr.id)
    if isinstance(expr, ast.Subscript):
        base = _alias_of(expr.value, alias)
        if base is None or not _is_view_index(expr.slice):
            return None
        if _has_slice(expr.slice):
            return (base[0], 'slice')
        return (base[0], 'elem')
    if isinstance(expr, ast.Call):
        nm = call_name(expr) or ''
        # reshaping / ravel / transposes keep the memory
        if isinstance(expr.func, ast.Attribute) and expr.func.attr in (
                'reshape', 'ravel', 'view', 'transpose', 'squeeze',
                'swapaxes') and nm.split('.')[0] not in ('np', 'numpy'):
            base = _alias_of(expr.func.value, alias)
            if base is not None:
                return (base[0], 'slice')
        if nm in ('np.asarray', 'np.ravel', 'np.reshape', 'np.transpose',
                  'np.atleast_1d', 'np.atleast_2d', 'np.squeeze') and \
                expr.args:
            base = _alias_of(expr.args[0], alias)
            if base is not None:
                return (base[0], 'slice')
    if isinstance(expr, ast.Attribute) and isinstance(expr.value, ast.Name) \
            and expr.attr == 'T':
        return _alias_of(expr.value, alias)
    return None


def _stmts_in_order(fn_node):
    out = [n for n in walk_no_nested(fn_node, include_self=False)
           if isinstance(n, ast.stmt)]
    out.sort(key=lambda s: (s.lineno, s.col_offset))
    return out


def _arrayish(fn_node, name):
    """The name is used as a container in the function."""
    for n in ast.walk(fn_node):
        if isinstance(n, ast.Subscript) and isinstance(n.value, ast.Name) \
                and n.value.id == name:
            return True
        if isinstance(n, ast.Attribute) and isinstance(n.value, ast.Name) \
                and n.value.id == name and n.attr in (
                    'shape', 'size', 'ndim', 'T', 'dtype'):
            return True
        if isinstance(n, ast.Call) and (call_name(n) or '') == 'len' and \
                n.args and isinstance(n.args[0], ast.Name) and \
                n.args[0].id == name:
            return True
    return False


def local_effects(fi, summaries=None, resolver=None):
    """[(param, stmt, how)] in-place modifications of caller-owned objects in
    one function.  `summaries`: {callee.full: set(params it mutates)}."""
    fn = fi.node
    a = fn.args
    params = [x.arg for x in a.posonlyargs + a.args + a.kwonlyargs]
    if fi.cls is not None and params and params[0] in ('self', 'cls'):
        params = params[1:]
    alias = {p: (p, 'whole') for p in params}
    hits = []
    top = set(id(s) for s in fn.body)

    def mutated(target_root_expr, st, how, need_arrayish=None):
        al = _alias_of(target_root_expr, alias)
        if al is None:
            return
        hits.append((al[0], st, how))

    for st in _stmts_in_order(fn):
        # --- mutations -----------------------------------------------------
        if isinstance(st, ast.AugAssign) and not getattr(
                st, '_was_assign', False):
            t = st.target
            if isinstance(t, ast.Name):
                al = alias.get(t.id)
                if al is not None and (al[1] == 'slice' or (
                        _arrayish(fn, t.id))):
                    hits.append((al[0], st, 'in-place `%s`' % src(st)[:60]))
            elif isinstance(t, ast.Subscript):
                r, _ = _root(t)
                if isinstance(r, ast.Name) and r.id in alias and \
                        _alias_of(t.value, alias) is not None:
                    hits.append((alias[r.id][0], st,
                                 'in-place `%s`' % src(st)[:60]))
            elif isinstance(t, ast.Attribute):
                r, _ = _root(t)
                if isinstance(r, ast.Name) and r.id in alias and \
                        alias[r.id][1] == 'whole' and r.id != 'self':
                    hits.append((alias[r.id][0], st,
                                 'attribute update `%s`' % src(st)[:60]))
        elif isinstance(st, (ast.Assign, ast.AnnAssign)):
            tgs = st.targets if isinstance(st, ast.Assign) else [st.target]
            flat = []
            for t in tgs:
                flat += t.elts if isinstance(t, (ast.Tuple, ast.List)) else [t]
            for t in flat:
                if isinstance(t, ast.Subscript):
                    r, _ = _root(t)
                    if isinstance(r, ast.Name) and r.id in alias and \
                            _alias_of(t.value, alias) is not None:
                        hits.append((alias[r.id][0], st,
                                     'store `%s = ...`' % src(t)[:50]))
                elif isinstance(t, ast.Attribute):
                    r, _ = _root(t)
                    if isinstance(r, ast.Name) and r.id in alias and \
                            alias[r.id][1] == 'whole' and \
                            _alias_of(t.value, alias) is not None:
                        hits.append((alias[r.id][0], st,
                                     'attribute store `%s = ...`'
                                     % src(t)[:50]))
        elif isinstance(st, ast.Delete):
            for t in st.targets:
                if isinstance(t, ast.Subscript):
                    al = _alias_of(t.value, alias)
                    if al is not None:
                        hits.append((al[0], st, '`%s`' % src(st)[:60]))
        # calls anywhere in the statement (not in nested statements)
        own = [st]
        for c in _calls_of_stmt(st):
            nm = call_name(c) or ''
            f = c.func
            if isinstance(f, ast.Attribute) and f.attr in MUTATORS and \
                    nm.split('.')[0] not in ('np', 'numpy', 'os', 'copy'):
                al = _alias_of(f.value, alias)
                if al is not None:
                    hits.append((al[0], st, 'call `%s`' % src(c)[:60]))
            if nm in NP_INPLACE and c.args:
                al = _alias_of(c.args[0], alias)
                if al is not None:
                    hits.append((al[0], st, 'call `%s`' % src(c)[:60]))
            for k in c.keywords:
                if k.arg == 'out':
                    al = _alias_of(k.value, alias)
                    if al is not None:
                        hits.append((al[0], st, '`out=` of `%s`'
                                     % src(c)[:60]))
            if summaries is not None and resolver is not None:
                try:
                    cs, how = resolver.callees(fi, c)
                except Exception:
                    cs, how = [], 'unresolved'
                if len(cs) == 1 and how != 'by-name':
                    cal = cs[0]
                    mut = summaries.get(cal.full, ())
                    if mut:
                        for p, arg in bind_args(c, cal).items():
                            if p in mut:
                                al = _alias_of(arg, alias)
                                if al is not None:
                                    hits.append((al[0], st,
                                                 'passed to %s(), which '
                                                 'modifies its `%s`'
                                                 % (cal.qual, p)))
        # --- alias bookkeeping --------------------------------------------
        if isinstance(st, ast.Assign) and len(st.targets) == 1:
            t = st.targets[0]
            if isinstance(t, ast.Name):
                al = _alias_of(st.value, alias)
                if al is not None and not (isinstance(st.value, ast.Name)
                                           and st.value.id == t.id):
                    # a parameter keeps its own identity unless re-bound at
                    # the top level of the function
                    if t.id in params and id(st) not in top:
                        pass
                    else:
                        alias[t.id] = al
                elif t.id in alias:
                    # re-bound to something that is not caller-owned
                    if id(st) in top or t.id not in params:
                        alias.pop(t.id)
            elif isinstance(t, (ast.Tuple, ast.List)):
                for e in t.elts:
                    if isinstance(e, ast.Name) and e.id in alias and \
                            e.id not in params:
                        alias.pop(e.id)
        elif isinstance(st, ast.For):
            for e in ast.walk(st.target):
                if isinstance(e, ast.Name) and e.id in alias and \
                        e.id not in params:
                    alias.pop(e.id)
    return hits


def _calls_of_stmt(st):
    """Calls in the expressions of a statement, not descending into the
    statements nested in it."""
    out = []

    def rec(n):
        for ch in ast.iter_child_nodes(n):
            if isinstance(ch, ast.stmt):
                continue
            if isinstance(ch, (ast.FunctionDef, ast.Lambda)):
                continue
            if isinstance(ch, ast.Call):
                out.append(ch)
            rec(ch)
    rec(st)
    return out


def effect_signatures(repo):
    """{func.full: {param: [(stmt, how)]}} to a fixpoint over the resolved
    call graph."""
    _, R = _call_graph(repo)
    funcs = [f for f in repo.all_funcs()]
    summ = {}
    detail = {}
    for it in range(6):
        changed = False
        for fi in funcs:
            hs = local_effects(fi, summ, R)
            ps = {p for p, _, _ in hs}
            if ps != summ.get(fi.full, set()):
                summ[fi.full] = ps
                changed = True
            detail[fi.full] = hs
        if not changed:
            break
    return summ, detail


# Effect signatures of the pinned tree, each confirmed by reading: the
# function exists to fill / convert / normalise the object it is handed.
EXPECTED_MUTATIONS = {
    # builders filling the table their caller allocated
    ('dassh.subchannel:Subchannel._connect_int_sc', 'sc_adj'),
    ('dassh.subchannel:Subchannel._connect_int_ext_sc', 'sc_adj'),
    ('dassh.subchannel:Subchannel._connect_ext_sc', 'sc_adj'),
    ('dassh.subchannel:Subchannel._connect_duct_bypass_sc', 'sc_adj'),
    ('dassh.subchannel:Subchannel._find_interior_xy', 'scxy'),
    ('dassh.subchannel:Subchannel._find_corner_xy', 'scxy'),
    ('dassh.subchannel:Subchannel._find_edge_xy', 'scxy'),
    ('dassh.subchannel:Subchannel._step', 'map'),
    # unit conversion of the reader's own dictionary (C17.R1/R2 judge what)
    ('dassh.read_input:convert_length', 'data'),
    ('dassh.read_input:convert_temperature', 'data'),
    ('dassh.read_input:convert_mass_flow_rate', 'data'),
    ('dassh.read_input:DASSHPlot_Input.check_dasshplot_input',
     'all_plot_dict'),
    ('dassh.read_input:DASSHPlot_Input._check_plot_zpts', 'pdict'),
    ('dassh.read_input:DASSHPlot_Input._check_plot_asm_id', 'pdict'),
    # scaling pass over the freshly built power list (C03.R4 judges what)
    ('dassh.reactor:Reactor._setup_scale_asm_power', 'plist'),
    # borrowed Material: saved / restored (C16.R1 restore_rule, C06.R4)
    ('dassh.utils:Q_equals_mCdT', 'coolant_obj'),
    # `power['refl'] = 0` for a None entry of the per-step power dict
    ('dassh.region_unrodded:SingleNodeHomogeneous._calc_coolant_temp',
     'power'),
    # fills the subfactor dictionary it was handed (C19.R6 judges what)
    ('dassh.hotspot:_evaluate_hcf_expr', 'hcf_dict'),
    # regrouping works on the group table handed back to the caller
    ('dassh.orificing:Orificing.regroup', 'data'),
    # argparse namespace
    ('dassh.__main__:_run_dassh', 'args'),
    ('dassh.power:AssemblyPower.__init__', 'power_profiles'),
    ('dassh.power:_check_asm_indexing', 'arr'),
    # transitive (hand the object on to one of the above)
    ('dassh.__main__:run_dassh', 'rx_args'),
    ('dassh.reactor:Reactor._setup_asm', 'asm_power'),
    ('dassh.plot:_load_data', 'z_user'),
    ('dassh.reactor:Reactor._write_asm_duct_table', 'list_ax_pos'),
    ('dassh.reactor:Reactor._write_asm_pin_table', 'list_ax_pos'),
    ('dassh.reactor:Reactor._write_asm_subchannel_table', 'list_ax_pos'),
    ('dassh.read_input:DASSHPlot_Input.check_CoreHexPlot_input', 'chp_dict'),
    ('dassh.read_input:DASSHPlot_Input.check_CorePinPlot_input', 'cpp_dict'),
    ('dassh.read_input:DASSHPlot_Input.check_CoreSubchannelPlot_input',
     'cscp_dict'),
    ('dassh.read_input:DASSHPlot_Input.check_PinPlot_input', 'pp_dict'),
    ('dassh.read_input:DASSHPlot_Input.check_SubchannelPlot_input',
     'scp_dict'),
    # plotting (outside every property)
    ('dassh.plot:CorePinPlot.plot', 'data'),
    ('dassh.plot:_interp_z', 'z_requested'),
    ('dassh.plot:_prepare_input', 'plot_data'),
}

MUT_POSITIVE = """
import numpy as np
def helper(t, w):
    v = t[1:]
    v *= w
    return v
def outer(temps, w):
    d = temps[0, :]
    return helper(d, w)
def harmless(x, n):
    x = np.array(x)
    x[0] = n
    n += 1
    y = x[n]
    y += 1
    return x
"""


def g2(ctx, prop, rel, rule):
    repo = ctx.repo
    summ, detail = effect_signatures(repo)
    n = 0
    outside = []
    for full, hs in sorted(detail.items()):
        if full.startswith('dassh.py4c'):
            continue
        seen = set()
        fi = None
        for p, st, how in hs:
            if (full, p) in EXPECTED_MUTATIONS or p in seen:
                continue
            seen.add(p)
            if fi is None:
                fi = [f for f in repo.all_funcs() if f.full == full][0]
            msg = ('%s() modifies its argument `%s` in place (%s): the '
                   'object belongs to the caller, which goes on using it'
                   % (fi.qual, p, how))
            if full in rel:
                ctx.violation(rule, fi, st, msg,
                              key='%s | mutates parameter %s' % (full, p))
            else:
                outside.append('%s(%s)' % (fi.qual, p))
        n += 1
    got = {(f, p) for f, ps in summ.items() for p in ps}
    if len(got & EXPECTED_MUTATIONS) < 18:
        raise AnalysisError('%s: only %d of the %d recorded parameter-'
                            'mutation effects found (rule went blind)'
                            % (rule, len(got & EXPECTED_MUTATIONS),
                               len(EXPECTED_MUTATIONS)))
    pm = Module('dassh._positive', '<positive>', 'dassh/_positive.py',
                MUT_POSITIVE)

    class _R:
        modules = {'dassh._positive': pm}

        @staticmethod
        def all_funcs():
            return list(pm.funcs.values())
    ps, _ = None, None
    s1 = {p for p, _, _ in local_effects(pm.funcs['helper'])}
    s3 = {p for p, _, _ in local_effects(pm.funcs['harmless'])}
    if s1 != {'t'} or s3:
        raise AnalysisError('%s positive example: helper %s harmless %s'
                            % (rule, s1, s3))
    ctx.ok(rule, 'dassh', None,
           '%d functions: %d parameter-mutation effects, %d in the frozen '
           'table of %d, %d new ones outside this property%s; synthetic '
           'positive/negative examples decided'
           % (n, len(got), len(got & EXPECTED_MUTATIONS),
              len(EXPECTED_MUTATIONS), len(outside),
              (' (' + ', '.join(outside[:6]) + ')') if outside else ''))


# ---------------------------------------------------------------------------
# G3: stale loop values

# (function, name): reason -- confirmed by reading
STALE_OK = {
    ('dassh.core:Core._calculate_sc_wp', 'i'):
        'wrap-around term: i + 1 is the last cell after the loop over n - 1',
    ('dassh.core:Core._calculate_asm_sc_wp', 'i'):
        'wrap-around term: i + 1 is the last cell after the loop over n - 1',
    ('dassh.pin_model:PinModel.calc_fuel_temps', 'T_in1'):
        'recurrence over the shells: the last iterate IS the centreline',
    ('dassh.power:_from_file', 'dim3'):
        'the axial dimension is the same for the three components',
    ('dassh.read_input:DASSH_Input.check_assignment_boundary_conditions',
     'bc'): 'exactly one key matches (nkwarg == 1 enforced before the read)',
}


def _has_break(lp):
    for n in ast.walk(lp):
        if isinstance(n, ast.Break):
            # the break must belong to this loop
            p_ = parent(n)
            while p_ is not None and not isinstance(p_, (ast.For, ast.While)):
                p_ = parent(p_)
            if p_ is lp:
                return True
    return False


def g3(ctx, prop, rel, rule):
    from .c20 import stale_loop_reads, STALE_POSITIVE
    n = 0
    outside = 0
    for fi in ctx.repo.all_funcs():
        if fi.mod.name.startswith('dassh.py4c'):
            continue
        n += 1
        for lp, x in stale_loop_reads(fi.node):
            if (fi.full, x.id) in STALE_OK:
                continue
            tnames = {y.id for y in ast.walk(lp.target)
                      if isinstance(y, ast.Name)}
            if _has_break(lp):
                # search idiom: the value at the break is the result
                continue
            msg = ('`%s` is %s of the loop at line %d and is read after the '
                   'loop has ended: it holds what the last iteration left '
                   'behind, not the collection'
                   % (x.id, 'the loop variable' if x.id in tnames
                      else 'a value bound only inside the body', lp.lineno))
            if fi.full in rel:
                ctx.violation(rule, fi, x, msg,
                              key='%s | stale loop value %s' % (fi.full, x.id))
            else:
                outside += 1
    pm = Module('dassh._positive', '<positive>', 'dassh/_positive.py',
                STALE_POSITIVE)
    if len(stale_loop_reads(pm.funcs['summarize'].node)) != 1:
        raise AnalysisError('%s positive example not detected' % rule)
    ctx.ok(rule, 'dassh', None, '%d functions scanned; %d frozen exceptions; '
           '%d hits outside this property; synthetic positive example '
           'detected' % (n, len(STALE_OK), outside))


# ---------------------------------------------------------------------------
# G1 / G4

def g1(ctx, prop, rel, rule):
    from . import _argswap
    n, hits = _argswap.scan(ctx.repo)
    if n < 1500:
        raise AnalysisError('%s: only %d positional bindings resolved'
                            % (rule, n))
    for fi, call, callee, p, a in hits:
        msg = ('argument `%s` is passed in the position of parameter `%s` of '
               '%s(), which has a parameter named `%s`'
               % (a, p, callee.qual, a.split('.')[-1]))
        if fi.full in rel or callee.full in rel:
            ctx.violation(rule, fi, call, msg,
                          key='%s | %s arg %s' % (fi.full, callee.qual, a))
    ctx.ok(rule, 'dassh', None, '%d positional argument bindings over the '
           'resolved call graph; %d name-mismatched package-wide'
           % (n, len(hits)))


def g4(ctx, prop, rel, rule):
    from . import _rowtear
    n = 0
    for fi in ctx.repo.all_funcs():
        cls = fi.cls.node if fi.cls is not None else None
        n += 1
        for c in _rowtear.tears(fi.node, cls):
            msg = ('`%s` sorts a record table column by column (axis 0): the '
                   'rows are torn apart' % ' '.join(src(c).split())[:80])
            if fi.full in rel:
                ctx.violation(rule, fi, c, msg,
                              key='%s | row tear' % fi.full)
    ctx.ok(rule, 'dassh', None, '%d functions scanned' % n)


def run(ctx, prop):
    rel, seeds = relevant(ctx, prop)
    ctx.extra['generic_nets_scope'] = {
        'functions_relevant': len(rel), 'entry_functions': len(seeds)}
    if len(seeds) < 3:
        raise AnalysisError('generic nets: only %d entry functions for %s'
                            % (len(seeds), prop))
    g1(ctx, prop, rel, prop + '.G1')
    g2(ctx, prop, rel, prop + '.G2')
    g3(ctx, prop, rel, prop + '.G3')
    g4(ctx, prop, rel, prop + '.G4')
    g5(ctx, prop, rel, prop + '.G5')
    g6(ctx, prop, rel, prop + '.G6')
    g7(ctx, prop, rel, prop + '.G7')
    g8(ctx, prop, rel, prop + '.G8')
    ctx.decided.append(
        'G1-G4 generic nets over the functions this property depends on '
        '(%d, closure of %d entry functions under resolved callees): no '
        'positional argument in another parameter\'s slot; no in-place '
        'modification of a caller-owned argument outside the frozen effect '
        'table; no value left over from a finished loop read in place of the '
        'collection; no column-wise sort of a record table; every memo table '
        'filled inside a loop is keyed by everything its values depend on; '
        'no decision about a collection is taken from one fixed element; no '
        'array-valued attribute is used as a truth value; no memoisation or '
        'module-level container written by package functions'
        % (len(rel), len(seeds)))


# ---------------------------------------------------------------------------
# G5: memo tables inside loops -- the key covers what the value depends on

MEMO_POSITIVE = """
def build(self):
    maps = {}
    for a in range(len(self.assemblies)):
        asm = self.assemblies[a]
        if asm.name not in maps:
            maps[asm.name] = make_map(asm.region[0].xb(), self.core.xb[a])
        asm.m = maps[asm.name]
def fine(self):
    seen = {}
    for a in range(len(self.assemblies)):
        asm = self.assemblies[a]
        if asm.name not in seen:
            seen[asm.name] = lookup(asm.name)
        if a not in seen:
            seen[a] = make_map(asm.region[0].xb(), self.core.xb[a])
"""


def _strip_keys(e):
    if isinstance(e, ast.Call) and isinstance(e.func, ast.Attribute) and \
            e.func.attr == 'keys' and not e.args:
        return e.func.value
    return e


def _paths(e, hidden=frozenset()):
    """Maximal Name/Attribute/Subscript chains in an expression as source
    strings (indices of subscripts contribute their own chains too).
    Comprehension variables are bound to what they iterate over."""
    out = []

    def rec(n, env):
        if isinstance(n, (ast.ListComp, ast.SetComp, ast.GeneratorExp,
                          ast.DictComp)):
            env = dict(env)
            for g in n.generators:
                rec(g.iter, env)
                its = src(g.iter)
                for x in ast.walk(g.target):
                    if isinstance(x, ast.Name):
                        env[x.id] = its
                for c in g.ifs:
                    rec(c, env)
            for f_ in ('elt', 'key', 'value'):
                if hasattr(n, f_):
                    rec(getattr(n, f_), env)
            return
        if isinstance(n, ast.Lambda):
            return
        if isinstance(n, (ast.Name, ast.Attribute, ast.Subscript)):
            r = n
            slices = []
            while isinstance(r, (ast.Attribute, ast.Subscript)):
                if isinstance(r, ast.Subscript):
                    slices.append(r.slice)
                r = r.value
            if isinstance(r, ast.Name):
                # (the indices are part of the chain's text)
                s_ = src(n)
                if r.id in env:
                    # element of the iterated collection
                    s_ = env[r.id] + '[*]' + s_[len(r.id):]
                out.append(s_)
                for sl in slices:
                    # comprehension variables inside an index
                    if any(isinstance(x, ast.Name) and x.id in env
                           for x in ast.walk(sl)):
                        rec(sl, env)
                return
            rec(r, env)
            for sl in slices:
                rec(sl, env)
            return
        if isinstance(n, ast.Call):
            # a method call on a chain depends on the whole receiver
            if isinstance(n.func, ast.Attribute):
                rec(n.func.value, env)
            elif not isinstance(n.func, ast.Name):
                rec(n.func, env)
            for a_ in n.args:
                rec(a_.value if isinstance(a_, ast.Starred) else a_, env)
            for k_ in n.keywords:
                rec(k_.value, env)
            return
        for ch in ast.iter_child_nodes(n):
            rec(ch, env)
    rec(e, {})
    return out


def memo_violations(fn_node):
    """[(store stmt, key src, uncovered dependency, loop)] for memo tables
    filled inside a loop whose key does not determine the stored value."""
    hits = []
    n_memo = 0
    body_stmts = [s for s in walk_no_nested(fn_node, include_self=False)
                  if isinstance(s, ast.stmt)]
    for lp in body_stmts:
        if not isinstance(lp, (ast.For, ast.While)):
            continue
        inside = [s for s in ast.walk(lp) if isinstance(s, ast.stmt)
                  and s is not lp]
        # membership tests on a container inside the loop
        tests = []
        for n in ast.walk(lp):
            if isinstance(n, ast.Compare) and len(n.ops) == 1 and \
                    isinstance(n.ops[0], (ast.In, ast.NotIn)):
                tests.append((src(_strip_keys(n.comparators[0])),
                              src(n.left)))
            if isinstance(n, ast.Call) and isinstance(n.func, ast.Attribute) \
                    and n.func.attr == 'get' and len(n.args) >= 1:
                tests.append((src(n.func.value), src(n.args[0])))
        if not tests:
            continue
        # loop-varying names: targets of this loop and of loops nested in it,
        # and locals bound inside it
        defs = {}
        varying = set()
        if isinstance(lp, ast.For):
            varying |= {x.id for x in ast.walk(lp.target)
                        if isinstance(x, ast.Name)}
        # in `for k, v in X.items()` / `for i, v in enumerate(X)` the second
        # target is a function of the first
        determined = {}
        for s in [lp] + inside:
            if isinstance(s, ast.For) and isinstance(s.target, ast.Tuple) \
                    and len(s.target.elts) == 2 and isinstance(
                        s.target.elts[0], ast.Name) and isinstance(
                        s.iter, ast.Call):
                f_ = s.iter.func
                if (isinstance(f_, ast.Attribute) and f_.attr == 'items') or \
                        (isinstance(f_, ast.Name) and f_.id == 'enumerate'):
                    for x in ast.walk(s.target.elts[1]):
                        if isinstance(x, ast.Name):
                            determined[x.id] = s.target.elts[0].id
        for s in inside:
            if isinstance(s, ast.For):
                its = s.iter
                for x in ast.walk(s.target):
                    if isinstance(x, ast.Name):
                        defs.setdefault(x.id, []).append(its)
            elif isinstance(s, ast.Assign):
                for t in s.targets:
                    for x in (t.elts if isinstance(t, (ast.Tuple, ast.List))
                              else [t]):
                        if isinstance(x, ast.Name):
                            defs.setdefault(x.id, []).append(s.value)
            elif isinstance(s, ast.AugAssign) and isinstance(
                    s.target, ast.Name):
                defs.setdefault(s.target.id, []).append(s.value)

        def expand(paths, depth=0):
            """Replace locals bound in the loop by what they were built
            from, to a fixpoint; result: paths rooted outside the loop or at
            a loop target."""
            out = set()
            for p_ in paths:
                root = re.match(r'[A-Za-z_]\w*', p_).group(0)
                if root in defs and depth < 6:
                    rest = p_[len(root):]
                    for d in defs[root]:
                        sub = _paths(d)
                        if isinstance(d, (ast.Name, ast.Attribute,
                                          ast.Subscript)) and len(sub) >= 1 \
                                and src(d) == sub[-1]:
                            # plain alias: keep the access chain
                            out |= expand([sub[-1] + rest], depth + 1)
                        elif isinstance(d, ast.Call) and (call_name(d) or ''
                                                          ) == 'enumerate':
                            out |= expand([x + '[*]' + rest for x in _paths(
                                d.args[0])] if rest or True else [],
                                depth + 1)
                        else:
                            out |= expand(sub, depth + 1)
                else:
                    out.add(p_)
            return out

        def is_varying(p_):
            names = set(re.findall(r'[A-Za-z_]\w*', p_))
            return bool(names & varying)

        for s in inside:
            if not isinstance(s, ast.Assign):
                continue
            for t in s.targets:
                if not isinstance(t, ast.Subscript):
                    continue
                D, K = src(t.value), src(t.slice)
                if (D, K) not in tests:
                    continue
                # D must outlive one pass of the loop: not bound inside it
                droot = re.match(r'[A-Za-z_]\w*', D).group(0)
                if droot in defs or droot in varying:
                    continue
                # ... and be one object for all passes (a per-pass record
                # such as data[...][i] is not a memo table)
                if any(is_varying(x) for x in expand(_paths(t.value))):
                    continue
                n_memo += 1
                kpaths = expand(_paths(t.slice))
                vpaths = expand(_paths(s.value))
                for vp in sorted(vpaths):
                    if not is_varying(vp):
                        continue
                    # blank out every occurrence of a key path: what is
                    # left must not vary with the loop
                    rest = vp
                    for kp in sorted(kpaths, key=len, reverse=True):
                        rest = re.sub(r'(?<![\w.])' + re.escape(kp)
                                      + r'(?!\w)', '#', rest)
                    if not is_varying(rest):
                        continue
                    # what is left is a function of a key component
                    knames = set()
                    for kp in kpaths:
                        knames |= set(re.findall(r'[A-Za-z_]\w*', kp))
                    left = set(re.findall(r'[A-Za-z_]\w*', rest)) & varying
                    if left and all(determined.get(x) in knames
                                    for x in left):
                        continue
                    hits.append((s, K, vp, lp))
                    break
    return hits, n_memo


# (function, table, key): reason -- confirmed by reading
MEMO_OK = {
    ('dassh.power:_from_file', 'params', "'zfm'"):
        'the axial fine mesh of the first component; every later component '
        'is checked against it (_check_axial_reg_between_materials)',
}


def g5(ctx, prop, rel, rule):
    n = 0
    nm = 0
    for fi in ctx.repo.all_funcs():
        if fi.mod.name.startswith('dassh.py4c'):
            continue
        n += 1
        hits, k = memo_violations(fi.node)
        nm += k
        done = set()
        for st, K, dep, lp in sorted(hits, key=lambda h: h[3].lineno):
            if id(st) in done or (fi.full, src(st.targets[0].value), K) \
                    in MEMO_OK:
                continue
            done.add(id(st))
            msg = ('the table `%s` is filled inside the loop at line %d under '
                   'the key `%s` and read back in later passes, but the '
                   'stored value also depends on `%s`, which the key does '
                   'not determine: a later pass with the same key and '
                   'another `%s` gets the value computed for the first'
                   % (src(st.targets[0].value), lp.lineno, K, dep, dep))
            if fi.full in rel:
                ctx.violation(rule, fi, st, msg,
                              key='%s | memo key %s misses %s'
                              % (fi.full, K, dep))
    pm = Module('dassh._positive', '<positive>', 'dassh/_positive.py',
                MEMO_POSITIVE)
    h1, k1 = memo_violations(pm.funcs['build'].node)
    h2, k2 = memo_violations(pm.funcs['fine'].node)
    if len(h1) != 1 or h2 or k2 != 2:
        raise AnalysisError('%s positive example: %s / %s (%d memo tables)'
                            % (rule, [(h[1], h[2]) for h in h1],
                               [(h[1], h[2]) for h in h2], k2))
    ctx.ok(rule, 'dassh', None, '%d functions scanned, %d memo tables filled '
           'inside loops; synthetic positive/negative examples decided'
           % (n, nm))


# ---------------------------------------------------------------------------
# G6: one element of a collection decides for the collection

ELEM_POSITIVE = """
def step(self, z):
    if self.assemblies[0].check_region_update(z):
        for ai in range(len(self.assemblies)):
            self.assemblies[ai].update_region(z)
def fine(self, z):
    for ai in range(len(self.assemblies)):
        if self.assemblies[ai].check_region_update(z):
            self.assemblies[ai].update_region(z)
    if len(self.assemblies) > 0 and self.flag:
        return self.assemblies[0]
"""

# (function, collection): reason -- confirmed by reading
ELEM_OK = {
    ('dassh.assembly:Assembly.__init__', 'self.region'):
        'after sorting: is the FIRST region rodded? (decides the inlet '
        'region only, which is what it is used for)',
    ('dassh.orificing:Orificing.run_parametric', 'asm_obj'):
        'the last element is the assembly appended in this very pass',
    ('dassh.read_input:DASSH_Input.axial_region_cleanup', 'geodst'):
        'the first GEODST file is the reference mesh; the loop (from 1) '
        'checks every other file against it',
}


def _iterated_collections(fn_node):
    its = {}
    for lp in walk_no_nested(fn_node):
        if not isinstance(lp, ast.For):
            continue
        it = lp.iter
        got = []
        if isinstance(it, ast.Call) and isinstance(it.func, ast.Name) and \
                it.func.id in ('range', 'enumerate', 'zip', 'reversed'):
            for a in ast.walk(it):
                if isinstance(a, ast.Call) and isinstance(a.func, ast.Name) \
                        and a.func.id == 'len' and a.args:
                    got.append(src(a.args[0]))
            if it.func.id in ('enumerate', 'zip', 'reversed'):
                got += [src(a) for a in it.args
                        if isinstance(a, (ast.Name, ast.Attribute,
                                          ast.Subscript))]
        elif isinstance(it, (ast.Name, ast.Attribute, ast.Subscript)):
            got.append(src(it))
        for g_ in got:
            its.setdefault(g_, []).append(lp)
    return its


def element_decisions(fn_node):
    """[(test node, collection, subscript)]: an `if`/`while` test that reads
    a fixed element X[c] of a collection X which the same function iterates
    over, where the loop over X lies inside the guarded statement or the
    guarded statement inside the loop."""
    its = _iterated_collections(fn_node)
    if not its:
        return []
    single = {}
    for st in walk_no_nested(fn_node):
        if isinstance(st, ast.Assign) and len(st.targets) == 1 and \
                isinstance(st.targets[0], ast.Name):
            single.setdefault(st.targets[0].id, []).append(st.value)
    hits = []
    for st in walk_no_nested(fn_node):
        if not isinstance(st, (ast.If, ast.While)):
            continue
        exprs = [st.test]
        for nme in [x for x in ast.walk(st.test) if isinstance(x, ast.Name)]:
            if len(single.get(nme.id, [])) == 1:
                exprs.append(single[nme.id][0])
        for e in exprs:
            for x in ast.walk(e):
                if not (isinstance(x, ast.Subscript)
                        and src(x.value) in its):
                    continue
                sl = x.slice
                fixed = isinstance(sl, ast.Constant) and isinstance(
                    sl.value, int) or (
                        isinstance(sl, ast.UnaryOp)
                        and isinstance(sl.op, ast.USub)
                        and isinstance(sl.operand, ast.Constant))
                if not fixed:
                    continue
                coll = src(x.value)
                loops = its[coll]
                related = False
                for lp in loops:
                    # loop inside the guarded statement
                    if any(n_ is lp for n_ in ast.walk(st)):
                        related = True
                    # guarded statement inside the loop
                    if any(n_ is st for n_ in ast.walk(lp)):
                        related = True
                if related:
                    hits.append((st, coll, x))
    return hits


def g6(ctx, prop, rel, rule):
    n = 0
    for fi in ctx.repo.all_funcs():
        if fi.mod.name.startswith('dassh.py4c'):
            continue
        n += 1
        done = set()
        for st, coll, x in element_decisions(fi.node):
            if (fi.full, coll) in ELEM_OK or (id(st), coll) in done:
                continue
            done.add((id(st), coll))
            msg = ('the decision `%s` reads the fixed element `%s` of `%s`, '
                   'a collection this function goes through element by '
                   'element in the statement it guards: one member decides '
                   'for all of them'
                   % (' '.join(src(st.test).split())[:70], src(x), coll))
            if fi.full in rel:
                ctx.violation(rule, fi, st, msg,
                              key='%s | fixed element %s decides'
                              % (fi.full, src(x)))
    pm = Module('dassh._positive', '<positive>', 'dassh/_positive.py',
                ELEM_POSITIVE)
    if len(element_decisions(pm.funcs['step'].node)) != 1 or \
            element_decisions(pm.funcs['fine'].node):
        raise AnalysisError('%s positive example not decided' % rule)
    ctx.ok(rule, 'dassh', None, '%d functions scanned; %d frozen exceptions; '
           'synthetic positive/negative examples decided'
           % (n, len(ELEM_OK)))


# ---------------------------------------------------------------------------
# G7: an array-valued attribute is not a truth value

TRUTH_POSITIVE = """
import numpy as np
class R:
    def __init__(self, n, f):
        self.flow = np.ones(n) * f
        self.total = 0.0
    def step(self):
        if self.flow > 0:
            return 1
        return 0
    def fine(self):
        if np.sum(self.flow) > 0 and self.total > 0 and self.flow is not None:
            return 1
        return 2 if self.flow[0] > 0 else 0
"""
_ARRAY_MAKERS = ('np.ones', 'np.zeros', 'np.array', 'np.arange',
                 'np.linspace', 'np.empty', 'np.full', 'np.ones_like',
                 'np.zeros_like')


def _array_valued(v):
    if isinstance(v, ast.Call) and (call_name(v) or '') in _ARRAY_MAKERS:
        if (call_name(v) or '') == 'np.array' and v.args and isinstance(
                v.args[0], ast.Constant):
            return False          # 0-d array of one number
        return True
    if isinstance(v, ast.BinOp):
        return _array_valued(v.left) or _array_valued(v.right)
    return False


def array_truth_tests(repo, ci):
    """[(method, test node, attribute)]: `self.a` is bound to an array
    expression by EVERY definition in the class hierarchy, and appears as a
    bare operand of a truth test (if / while / conditional expression /
    assert), not reduced (np.sum / any / all / len) and not subscripted: the
    test raises ValueError as soon as the array has more than one element."""
    defs = {}
    for c in repo.mro(ci):
        for m in c.methods.values():
            for n in ast.walk(m.node):
                if isinstance(n, ast.Assign):
                    for t in n.targets:
                        if isinstance(t, ast.Attribute) and isinstance(
                                t.value, ast.Name) and t.value.id == 'self':
                            defs.setdefault(t.attr, []).append(n.value)
    arr = {a for a, vs in defs.items()
           if vs and all(_array_valued(v) for v in vs)}
    out = []
    if not arr:
        return out, 0
    n_tests = 0
    for m in ci.methods.values():
        for n in ast.walk(m.node):
            if not isinstance(n, (ast.If, ast.While, ast.IfExp, ast.Assert)):
                continue
            parts = [n.test]
            while parts:
                e = parts.pop()
                if isinstance(e, ast.BoolOp):
                    parts += e.values
                    continue
                if isinstance(e, ast.UnaryOp) and isinstance(e.op, ast.Not):
                    parts.append(e.operand)
                    continue
                n_tests += 1
                if isinstance(e, ast.Compare) and all(
                        isinstance(op, (ast.Is, ast.IsNot, ast.In, ast.NotIn))
                        for op in e.ops):
                    continue
                ops = [e] if not isinstance(e, ast.Compare) else \
                    [e.left] + e.comparators
                for o in ops:
                    if isinstance(o, ast.Attribute) and isinstance(
                            o.value, ast.Name) and o.value.id == 'self' \
                            and o.attr in arr:
                        out.append((m, n, o.attr))
    return out, n_tests


def g7(ctx, prop, rel, rule):
    n = 0
    for ci in ctx.repo.all_classes():
        if ci.mod.name.startswith('dassh.py4c'):
            continue
        hits, k = array_truth_tests(ctx.repo, ci)
        n += k
        for m, node, attr in hits:
            msg = ('`self.%s` is an array by every definition in %s (one '
                   'entry per bypass gap / duct / node), but `%s` uses it as '
                   'a truth value: with more than one entry the test raises '
                   'ValueError -- the configurations with several entries '
                   'cannot be computed at all'
                   % (attr, ci.name, ' '.join(src(node.test).split())[:60]))
            if m.full in rel:
                ctx.violation(rule, m, node, msg,
                              key='%s | array %s as truth value'
                              % (m.full, attr))
    pm = Module('dassh._positive', '<positive>', 'dassh/_positive.py',
                TRUTH_POSITIVE)

    class _R:
        @staticmethod
        def mro(ci):
            return [ci]
    h, _ = array_truth_tests(_R, pm.classes['R'])
    if [(m.name, a) for m, _, a in h] != [('step', 'flow')]:
        raise AnalysisError('%s positive example: %s'
                            % (rule, [(m.name, a) for m, _, a in h]))
    ctx.ok(rule, 'dassh', None, '%d truth tests of classes with array-valued '
           'attributes examined; synthetic positive/negative example decided'
           % n)


# ---------------------------------------------------------------------------
# G8: nothing survives in the process from one object / model to the next

def g8(ctx, prop, rel, rule):
    """Memoising decorators, functions writing module-level containers
    (directly, through a local or through an attribute bound to the container
    itself), rebinding of module globals, mutated mutable defaults: the scan
    of C16.R4, attributed by function scope."""
    from . import c16
    n = 0
    for m in ctx.repo.modules.values():
        if m.name.startswith('dassh.py4c'):
            continue
        for fi, node, what in c16._r4_scan(m):
            n += 1
            # a memoised function is shared state for everything that calls it
            scope = {fi.full}
            if 'memoised' in what:
                g, _ = _call_graph(ctx.repo)
                scope |= {f for f, outs in g.items() if fi.full in outs}
            if scope & rel:
                ctx.violation(
                    rule, fi, node,
                    '%s %s: every object built later in the process (another '
                    'assembly type, the next time point, the next Reactor) '
                    'sees what earlier ones left there' % (fi.qual, what),
                    key='%s | process state %s' % (
                        fi.full, ' '.join(src(node).split())[:60]))
    pm = Module('dassh._positive', '<positive>', 'dassh/_positive.py',
                c16.R4_POSITIVE)
    if len(c16._r4_scan(pm)) != 4:
        raise AnalysisError('%s positive example' % rule)
    ctx.ok(rule, 'dassh', None, '%d process-state sites package-wide; '
           'synthetic positive example (4 hits) detected' % n)
