"""C12.R10 -- one family, one set of subchannel friction constants.

Clause (necessary for "the common subchannel pressure gradient is the one
given by the bundle friction factor"): the constants record a friction or
flow-split correlation hands to the region at set-up is *coherent* --

 (a) every entry has ONE symbolic value, no matter which branch of a
     stored-constant recompute idiom (`try: v = X.corr_constants[slot][k]
     except ...: v = <recompute>`, also spelled with `if`/`hasattr`) ran,
     once a read of the occupant's own slot is identified with the entry of
     the record under construction;
 (b) a derived entry is built from the record's own base entries: the bundle
     constant `Cf_b` from `Cf_sc`, the regime ratios `xr` from `Cf_sc`, the
     constant splits `fs` from `xr` and `na` (Cheng-Todreas: f_b is the
     flow-split weighted aggregate of the subchannel constants the split
     equalises);
 (c) the friction and the flow-split correlation of the same name carry the
     same value under every key they share (`Cf_sc`, `Re_bnds`, ...).

How it is decided: the constants function of every occupant of the `ff` and
`fs` slots (slot tables of C12, finite-domain evaluation of the importers) is
evaluated by a small symbolic interpreter of the checker (`Prov`): values are
*sets of alternative terms*; a term is a record (dict built by display /
keyed stores / `del`) or a canonical string.  Calls into the package are
resolved and inlined when the callee is straight-line (assignments, returns,
`try`, `if`, and `for` loops / list and dict comprehensions over a sequence of
known length -- a display, a list built by appends, enumerate / zip / constant
range of such -- which are the sequence of their passes; lists and tuples are
values, `Seq`); any other callee is a leaf term `module:function(arg terms)`
and must not read stored constants itself (else exit 2).  Keys and callees are
taken by value: a local bound to `'Cf_sc'` or to a package function is that
key / that function.  `try` contributes
the union of body and handlers, an `if` on a stored constant likewise, any
other `if` a single `ite(test; a; b)` term (constant tests are folded).
Nothing is matched by source form: renaming, hoisting, helpers, keyword
arguments, dict displays and commuted operands give the same terms.
"""
import ast
import itertools
import re

from ..core import AnalysisError, const, dotted, src, walk_no_nested
from ..resolve import Resolver, bind_args
from . import c12 as C12

PROPS = ('C12',)
RULE = 'C12.R10'

SLOTS = ('ff', 'fs')
# derived entry -> base entries it is a function of (trusted table: Cheng &
# Todreas 1986 eqs. 13-14 / 27-30; Chen et al. 2018)
DEPENDS = {'Cf_b': ('Cf_sc',), 'xr': ('Cf_sc',), 'fs': ('xr', 'na')}
MAX_ALT = 512
MAX_STEPS = 40000
MAX_UNROLL = 24
STORED = 'STORED'
_TOK = re.compile(r"STORED(?:\[(?:'[^']*'|-?\d+)\])+")


class _Leaf(Exception):
    """The function cannot be inlined by the interpreter."""


class _Bind(ast.stmt):
    """Synthetic statement of an unrolled loop: bind the loop target to the
    value of one pass."""
    _fields = ()

    def __init__(self, target, value):
        ast.stmt.__init__(self)
        self.target, self.value = target, value


class Rec:
    """Immutable record: key -> frozenset of values."""
    __slots__ = ('items', '_h')

    def __init__(self, d):
        self.items = tuple(sorted(((k, frozenset(v)) for k, v in d.items()),
                                  key=lambda kv: repr(kv[0])))
        self._h = hash(self.items)

    def d(self):
        return dict(self.items)

    def __hash__(self):
        return self._h

    def __eq__(self, o):
        return isinstance(o, Rec) and self.items == o.items

    def __repr__(self):
        return 'Rec(%s)' % ', '.join(repr(k) for k, _ in self.items)


class Seq:
    """Immutable sequence (list / tuple display, list built by appends):
    position -> frozenset of values.  Renders as the display it stands for."""
    __slots__ = ('elts', '_h')

    def __init__(self, elts):
        self.elts = tuple(frozenset(x) for x in elts)
        self._h = hash(('Seq', self.elts))

    def __hash__(self):
        return self._h

    def __eq__(self, o):
        return isinstance(o, Seq) and self.elts == o.elts

    def __repr__(self):
        return 'Seq(%d)' % len(self.elts)


def _cap(n, what):
    if n > MAX_ALT:
        raise AnalysisError('%s: more than %d alternative values for %s'
                            % (RULE, MAX_ALT, what))


def render(vals):
    """frozenset of values -> sorted list of strings (records expanded to
    the cross product of their entries' alternatives)."""
    out = set()
    for v in vals:
        if isinstance(v, Rec):
            keys = [k for k, _ in v.items]
            alts = [render(x) for _, x in v.items]
            n = 1
            for a in alts:
                n *= max(1, len(a))
            _cap(n, 'a record')
            for combo in itertools.product(*alts):
                out.add('{' + ', '.join('%r: %s' % (k, c) for k, c in
                                        zip(keys, combo)) + '}')
        elif isinstance(v, Seq):
            out |= _prod([render(x) for x in v.elts],
                         lambda c_: '[' + ', '.join(c_) + ']')
        else:
            out.add(v)
    return sorted(out)


def _prod(parts, fmt):
    n = 1
    for p in parts:
        n *= max(1, len(p))
    _cap(n, 'an expression')
    return frozenset(fmt(c) for c in itertools.product(*parts))


_BIN = {ast.Add: '+', ast.Sub: '-', ast.Mult: '*', ast.Div: '/',
        ast.Pow: '**', ast.FloorDiv: '//', ast.Mod: '%', ast.MatMult: '@',
        ast.BitAnd: '&', ast.BitOr: '|', ast.BitXor: '^',
        ast.LShift: '<<', ast.RShift: '>>'}
_CMP = {ast.Eq: '==', ast.NotEq: '!=', ast.Lt: '<', ast.LtE: '<=',
        ast.Gt: '>', ast.GtE: '>=', ast.Is: 'is', ast.IsNot: 'is not',
        ast.In: 'in', ast.NotIn: 'not in'}


def _reads_stored(text):
    return STORED in text or 'hasattr(' in text or 'getattr(' in text \
        or 'corr_constants' in text


class Prov:
    def __init__(self, repo, res):
        self.repo, self.res = repo, res
        self.memo = {}
        self.stack = []
        self.steps = 0
        self.leaves = {}        # full -> FuncInfo of leaf callees
        self.inlined = set()
        self.origin = {}        # rendered term -> functions returning it

    # ---- expressions ----------------------------------------------------
    def expr(self, fi, e, env):
        if e is None:
            return frozenset(['None'])
        c = const(e, _NO)
        if c is not _NO:
            return frozenset([repr(c)])
        if isinstance(e, ast.Name):
            if e.id in env:
                return env[e.id]
            if e.id in fi.mod.globals or e.id in fi.mod.funcs:
                return frozenset(['%s.%s' % (fi.mod.name, e.id)])
            if e.id in fi.mod.imports:
                return frozenset(['@' + fi.mod.imports[e.id]])
            return frozenset([e.id])
        if isinstance(e, ast.Attribute):
            d = dotted(e.value)
            if d is not None and d.split('.')[0] not in env:
                m = self.repo.resolve_module(fi.mod, d)
                if m is not None:
                    return frozenset(['%s.%s' % (m.name, e.attr)])
            if e.attr == 'corr_constants':
                return frozenset([STORED])
            base = render(self.expr(fi, e.value, env))
            return frozenset('%s.%s' % (b, e.attr) for b in base)
        if isinstance(e, ast.Subscript):
            base = self.expr(fi, e.value, env)
            k = const(e.slice, _NO)
            if k is _NO and any(isinstance(b, (Rec, Seq)) for b in base):
                # the key as a value (a local bound to a constant)
                k = _term_const(self.expr(fi, e.slice, env))
            out = set()
            rest = []
            for b in base:
                if isinstance(b, Rec) and k is not _NO:
                    d = b.d()
                    if k in d:
                        out |= d[k]
                    else:
                        out.add('MISSING[%r]' % (k,))
                elif isinstance(b, Seq) and type(k) is int and \
                        -len(b.elts) <= k < len(b.elts):
                    out |= b.elts[k]
                else:
                    rest.append(b)
            if rest:
                ks = render(self.expr(fi, e.slice, env))
                bs = render(frozenset(rest))
                _cap(len(ks) * len(bs), 'a subscript')
                out |= {'%s[%s]' % (b, k_) for b in bs for k_ in ks}
            return frozenset(out)
        if isinstance(e, ast.BinOp):
            op = _BIN.get(type(e.op), type(e.op).__name__)
            if isinstance(e.op, ast.Add):
                lr = [self.expr(fi, e.left, env), self.expr(fi, e.right, env)]
                if all(len(x) == 1 and isinstance(next(iter(x)), Seq)
                       for x in lr):
                    return frozenset([Seq(next(iter(lr[0])).elts
                                          + next(iter(lr[1])).elts)])
            if isinstance(e.op, (ast.Add, ast.Mult)):
                flat = []

                def fl(n):
                    if isinstance(n, ast.BinOp) and type(n.op) is type(e.op):
                        fl(n.left)
                        fl(n.right)
                    else:
                        flat.append(n)
                fl(e)
                parts = [render(self.expr(fi, x, env)) for x in flat]
                return _prod(parts, lambda c_: '(' + (' %s ' % op).join(
                    sorted(c_)) + ')')
            parts = [render(self.expr(fi, e.left, env)),
                     render(self.expr(fi, e.right, env))]
            return _prod(parts, lambda c_: '(%s %s %s)' % (c_[0], op, c_[1]))
        if isinstance(e, ast.UnaryOp):
            op = {ast.USub: '-', ast.UAdd: '+', ast.Not: 'not ',
                  ast.Invert: '~'}[type(e.op)]
            return frozenset('(%s%s)' % (op, x) for x in
                             render(self.expr(fi, e.operand, env)))
        if isinstance(e, ast.BoolOp):
            op = ' and ' if isinstance(e.op, ast.And) else ' or '
            parts = [render(self.expr(fi, x, env)) for x in e.values]
            return _prod(parts, lambda c_: '(' + op.join(c_) + ')')
        if isinstance(e, ast.Compare):
            parts = [render(self.expr(fi, x, env))
                     for x in [e.left] + list(e.comparators)]
            ops = [_CMP.get(type(o), type(o).__name__) for o in e.ops]

            def fmt(c_):
                s = c_[0]
                for o, x in zip(ops, c_[1:]):
                    s += ' %s %s' % (o, x)
                return '(' + s + ')'
            return _prod(parts, fmt)
        if isinstance(e, ast.IfExp):
            t = render(self.expr(fi, e.test, env))
            a = self.expr(fi, e.body, env)
            b = self.expr(fi, e.orelse, env)
            fold = _fold(t)
            if fold is not None:
                return a if fold else b
            if any(_reads_stored(x) for x in t):
                return a | b
            return self._ite(t, a, b)
        if isinstance(e, ast.Dict):
            if all(k is not None and const(k, _NO) is not _NO
                   for k in e.keys):
                return frozenset([Rec({const(k): self.expr(fi, v, env)
                                       for k, v in zip(e.keys, e.values)})])
            parts = []
            for k, v in zip(e.keys, e.values):
                parts.append(render(self.expr(fi, k, env)) if k is not None
                             else ['**'])
                parts.append(render(self.expr(fi, v, env)))
            return _prod(parts, lambda c_: '{' + ', '.join(
                '%s: %s' % (c_[i], c_[i + 1])
                for i in range(0, len(c_), 2)) + '}')
        if isinstance(e, (ast.List, ast.Tuple)):
            if not any(isinstance(x, ast.Starred) for x in e.elts):
                return frozenset([Seq([self.expr(fi, x, env)
                                       for x in e.elts])])
            parts = [render(self.expr(fi, x, env)) for x in e.elts]
            return _prod(parts, lambda c_: '[' + ', '.join(c_) + ']')
        if isinstance(e, ast.Starred):
            return frozenset('*' + x for x in
                             render(self.expr(fi, e.value, env)))
        if isinstance(e, (ast.ListComp, ast.GeneratorExp, ast.SetComp,
                          ast.DictComp)):
            if isinstance(e, (ast.ListComp, ast.DictComp)):
                v = self._comp(fi, e, env)
                if v is not None:
                    return v
            env2 = dict(env)
            heads = []
            for i, g in enumerate(e.generators):
                it = render(self.expr(fi, g.iter, env2))
                names = [n.id for n in ast.walk(g.target)
                         if isinstance(n, ast.Name)]
                for j, nm in enumerate(names):
                    env2[nm] = frozenset(['%%c%d_%d' % (i, j)])
                conds = [render(self.expr(fi, c_, env2)) for c_ in g.ifs]
                heads.append(it)
                heads.extend(conds)
            if isinstance(e, ast.DictComp):
                heads.append(render(self.expr(fi, e.key, env2)))
                heads.append(render(self.expr(fi, e.value, env2)))
            else:
                heads.append(render(self.expr(fi, e.elt, env2)))
            return _prod(heads, lambda c_: 'comp(' + '; '.join(c_) + ')')
        if isinstance(e, ast.Call):
            return self._call_expr(fi, e, env)
        # anything else: its text with the locals it reads spelled out
        txt = ' '.join(src(e).split())
        return frozenset(['<%s>' % txt])

    def _ite(self, t, a, b):
        if a == b:
            return a
        if len(a) == 1 and len(b) == 1:
            (x,), (y,) = tuple(a), tuple(b)
            if isinstance(x, Rec) and isinstance(y, Rec) and \
                    [k for k, _ in x.items] == [k for k, _ in y.items]:
                dx, dy = x.d(), y.d()
                return frozenset([Rec({k: self._ite(t, dx[k], dy[k])
                                       for k in dx})])
        ra, rb = render(a), render(b)
        return _prod([t, ra, rb],
                     lambda c_: 'ite(%s; %s; %s)' % (c_[0], c_[1], c_[2]))

    # ---- bounded iteration -------------------------------------------------
    def _builtin(self, fi, name, env):
        return name not in env and name not in fi.mod.funcs and \
            name not in fi.mod.globals and name not in fi.mod.imports

    def _items(self, fi, it, env):
        """The values successive iterations over `it` bind (each a set of
        alternatives), when `it` is a sequence of known length: a display,
        a list built by appends, `enumerate` / `zip` / `reversed` / `list` /
        `tuple` of such, a constant `range`.  None otherwise."""
        if isinstance(it, ast.Call) and isinstance(it.func, ast.Name) and \
                self._builtin(fi, it.func.id, env) and not any(
                    isinstance(a, ast.Starred) for a in it.args):
            nm, n_a, kw = it.func.id, len(it.args), it.keywords
            if nm == 'enumerate' and 1 <= n_a + len(kw) <= 2 and n_a >= 1 \
                    and all(k.arg == 'start' for k in kw):
                st = it.args[1] if n_a == 2 else (kw[0].value if kw else None)
                k0 = 0 if st is None else _term_const(self.expr(fi, st, env))
                xs = self._items(fi, it.args[0], env)
                if xs is None or type(k0) is not int:
                    return None
                return [frozenset([Seq([frozenset([repr(k0 + i)]), x])])
                        for i, x in enumerate(xs)]
            if nm == 'zip' and n_a >= 1 and not kw:
                cols = [self._items(fi, a, env) for a in it.args]
                if any(c is None for c in cols) or \
                        len({len(c) for c in cols}) != 1:
                    return None
                return [frozenset([Seq(row)]) for row in zip(*cols)]
            if nm in ('list', 'tuple', 'reversed') and n_a == 1 and not kw:
                xs = self._items(fi, it.args[0], env)
                if xs is None:
                    return None
                return xs[::-1] if nm == 'reversed' else xs
            if nm == 'range' and 1 <= n_a <= 3 and not kw:
                ks = [_term_const(self.expr(fi, a, env)) for a in it.args]
                if any(type(k) is not int for k in ks) or (
                        n_a == 3 and ks[2] == 0):
                    return None
                r = range(*ks)
                if len(r) > MAX_UNROLL:
                    return None
                return [frozenset([repr(i)]) for i in r]
            return None
        v = self.expr(fi, it, env)
        if len(v) == 1 and isinstance(next(iter(v)), Seq) and \
                len(next(iter(v)).elts) <= MAX_UNROLL:
            return list(next(iter(v)).elts)
        return None

    def _comp(self, fi, e, env):
        """[elt for ...] / {k: v for ...} over sequences of known length with
        decidable filters: the list / record it builds.  None otherwise."""
        rows = []

        def gen(gi, env2):
            if gi == len(e.generators):
                rows.append(env2)
                return len(rows) <= MAX_UNROLL
            g = e.generators[gi]
            items = None if g.is_async else self._items(fi, g.iter, env2)
            if items is None:
                return False
            for x in items:
                e3 = dict(env2)
                try:
                    self._store(fi, g.target, x, e3, None)
                except _Leaf:
                    return False
                keep = True
                for c_ in g.ifs:
                    f_ = _fold(render(self.expr(fi, c_, e3)))
                    if f_ is None:
                        return False
                    if not f_:
                        keep = False
                        break
                if keep and not gen(gi + 1, e3):
                    return False
            return True
        if not gen(0, dict(env)):
            return None
        if isinstance(e, ast.ListComp):
            return frozenset([Seq([self.expr(fi, e.elt, r) for r in rows])])
        d = {}
        for r in rows:
            k = _term_const(self.expr(fi, e.key, r))
            if k is _NO:
                return None
            d[k] = self.expr(fi, e.value, r)
        return frozenset([Rec(d)])

    def _call_expr(self, fi, call, env):
        f0 = call.func
        if isinstance(f0, ast.Name) and f0.id not in env and \
                f0.id not in fi.mod.funcs:
            # getattr(X, 'corr_constants'[, d]) is the stored-constants read
            if f0.id == 'getattr' and len(call.args) >= 2 and \
                    const(call.args[1]) == 'corr_constants':
                return frozenset([STORED])
            if f0.id == 'getattr' and len(call.args) == 2 and isinstance(
                    const(call.args[1]), str):
                return self.expr(fi, ast.Attribute(
                    value=call.args[0], attr=const(call.args[1]),
                    ctx=ast.Load()), env)
            # dict(record) is a copy of the record
            if f0.id == 'dict' and len(call.args) == 1 and \
                    not call.keywords:
                v = self.expr(fi, call.args[0], env)
                if v and all(isinstance(x, Rec) for x in v):
                    return v
            if f0.id == 'dict' and not call.args and all(
                    k.arg is not None for k in call.keywords):
                return frozenset([Rec({k.arg: self.expr(fi, k.value, env)
                                       for k in call.keywords})])
        if isinstance(f0, ast.Attribute) and not call.keywords:
            if f0.attr == 'copy' and not call.args:
                v = self.expr(fi, f0.value, env)
                if v and all(isinstance(x, Rec) for x in v):
                    return v
            if f0.attr == 'get' and len(call.args) in (1, 2) and \
                    const(call.args[0], _NO) is not _NO:
                v = self.expr(fi, f0.value, env)
                if v and all(isinstance(x, Rec) or (
                        isinstance(x, str) and x.startswith(STORED))
                        for x in v):
                    # a look-up (the default only matters for a missing key)
                    return self.expr(fi, ast.Subscript(
                        value=f0.value, slice=call.args[0], ctx=ast.Load()),
                        env)
        cs, how = self.res.callees(fi, call)
        loc = self._local_import_callee(fi, f0, env)
        if loc is not None:
            cs, how = [loc], 'import'
        if how in ('module', 'import', 'modfunc', 'nested') and len(cs) == 1 \
                and not any(isinstance(a, ast.Starred) for a in call.args) \
                and not any(k.arg is None for k in call.keywords):
            callee = cs[0]
            bound = bind_args(call, callee)
            args = {}
            a = callee.node.args
            params = [x.arg for x in a.posonlyargs + a.args]
            defaults = dict(zip(params[len(params) - len(a.defaults):],
                                a.defaults))
            for p in params:
                if p in bound:
                    args[p] = self.expr(fi, bound[p], env)
                elif p in defaults:
                    args[p] = self.expr(callee, defaults[p], {})
                else:
                    args[p] = frozenset(['<unbound %s>' % p])
            for p in bound:
                if p not in args:
                    args[p] = self.expr(fi, bound[p], env)
            out = self.call(callee, args)
            for p in sorted(_mutated_params(callee)):
                # the caller's record / list is not the one the callee
                # changed (value semantics): whatever reads it afterwards
                # gets a term that says so
                r_ = bound.get(p)
                while isinstance(r_, ast.Subscript):
                    r_ = r_.value
                if isinstance(r_, ast.Name) and any(
                        isinstance(x, (Rec, Seq))
                        for x in env.get(r_.id, ())):
                    env[r_.id] = frozenset(['<%s as left by %s>' % (
                        r_.id, callee.full)])
            return out
        # external / unresolved / method call: a term by name
        f = call.func
        if isinstance(f, ast.Attribute):
            d = dotted(f)
            if d is not None and d.split('.')[0] not in env:
                heads = [d]
            else:
                heads = ['%s.%s' % (b, f.attr) for b in
                         render(self.expr(fi, f.value, env))]
        else:
            heads = render(self.expr(fi, f, env))
        parts = [heads] + [render(self.expr(fi, a_, env)) for a_ in call.args]
        kws = sorted(call.keywords, key=lambda k: k.arg or '')
        for k in kws:
            parts.append(['%s=%s' % (k.arg or '**', x) for x in
                          render(self.expr(fi, k.value, env))])
        return _prod(parts, lambda c_: '%s(%s)' % (c_[0], ', '.join(c_[1:])))

    def _local_import_callee(self, fi, f, env):
        """Callee reached through a function-level import (bound in env as
        '@dotted.target') or through a local that holds one package function
        (bound as 'module.function')."""
        tgt = None
        if isinstance(f, ast.Name) and f.id in env:
            v = env[f.id]
            if len(v) == 1 and isinstance(next(iter(v)), str) and \
                    next(iter(v)).startswith('@'):
                tgt = next(iter(v))[1:]
            elif len(v) == 1 and isinstance(next(iter(v)), str) and \
                    re.fullmatch(r'[A-Za-z_][\w.]*\.[A-Za-z_]\w*',
                                 next(iter(v))):
                tgt = next(iter(v))
        elif isinstance(f, ast.Attribute):
            d = dotted(f)
            if d is not None and d.split('.')[0] in env:
                v = env[d.split('.')[0]]
                if len(v) == 1 and isinstance(next(iter(v)), str) and \
                        next(iter(v)).startswith('@'):
                    tgt = '.'.join([next(iter(v))[1:]] + d.split('.')[1:])
        if tgt is None:
            return None
        mn, _, nm = tgt.rpartition('.')
        m = self.repo.modules.get(mn)
        if m is not None and nm in m.funcs and m.funcs[nm].cls is None:
            return m.funcs[nm]
        return None

    def _bind_import(self, fi, st, env):
        if isinstance(st, ast.Import):
            for a in st.names:
                env[a.asname or a.name.split('.')[0]] = frozenset(
                    ['@' + (a.name if a.asname else a.name.split('.')[0])])
            return
        base = st.module or ''
        if st.level:
            pkg = fi.mod.name.split('.')
            if not fi.mod.path.endswith('__init__.py'):
                pkg = pkg[:-1]
            pkg = pkg[:len(pkg) - (st.level - 1)]
            base = '.'.join(pkg + ([st.module] if st.module else []))
        for a in st.names:
            env[a.asname or a.name] = frozenset(
                ['@' + (base + '.' + a.name if base else a.name)])

    # ---- functions --------------------------------------------------------
    def call(self, callee, args):
        """Values a call of `callee` may return, arguments given as sets of
        alternative values per parameter."""
        key = (callee.full, tuple(sorted(args.items(), key=lambda kv: kv[0])))
        if key in self.memo:
            return self.memo[key]
        if callee.full in self.stack:
            out = self._leaf_term(callee, args)
        else:
            self.stack.append(callee.full)
            try:
                out = self._seq(callee, list(callee.node.body), dict(args))
                self.inlined.add(callee.full)
            except _Leaf:
                out = self._leaf_term(callee, args)
            finally:
                self.stack.pop()
        self.memo[key] = out
        if len(out) <= 8:
            for t in render(out):
                self.origin.setdefault(t, set()).add(callee.full)
        return out

    def _leaf_term(self, callee, args):
        self.leaves[callee.full] = callee
        params = list(callee.params)
        order = [p for p in params if p in args] + sorted(
            p for p in args if p not in params)
        parts = [['%s=%s' % (p, x) for x in render(args[p])] for p in order]
        return _prod(parts, lambda c_: '%s(%s)' % (callee.full,
                                                   ', '.join(c_)))

    def _seq(self, fi, stmts, env):
        """Set of values returned by running `stmts` to the end of the
        function (continuation style: the statements after a compound
        statement are appended to each of its branches)."""
        self.steps += 1
        if self.steps > MAX_STEPS:
            raise AnalysisError('%s: symbolic evaluation of %s does not '
                                'terminate within %d steps'
                                % (RULE, fi.full, MAX_STEPS))
        env = dict(env)
        for i, st in enumerate(stmts):
            rest = stmts[i + 1:]
            if isinstance(st, ast.Expr):
                # docstring / call for its effect (log); a method call on a
                # record local is a mutation the interpreter must follow
                c_ = st.value
                recv = root = c_.func.value if isinstance(
                    c_, ast.Call) and isinstance(c_.func, ast.Attribute) \
                    else None
                while isinstance(root, ast.Subscript):
                    root = root.value
                cur = None
                if isinstance(root, ast.Name) and root.id in env:
                    if root is recv:
                        cur = env[root.id]
                    elif any(isinstance(x, Rec) for x in env[root.id]):
                        cur = self.expr(fi, recv, env)      # d[k].append(v)
                if cur is not None and any(isinstance(x, Seq) for x in cur):
                    if len(cur) != 1 or c_.keywords:
                        raise _Leaf()
                    _no_alias(env, root.id, recv is not root)
                    elts = next(iter(cur)).elts
                    if c_.func.attr == 'append' and len(c_.args) == 1:
                        elts = elts + (self.expr(fi, c_.args[0], env),)
                    elif c_.func.attr == 'extend' and len(c_.args) == 1:
                        more = self._items(fi, c_.args[0], env)
                        if more is None:
                            raise _Leaf()
                        elts = elts + tuple(more)
                    elif c_.func.attr in ('index', 'count', 'copy'):
                        continue
                    else:
                        raise _Leaf()
                    self._store(fi, recv, frozenset([Seq(elts)]), env, None)
                    continue
                if cur is not None and root is recv and any(
                        isinstance(x, Rec) for x in cur):
                    nm = c_.func.value.id
                    if len(cur) != 1:
                        raise _Leaf()
                    d = next(iter(cur)).d()
                    if c_.func.attr in ('pop', 'update'):
                        _no_alias(env, nm, False)
                    if c_.func.attr == 'pop' and c_.args and const(
                            c_.args[0], _NO) is not _NO:
                        d.pop(const(c_.args[0]), None)
                    elif c_.func.attr == 'update' and len(c_.args) == 1 \
                            and not c_.keywords:
                        u = self.expr(fi, c_.args[0], env)
                        if len(u) != 1 or not isinstance(next(iter(u)), Rec):
                            raise _Leaf()
                        d.update(next(iter(u)).d())
                    elif c_.func.attr in ('keys', 'values', 'items', 'get',
                                          'copy'):
                        continue
                    else:
                        raise _Leaf()
                    env[nm] = frozenset([Rec(d)])
                continue
            if isinstance(st, (ast.Pass, ast.Assert)):
                continue
            if isinstance(st, _Bind):
                self._store(fi, st.target, st.value, env, None)
                # the loop variable names an element of the sequence
                _shared(env, [n.id for n in ast.walk(st.target)
                              if isinstance(n, ast.Name)])
                continue
            if isinstance(st, ast.For):
                # a loop over a sequence of known length is the sequence of
                # its passes (no break / continue)
                items = self._items(fi, st.iter, env)
                if items is None or any(
                        isinstance(n, (ast.Break, ast.Continue))
                        for b_ in st.body for n in ast.walk(b_)):
                    raise _Leaf()
                unrolled = []
                for x in items:
                    unrolled.append(_Bind(st.target, x))
                    unrolled.extend(st.body)
                return self._seq(fi, unrolled + list(st.orelse) + rest, env)
            if isinstance(st, (ast.Import, ast.ImportFrom)):
                self._bind_import(fi, st, env)
                continue
            if isinstance(st, ast.Return):
                return self.expr(fi, st.value, env)
            if isinstance(st, ast.Raise):
                return frozenset()
            if isinstance(st, ast.Assign):
                v = self.expr(fi, st.value, env)
                for t in st.targets:
                    self._store(fi, t, v, env, st.value)
                if len(st.targets) > 1:         # a = b = {...}: one object
                    _shared(env, [_root_id(t) for t in st.targets], v)
                continue
            if isinstance(st, ast.AnnAssign) and st.value is not None:
                self._store(fi, st.target, self.expr(fi, st.value, env), env,
                            st.value)
                continue
            if isinstance(st, ast.AugAssign):
                if not isinstance(st.target, ast.Name):
                    raise _Leaf()
                if any(isinstance(x, (Rec, Seq))
                       for x in env.get(st.target.id, ())):
                    _no_alias(env, st.target.id, False)     # in place
                fake = ast.BinOp(left=ast.Name(id=st.target.id,
                                               ctx=ast.Load()),
                                 op=st.op, right=st.value)
                env[st.target.id] = self.expr(fi, fake, env)
                continue
            if isinstance(st, ast.Delete):
                for t in st.targets:
                    ok = False
                    if isinstance(t, ast.Subscript) and isinstance(
                            t.value, ast.Name) and t.value.id in env:
                        k = const(t.slice, _NO)
                        cur = env[t.value.id]
                        if k is not _NO and len(cur) == 1 and isinstance(
                                next(iter(cur)), Rec):
                            _no_alias(env, t.value.id, False)
                            d = next(iter(cur)).d()
                            d.pop(k, None)
                            env[t.value.id] = frozenset([Rec(d)])
                            ok = True
                    if not ok:
                        raise _Leaf()
                continue
            if isinstance(st, ast.If):
                t = render(self.expr(fi, st.test, env))
                fold = _fold(t)
                if fold is True:
                    return self._seq(fi, list(st.body) + rest, env)
                if fold is False:
                    return self._seq(fi, list(st.orelse) + rest, env)
                split = _none_split(st.test, env)
                if split is not None:
                    # `if x is None:` on a local that may hold a stored
                    # constant or None: each branch sees the alternatives
                    # that can reach it
                    e_t, e_f = split
                    out = frozenset()
                    if e_t is not None:
                        out |= self._seq(fi, list(st.body) + rest, e_t)
                    if e_f is not None:
                        out |= self._seq(fi, list(st.orelse) + rest, e_f)
                    return out
                a = self._seq(fi, list(st.body) + rest, env)
                b = self._seq(fi, list(st.orelse) + rest, env)
                if any(_reads_stored(x) for x in t):
                    return a | b
                if not a:
                    return b
                if not b:
                    return a
                return self._ite(t, a, b)
            if isinstance(st, ast.Try):
                tail = list(st.finalbody) + rest
                out = self._seq(fi, list(st.body) + list(st.orelse) + tail,
                                env)
                # state when a handler starts: nothing of the body has
                # happened (single statement) or any prefix of it has
                henv = dict(env)
                if len(st.body) > 1:
                    e2 = dict(env)
                    for s_ in st.body[:-1]:
                        if isinstance(s_, ast.Assign) and all(
                                isinstance(t_, ast.Name)
                                for t_ in s_.targets):
                            v = self.expr(fi, s_.value, e2)
                            for t_ in s_.targets:
                                e2[t_.id] = v
                                henv[t_.id] = henv.get(t_.id,
                                                       frozenset()) | v
                        else:
                            raise _Leaf()
                for h in st.handlers:
                    out = out | self._seq(fi, list(h.body) + tail, henv)
                return out
            raise _Leaf()           # loops, with, nested defs, imports ...
        return frozenset(['None'])

    def _store(self, fi, t, v, env, value_node):
        _note_alias(env, t, v, value_node)
        if isinstance(t, ast.Name):
            env[t.id] = v
            return
        if isinstance(t, (ast.Tuple, ast.List)):
            if isinstance(value_node, (ast.Tuple, ast.List)) and len(
                    value_node.elts) == len(t.elts):
                vals = [self.expr(fi, x, env) for x in value_node.elts]
                for x, vv, vn in zip(t.elts, vals, value_node.elts):
                    self._store(fi, x, vv, env, vn)
            elif len(v) == 1 and isinstance(next(iter(v)), Seq) and len(
                    next(iter(v)).elts) == len(t.elts) and not any(
                        isinstance(x, ast.Starred) for x in t.elts):
                for x, vv in zip(t.elts, next(iter(v)).elts):
                    self._store(fi, x, vv, env, None)
            else:
                r = render(v)
                for i, x in enumerate(t.elts):
                    self._store(fi, x, frozenset('%s[%d]' % (b, i)
                                                 for b in r), env, None)
            return
        if isinstance(t, ast.Subscript):
            chain = []
            n = t
            while isinstance(n, ast.Subscript):
                k = const(n.slice, _NO)
                if k is _NO:
                    k = _term_const(self.expr(fi, n.slice, env))
                chain.append(k)
                n = n.value
            chain.reverse()
            if isinstance(n, ast.Name) and n.id in env and \
                    _NO not in chain and len(env[n.id]) == 1 and \
                    isinstance(next(iter(env[n.id])), Rec):
                _no_alias(env, n.id, len(chain) > 1)
                env[n.id] = frozenset([_set(next(iter(env[n.id])), chain,
                                            v)])
                return
        raise _Leaf()               # effect the interpreter does not model


_ALIAS, _INNER = '%alias', '%inner'


def _note_alias(env, t, v, value_node):
    """Value semantics are only right while a record / list has one name.
    `y = x` makes x and y one object, `d[k] = x` makes x a part of d: noted,
    so that a later in-place change through such a name is refused."""
    if isinstance(t, ast.Name):
        for tag in (_ALIAS, _INNER):
            if t.id in env.get(tag, ()):
                env[tag] = env[tag] - {t.id}
    if not isinstance(value_node, ast.Name) or not any(
            isinstance(x, (Rec, Seq)) for x in v):
        return
    root = t
    while isinstance(root, ast.Subscript):
        root = root.value
    if not isinstance(root, ast.Name):
        return
    both = {value_node.id} | ({root.id} if root is t else set())
    env[_ALIAS] = frozenset(env.get(_ALIAS, ())) | both
    if root is not t:
        env[_INNER] = frozenset(env.get(_INNER, ())) | {root.id}


def _root_id(t):
    while isinstance(t, (ast.Subscript, ast.Attribute)):
        t = t.value
    return t.id if isinstance(t, ast.Name) else None


def _shared(env, names, v=None):
    """The names (those holding a record / list) denote shared objects."""
    hit = {n for n in names if n is not None and any(
        isinstance(x, (Rec, Seq)) for x in (v if v is not None
                                            else env.get(n, ())))}
    if hit:
        env[_ALIAS] = frozenset(env.get(_ALIAS, ())) | hit


def _no_alias(env, name, inner):
    if name in env.get(_ALIAS, ()) or (inner and name in env.get(_INNER, ())):
        raise _Leaf()


_MUTATORS = ('append', 'extend', 'insert', 'pop', 'remove', 'clear', 'update',
             'setdefault', 'popitem', 'sort', 'reverse', 'fill', 'put',
             'itemset', 'resize')


def _mutated_params(fi):
    """Parameters the function changes in place (store / del through a
    subscript, a mutator method, an augmented assignment)."""
    def root(n):
        while isinstance(n, (ast.Subscript, ast.Attribute)):
            n = n.value
        return n.id if isinstance(n, ast.Name) else None
    out = set()
    for n in walk_no_nested(fi.node):
        ts = []
        if isinstance(n, ast.Assign):
            for t in n.targets:
                ts.extend(t.elts if isinstance(t, (ast.Tuple, ast.List))
                          else [t])
            ts = [t for t in ts if not isinstance(t, ast.Name)]
        elif isinstance(n, ast.AugAssign):
            ts = [n.target]
        elif isinstance(n, ast.Delete):
            ts = [t for t in n.targets if not isinstance(t, ast.Name)]
        elif isinstance(n, ast.Call) and isinstance(n.func, ast.Attribute) \
                and n.func.attr in _MUTATORS:
            ts = [n.func.value]
        out.update(r for r in map(root, ts) if r in fi.params)
    return out


def _set(rec, chain, v):
    d = rec.d()
    if len(chain) == 1:
        d[chain[0]] = v
        return Rec(d)
    sub = d.get(chain[0])
    if sub is None or len(sub) != 1 or not isinstance(next(iter(sub)), Rec):
        raise _Leaf()
    d[chain[0]] = frozenset([_set(next(iter(sub)), chain[1:], v)])
    return Rec(d)


_NO = object()


def _term_const(vals):
    """The Python constant a set of alternatives stands for (one alternative,
    the repr of a str / int / bool / None / float), else _NO."""
    if len(vals) != 1:
        return _NO
    t = next(iter(vals))
    if not isinstance(t, str) or not (t[:1] in '\'"-' or t[:1].isdigit()
                                      or t in ('True', 'False', 'None')):
        return _NO
    try:
        c = ast.literal_eval(t)
    except (ValueError, SyntaxError, MemoryError, RecursionError):
        return _NO
    if isinstance(c, (str, int, float, bool)) or c is None:
        return c
    return _NO


def _none_split(test, env):
    """For `N is None` / `N is not None` / `N` / `not N` on a local N whose
    alternatives include None or a stored constant: (env of the true branch,
    env of the false branch), None for an infeasible branch.  A stored
    constant may be None (slot without constants); a computed value is not."""
    neg = False
    t = test
    if isinstance(t, ast.UnaryOp) and isinstance(t.op, ast.Not):
        neg, t = True, t.operand
    if isinstance(t, ast.Compare) and len(t.ops) == 1 and isinstance(
            t.left, ast.Name) and const(t.comparators[0], _NO) is None:
        if isinstance(t.ops[0], (ast.Is, ast.Eq)):
            pass
        elif isinstance(t.ops[0], (ast.IsNot, ast.NotEq)):
            neg = not neg
        else:
            return None
        name = t.left.id
    elif isinstance(t, ast.Name):
        name = t.id
        neg = not neg           # `if N:` is the not-None branch
    else:
        return None
    vals = env.get(name)
    if not vals or not any(
            v == 'None' or (isinstance(v, str) and v.startswith(STORED))
            for v in vals):
        return None
    may_none = frozenset(v for v in vals if v == 'None' or (
        isinstance(v, str) and v.startswith(STORED)))
    not_none = frozenset(v for v in vals if v != 'None')
    e_none = dict(env, **{name: may_none}) if may_none else None
    e_some = dict(env, **{name: not_none}) if not_none else None
    return (e_some, e_none) if neg else (e_none, e_some)


def _fold(t):
    if len(t) == 1:
        if t[0] in ('True', '(not False)'):
            return True
        if t[0] in ('False', 'None', '(not True)'):
            return False
    return None


# ---------------------------------------------------------------------------

def _touches_stored(repo, res, fi, seen=None):
    """Does fi, or a package function it calls, read X.corr_constants?"""
    seen = set() if seen is None else seen
    if fi.full in seen:
        return None
    seen.add(fi.full)
    for n in walk_no_nested(fi.node):
        if isinstance(n, ast.Attribute) and n.attr == 'corr_constants':
            return fi
        if isinstance(n, ast.Constant) and n.value == 'corr_constants':
            return fi
    for n in walk_no_nested(fi.node):
        if isinstance(n, ast.Call):
            cs, how = res.callees(fi, n)
            if how in ('module', 'import', 'modfunc', 'nested'):
                for c in cs:
                    hit = _touches_stored(repo, res, c, seen)
                    if hit is not None:
                        return hit
    return None


def _own_token(slot, key):
    return "%s[%r][%r]" % (STORED, slot, key)


def _entry_alts(slot, rec, key, visiting):
    """Alternative terms of entry `key` of the record under construction
    with own-slot stored reads resolved.  The alternative that is just the
    entry's own stored value (`return X.corr_constants[slot][key]` short
    cut) is the value an earlier set-up computed -- by induction one of the
    other alternatives -- and is dropped."""
    if key in visiting:
        raise AnalysisError('%s: entry %r of slot %r is defined through its '
                            'own stored value' % (RULE, key, slot))
    out = set()
    for t in render(frozenset(rec[key])):
        if t == _own_token(slot, key):
            continue
        out.update(_subst(t, slot, rec, visiting | {key}))
    return sorted(out)


def _subst(term, slot, rec, visiting=frozenset()):
    """Alternatives of a string term after every read of the occupant's own
    slot, STORED[slot][k]..., is replaced by the entry k of the record under
    construction (recursively; a key the record lacks stays as it is)."""
    toks = []
    for m in _TOK.finditer(term):
        keys = re.findall(r"\[('[^']*'|-?\d+)\]", m.group(0))
        keys = [k[1:-1] if k.startswith("'") else int(k) for k in keys]
        if keys and keys[0] == slot and len(keys) >= 2 and keys[1] in rec:
            toks.append((m.start(), m.end(), keys))
    if not toks:
        return [term]
    parts, pos = [], 0
    for a, b, keys in toks:
        parts.append([term[pos:a]])
        alts = _entry_alts(slot, rec, keys[1], visiting)
        if keys[2:]:
            alts = ['%s%s' % (x, ''.join('[%r]' % (k,) for k in keys[2:]))
                    for x in alts]
        parts.append(alts)
        pos = b
    parts.append([term[pos:]])
    n = 1
    for p in parts:
        n *= max(1, len(p))
    _cap(n, 'a stored-constant substitution')
    return sorted({''.join(c) for c in itertools.product(*parts)})


def _short(t, n=230):
    t = t.replace('dassh.correlations.', '')
    return t if len(t) <= n else t[:n - 3] + '...'


def _diff(alts):
    """The shortest pieces in which two alternative terms differ."""
    a, b = alts[0], alts[1]
    i = 0
    while i < min(len(a), len(b)) and a[i] == b[i]:
        i += 1
    j = 0
    while j < min(len(a), len(b)) - i and a[-1 - j] == b[-1 - j]:
        j += 1
    # widen to the enclosing call heads
    s = max(a.rfind('(', 0, i), a.rfind(' ', 0, i), a.rfind('=', 0, i)) + 1
    return (_short(a[s:min(len(a) - j, i + 60)], 100),
            _short(b[s:min(len(b) - j, i + 60)], 100))


def _explain(a, b, origin, leaves=()):
    """Name the package functions whose return values distinguish two
    alternative terms (largest sub-term of one that the other lacks)."""
    out = []
    for x, y in ((a, b), (b, a)):
        cands = [t for t in origin if len(t) < len(x) and t in x
                 and t not in y]
        if not cands:
            out.append('?')
            continue
        best = max(cands, key=len)
        fs_ = [f for f in origin[best] if f not in leaves] or \
            list(origin[best])
        out.append('/'.join(sorted(f.replace('dassh.correlations.', '')
                                   for f in fs_)))
    return out


def _entry_stmt(fi, key):
    for n in walk_no_nested(fi.node):
        if isinstance(n, ast.Assign):
            for t in n.targets:
                ts = t.elts if isinstance(t, (ast.Tuple, ast.List)) else [t]
                for x in ts:
                    if isinstance(x, ast.Subscript) and const(x.slice) == key:
                        return n
        if isinstance(n, ast.Dict):
            for k, v in zip(n.keys, n.values):
                if k is not None and const(k) == key:
                    return v
    return fi.node


def run(ctx):
    repo = ctx.repo
    res = Resolver(repo)
    slots = C12._slot_tables(ctx)
    prov = Prov(repo, res)
    records = {}        # (slot, nick) -> (occ, {key: [terms after subst]})
    n_ct = {s: 0 for s in SLOTS}
    for slot in SLOTS:
        if slot not in slots:
            raise AnalysisError('%s: slot %s has no importer' % (RULE, slot))
        for occ in slots[slot][1]:
            cf = occ.consts
            if cf is None:
                continue
            if not cf.params:
                raise AnalysisError('%s: %s takes no region' % (RULE,
                                                               cf.full))
            args = {cf.params[0]: frozenset(['$0'])}
            a = cf.node.args
            for p, dflt in zip(cf.params[len(cf.params) - len(a.defaults):],
                               a.defaults):
                args[p] = prov.expr(cf, dflt, {})
            vals = prov.call(cf, args)
            recs = [v for v in vals if isinstance(v, Rec)]
            if len(recs) != len(vals) or not recs:
                # not a record the interpreter can follow: harmless only if
                # no stored constant is read on the way
                hit = _touches_stored(repo, res, cf)
                if hit is not None:
                    raise AnalysisError(
                        '%s: the constants function %s of slot %r is not '
                        'interpretable (%s) and %s reads stored constants'
                        % (RULE, cf.full, slot, _short(
                            '; '.join(render(vals)), 120), hit.full))
                ctx.ok(RULE, cf, cf.node, 'constants of %s:%s are not a '
                       'record; no stored constant read' % (slot, occ.nick))
                continue
            merged = {}
            for r in recs:
                for k, v in r.items:
                    merged.setdefault(k, set()).update(v)
            if any(set(k for k, _ in r.items) != set(merged) for r in recs):
                ctx.violation(
                    RULE, cf, cf.node, 'the record returned by %s has '
                    'different keys depending on whether stored constants '
                    'exist' % cf.qual, key='%s | %s | record keys' % (
                        RULE, cf.full))
            final = {}
            for k in sorted(merged, key=repr):
                final[k] = _entry_alts(slot, merged, k, frozenset())
                stale = any(("%s['%s']" % (STORED, slot)) in t
                            for t in render(frozenset(merged[k])))
                site = _entry_stmt(cf, k)
                if len(final[k]) == 1:
                    ctx.ok(RULE, cf, site, '%s:%s[%r] single-valued%s' % (
                        slot, occ.nick, k, ' (stored own-slot constants '
                        'identified with the record)' if stale else ''))
                else:
                    d1, d2 = _diff(final[k])
                    w1, w2 = _explain(final[k][0], final[k][1], prov.origin,
                                      prov.leaves)
                    ctx.violation(
                        RULE, cf, site,
                        'set-up constant %r of the %s correlation %r has %d '
                        'different values depending on which branch of a '
                        'stored-constant recompute idiom runs (first set-up '
                        'of a region vs. clone / stored constants present): '
                        'one is built from the value of %s, the other from '
                        'the value of %s (terms differ in ... %s ... versus '
                        '... %s ...); the flow split and the bundle friction '
                        'factor are then built from different subchannel '
                        'constants and the common subchannel pressure '
                        'gradient is not f_b/De_b; terms: %s'
                        % (k, {'ff': 'friction', 'fs': 'flow-split'}[slot],
                           occ.nick, len(final[k]), w1, w2, d1, d2,
                           ' || '.join(_short(t, 140)
                                       for t in final[k][:3])),
                        key='%s | %s | entry %s single-valued' % (
                            RULE, cf.full, k))
                if stale:
                    ctx.advisory(
                        RULE, cf, site, 'entry %r is taken from / built on '
                        'the constants the previous set-up of the same '
                        'object stored in slot %r when they exist: stale if '
                        '_setup_correlations is re-run with another '
                        'correlation name on that object (no input path does '
                        'that: __init__ starts without stored constants, '
                        'clone() keeps the names)' % (k, slot))
                    ctx.trusted.append(
                        '%s: %s[%r] reads the constants a previous set-up '
                        'stored in slot %r; identified with the record under '
                        'construction (same occupant: clone())' % (
                            RULE, cf.full, k, slot))
            records[(slot, occ.nick)] = (occ, final)
            if 'Cf_sc' in final:
                n_ct[slot] += 1
            # (b) derived entries are functions of the record's base entries
            for k, bases in sorted(DEPENDS.items()):
                if k not in final:
                    continue
                for bk in bases:
                    if bk not in final:
                        continue
                    site = _entry_stmt(cf, k)
                    bad = [t for t in final[k]
                           if not any(b in t for b in final[bk])]
                    ctx.require(
                        not bad, RULE, cf, site,
                        'set-up constant %r of the %s correlation %r is not '
                        'built from the %r of the same record: %s does not '
                        'contain %s -- derived and base constants of one '
                        'family must come from one set of subchannel '
                        'constants' % (
                            k, {'ff': 'friction', 'fs': 'flow-split'}[slot],
                            occ.nick, bk, _short(bad[0]) if bad else '',
                            _short(final[bk][0], 160)),
                        note='%s:%s[%r] is a function of [%r]' % (
                            slot, occ.nick, k, bk),
                        key='%s | %s | %s built from %s' % (
                            RULE, cf.full, k, bk))
    r10_reported = any(i['rule'] == RULE and i['verdict'] != 'holds'
                       for i in ctx.instances)
    if (n_ct['ff'] < 2 or n_ct['fs'] < 2) and not r10_reported:
        raise AnalysisError(
            '%s: expected the Cheng-Todreas records (Cf_sc) of two friction '
            'and two flow-split correlations, found %s' % (RULE, n_ct))
    # leaf callees must be pure in the stored constants
    for full, lf in sorted(prov.leaves.items()):
        hit = _touches_stored(repo, res, lf)
        if hit is not None:
            raise AnalysisError(
                '%s: %s is reached during set-up, cannot be inlined (loops / '
                'effects) and %s reads stored constants: the value it '
                'contributes cannot be decided' % (RULE, full, hit.full))
    # (c) same name, same shared constants
    n_pair = 0
    for (slot, nick), (occ, final) in sorted(records.items()):
        if slot != 'fs' or ('ff', nick) not in records:
            continue
        focc, ffinal = records[('ff', nick)]
        for bk in sorted({b for bs in DEPENDS.values() for b in bs}):
            if bk in final and bk not in ffinal and any(
                    bk in DEPENDS.get(k, ()) for k in ffinal):
                ctx.violation(
                    RULE, focc.consts, focc.consts.node,
                    'friction correlation %r stores a constant derived from '
                    '%r but not %r itself, which the flow-split correlation '
                    'of the same name stores: the two cannot be shown to use '
                    'one set of subchannel constants' % (nick, bk, bk),
                    key='%s | %s | stores %s' % (RULE, focc.consts.full, bk))
        for k in sorted(set(final) & set(ffinal), key=repr):
            n_pair += 1
            site = _entry_stmt(occ.consts, k)
            ctx.require(
                final[k] == ffinal[k], RULE, occ.consts, site,
                'flow-split correlation %r and friction correlation %r both '
                'store %r but with different values: %s versus %s -- the '
                'split equalises pressure gradients with other subchannel '
                'constants than the friction factor uses' % (
                    nick, nick, k, _short(final[k][0], 200),
                    _short(ffinal[k][0], 200)),
                note='fs:%s[%r] == ff:%s[%r]' % (nick, k, nick, k),
                key='%s | %s | %s agrees with %s' % (
                    RULE, occ.consts.full, k, focc.consts.full))
    r10_reported = any(i['rule'] == RULE and i['verdict'] != 'holds'
                       for i in ctx.instances)
    if n_pair < 4 and not r10_reported:
        raise AnalysisError('%s: fewer shared friction/flow-split constants '
                            'than expected (%d)' % (RULE, n_pair))
    ctx.extra['r10_inlined'] = sorted(prov.inlined)
    ctx.extra['r10_leaf_terms'] = sorted(prov.leaves)
    ctx.extra['r10_records'] = {
        '%s:%s' % k: {str(kk): [_short(t, 400) for t in v]
                      for kk, v in fin.items()}
        for k, (o, fin) in records.items()}
    ctx.min_instances(RULE, 30)
    ctx.decided.append(
        'R10 the constants record every friction / flow-split correlation '
        'hands over at set-up is coherent: each entry has one symbolic value '
        'whichever branch of a stored-constant recompute idiom ran (own-slot '
        'reads identified with the record), Cf_b and xr are built from the '
        'record\'s own Cf_sc, fs from its xr and na, and the friction and '
        'flow-split correlation of one name agree on every shared entry '
        '(symbolic interprocedural evaluation, wrappers inlined, worker '
        'functions as terms)')
