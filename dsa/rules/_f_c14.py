"""C14.R10 -- a cloned bundle has a spacer grid exactly when its original has.

Clause (necessary condition of C14 "one loss term per spacer grid inside the
bundle"): the pressure-drop path of a region switches optional terms on by
*presence tests* on the region's dictionaries (``'grid' in
self.corr_constants`` guards the per-step grid loss and the static loss
coefficient, ``'grid' in self.corr`` selects the correlation / flow split).
Every assembly a Reactor sweeps is a ``clone()`` of a template, so for every
such (dictionary, key)

  * the object returned by ``clone()`` answers the presence test exactly as
    the original did when ``clone()`` was entered -- for **every state the
    original can be in** (the states are derived from the methods that store
    the key, not assumed),
  * the entry it holds is (a copy of) the original's entry of the *same*
    dictionary and key,
  * a method that evaluates the test and is called on the clone inside
    ``clone()`` already sees the carried-over state,
  * ``clone()`` does not raise ``KeyError`` for any of these states and leaves
    the original's answer unchanged.

How it is decided: no source form is matched.  ``clone()`` is *abstractly
executed* by the small interpreter below (the checker's own; nothing of
/repo is imported or run) on a heap of abstract objects: ``self`` with lazily
materialised attributes, its tracked dictionaries in a given presence state,
shallow / deep copies with Python's sharing semantics, keyed stores / ``del``
/ ``get`` / ``update`` / ``pop`` / membership, ``getattr``/``setattr`` with
constant names, literal loops, loops over a tracked dictionary, ``try`` /
``except KeyError``, helper methods and module functions (interpreted inline
when they touch a tracked key, otherwise summarised by the attributes they
re-bind: ``_setup_correlations`` re-binds ``corr`` / ``corr_constants`` to
fresh dictionaries).  Tests that do not depend on the tracked state
(``new_flowrate is not None``, ``hasattr(self, 'pin_temps')``) are explored
both ways (all decision sequences are enumerated by replay).  The verdict is
read off the *final heap* of every path, so renaming, unrolling the loop,
``try/except`` instead of a test, a helper, an alias for the dictionary or a
different but equivalent guard do not change it.

Fail closed: an operation on the region object or a tracked dictionary that
the interpreter does not model is an AnalysisError (exit 2), never a pass.
"""
import ast
import itertools

from ..core import AnalysisError, src, walk_no_nested, parent, ancestors

PROPS = ('C14',)
RULE = 'C14.R10'

# (module, class, {pressure-drop path anchors: required?})
CLASSES = [
    ('region_rodded', 'RoddedRegion',
     (('calculate_pressure_drop', True),
      ('_init_static_correlated_params', True))),
    ('region_unrodded', 'SingleNodeHomogeneous',
     (('calculate_pressure_drop', True),)),
]
MAX_RUNS = 4096
MAX_DEPTH = 5


def _s(n):
    return ' '.join(src(n).split())


# ---------------------------------------------------------------------------
# abstract values

class Unsupported(Exception):
    pass


class _KeyErr(Exception):
    def __init__(self, node, what):
        Exception.__init__(self, what)
        self.node, self.what = node, what


class _Ret(Exception):
    def __init__(self, value):
        self.value = value


class _Raise(Exception):
    pass


class _Break(Exception):
    pass


class _Continue(Exception):
    pass


class Opaque:
    """A value the clause does not depend on."""
    def __init__(self, label='?', fresh=False):
        self.label, self.fresh = label, fresh

    def __repr__(self):
        return '<%s>' % self.label


class Const:
    def __init__(self, v):
        self.v = v

    def __repr__(self):
        return 'Const(%r)' % (self.v,)


class Val:
    """An entry of a tracked dictionary of the original at entry."""
    def __init__(self, origin, copied=False):
        self.origin, self.copied = origin, copied

    def __repr__(self):
        return 'Val(%s[%r]%s)' % (self.origin[0], self.origin[1],
                                  ', copy' if self.copied else '')


class DictObj:
    def __init__(self, keys=None, open_=False, definite=(), tracked=False,
                 label='{}'):
        self.keys = dict(keys or {})
        self.open = open_            # may hold further, unknown keys
        self.definite = set(definite)  # keys whose absence is definite
        self.tracked = tracked
        self.label = label

    def present(self, k):
        if k in self.keys:
            return True
        if not self.open or k in self.definite:
            return False
        return None

    def copy(self, deep):
        return DictObj({k: (_copy(v, True) if deep else v)
                        for k, v in self.keys.items()}, self.open,
                       self.definite, self.tracked, self.label)


class View:
    def __init__(self, d, kind):
        self.d, self.kind = d, kind


class OtherKey:
    """Some key of an open dictionary other than the keys in `notin` (whose
    presence is known exactly)."""
    def __init__(self, notin):
        self.notin = frozenset(notin)

    def __repr__(self):
        return '<another key>'


class Lazy:
    """Attributes of the original that nothing has stored to yet."""
    def __init__(self, make, parent=None):
        self.make, self.parent, self.cache = make, parent, {}

    def get(self, attr):
        if attr not in self.cache:
            if self.parent is None:
                self.cache[attr] = self.make(attr)
            else:
                self.cache[attr] = _copy(self.parent.get(attr), True)
        return self.cache[attr]


class Obj:
    def __init__(self, cls, lazy, attrs=None, root=None, label='self'):
        self.cls, self.lazy, self.attrs = cls, lazy, dict(attrs or {})
        self.root = root if root is not None else self
        self.label = label

    def copy(self, deep):
        if deep:
            return Obj(self.cls, Lazy(None, self.lazy),
                       {k: _copy(v, True) for k, v in self.attrs.items()},
                       self.root, 'copy of ' + self.label)
        return Obj(self.cls, self.lazy, self.attrs, self.root,
                   'copy of ' + self.label)


class FuncVal:
    def __init__(self, node, env):
        self.node, self.env = node, env


class Bound:
    def __init__(self, recv, name):
        self.recv, self.name = recv, name


def _copy(v, deep):
    if isinstance(v, (Obj, DictObj)):
        return v.copy(deep)
    if isinstance(v, Val):
        return Val(v.origin, True)
    if isinstance(v, list):
        return [_copy(x, deep) for x in v] if deep else list(v)
    if isinstance(v, tuple):
        return tuple(_copy(x, deep) for x in v) if deep else v
    return v


def _harmless_key(d, k):
    """k cannot be one of the keys of d the clause depends on."""
    return isinstance(k, OtherKey) and d.definite <= k.notin


def _sensitive(v):
    """Does the clause depend on what happens to v?"""
    if isinstance(v, Obj):
        return True
    if isinstance(v, DictObj):
        return v.tracked
    if isinstance(v, View):
        return v.d.tracked
    if isinstance(v, (list, tuple)):
        return any(_sensitive(x) for x in v)
    return False


# ---------------------------------------------------------------------------
# replay exploration of undetermined decisions

class Oracle:
    def __init__(self, prefix):
        self.prefix, self.i, self.trace = prefix, 0, []

    def decide(self, label):
        if self.i >= len(self.prefix):
            self.prefix.append(True)
        v = self.prefix[self.i]
        self.i += 1
        self.trace.append('%s -> %s' % (label, v))
        return v


def explore(run):
    prefix, n = [], 0
    while True:
        n += 1
        if n > MAX_RUNS:
            raise Unsupported('more than %d paths' % MAX_RUNS)
        o = Oracle(list(prefix))
        yield o, run(o)
        p = o.prefix[:o.i]
        while p and p[-1] is False:
            p.pop()
        if not p:
            return
        p[-1] = False
        prefix = p


# ---------------------------------------------------------------------------
# syntactic summaries of callees

PURE = {'isinstance', 'len', 'print', 'id', 'type', 'str', 'repr', 'bool',
        'int', 'float', 'sorted', 'set', 'abs', 'min', 'max', 'sum', 'any',
        'all', 'round', 'issubclass', 'callable', 'format'}
KEYERR_NAMES = {'KeyError', 'LookupError', 'Exception', 'BaseException'}


class Summaries:
    def __init__(self, repo, ci, tracked):
        self.repo, self.ci, self.tracked = repo, ci, tracked
        self.tkeys = {k for _, k in tracked}
        self.tattrs = {a for a, _ in tracked}
        self._m, self._e = {}, {}

    def method(self, ci, name):
        return self.repo.lookup_method(ci, name)

    def callees(self, fi):
        """Resolvable callees of fi: self.m(...) and same-module f(...)."""
        out = []
        selfn = fi.params[0] if fi.cls is not None and fi.params else None
        for c in ast.walk(fi.node):
            if not isinstance(c, ast.Call):
                continue
            f = c.func
            if isinstance(f, ast.Attribute) and isinstance(
                    f.value, ast.Name) and fi.cls is not None:
                m = self.method(fi.cls, f.attr)
                if m is not None and (f.value.id == selfn or m.cls is not None):
                    out.append(m)
            elif isinstance(f, ast.Name) and f.id in fi.mod.funcs:
                out.append(fi.mod.funcs[f.id])
        return out

    def mentions(self, fi, depth=0):
        """(reads, other): tracked (attr, key) pairs the callee evaluates
        (membership / load / .get), and whether a tracked key constant occurs
        in any other role (a store, a display, an argument ...) in the callee
        or what it calls."""
        if fi.full in self._m:
            return self._m[fi.full]
        self._m[fi.full] = (set(), False)      # recursion guard
        reads, other = set(), False
        for n in ast.walk(fi.node):
            if not (isinstance(n, ast.Constant) and n.value in self.tkeys):
                continue
            up = parent(n)
            role = None
            if isinstance(up, ast.Compare) and up.left is n and len(
                    up.ops) == 1 and isinstance(up.ops[0], (ast.In,
                                                            ast.NotIn)):
                role = _dict_attr(up.comparators[0])
            elif isinstance(up, ast.Subscript) and up.slice is n and \
                    isinstance(up.ctx, ast.Load):
                role = _dict_attr(up.value)
            elif isinstance(up, ast.Call) and n in up.args and isinstance(
                    up.func, ast.Attribute) and up.func.attr == 'get':
                role = _dict_attr(up.func.value)
            elif isinstance(up, ast.Expr):
                continue                        # a docstring
            if role is None:
                other = True
            elif (role, n.value) in self.tracked:
                reads.add((role, n.value))
            elif role in self.tattrs:
                pass
            else:
                # the key of some other dictionary ('grid' is also a keyword
                # of the flow-split correlations): only a load, no effect
                pass
        if depth < MAX_DEPTH:
            for c in self.callees(fi):
                r, o = self.mentions(c, depth + 1)
                reads |= r
                other = other or o
        self._m[fi.full] = (reads, other)
        return self._m[fi.full]

    def effects(self, fi, pname, depth=0):
        """(must, may): attributes of the object bound to parameter `pname`
        that the callee re-binds on every path / on some path."""
        key = (fi.full, pname)
        if key in self._e:
            return self._e[key]
        self._e[key] = (set(), set())
        must, may = set(), set()
        for n in walk_no_nested(fi.node):
            if isinstance(n, ast.Attribute) and isinstance(
                    n.ctx, (ast.Store, ast.Del)) and isinstance(
                        n.value, ast.Name) and n.value.id == pname:
                st = n
                while not isinstance(st, ast.stmt):
                    st = parent(st)
                if parent(st) is fi.node and isinstance(n.ctx, ast.Store):
                    must.add(n.attr)
                else:
                    may.add(n.attr)
            if isinstance(n, ast.Call):
                f = n.func
                nm = f.id if isinstance(f, ast.Name) else None
                if nm in ('setattr', 'delattr') and n.args and _is_name(
                        n.args[0], pname):
                    if len(n.args) > 1 and isinstance(
                            n.args[1], ast.Constant):
                        may.add(n.args[1].value)
                    else:
                        may.add('*')
                if nm == 'vars' and n.args and _is_name(n.args[0], pname):
                    may.add('*')
                # transitive
                tgt, bind = None, None
                if isinstance(f, ast.Attribute) and _is_name(
                        f.value, pname) and fi.cls is not None:
                    tgt = self.method(fi.cls, f.attr)
                    bind = tgt.params[0] if tgt is not None and \
                        tgt.params else None
                elif nm in fi.mod.funcs:
                    tgt = fi.mod.funcs[nm]
                    for i, a in enumerate(n.args):
                        if _is_name(a, pname) and i < len(tgt.params):
                            bind = tgt.params[i]
                    for kw in n.keywords:
                        if _is_name(kw.value, pname) and kw.arg:
                            bind = kw.arg
                if tgt is not None and bind is not None and depth < MAX_DEPTH:
                    m2, y2 = self.effects(tgt, bind, depth + 1)
                    st = n
                    while not isinstance(st, ast.stmt):
                        st = parent(st)
                    if parent(st) is fi.node:
                        must |= m2
                    else:
                        may |= m2
                    may |= y2
            if isinstance(n, ast.Attribute) and n.attr == '__dict__' and \
                    _is_name(n.value, pname):
                may.add('*')
        self._e[key] = (must, may)
        return self._e[key]


def _is_name(n, name):
    return isinstance(n, ast.Name) and n.id == name


def _dict_attr(n):
    """'corr' for <obj>.corr / <obj>.corr.keys() / getattr(<obj>, 'corr');
    None otherwise."""
    if isinstance(n, ast.Call) and isinstance(n.func, ast.Attribute) and \
            n.func.attr in ('keys',) and not n.args:
        n = n.func.value
    if isinstance(n, ast.Attribute) and isinstance(n.value, ast.Name):
        return n.attr
    if isinstance(n, ast.Call) and isinstance(n.func, ast.Name) and \
            n.func.id == 'getattr' and len(n.args) >= 2 and isinstance(
                n.args[1], ast.Constant):
        return n.args[1].value
    return None


# ---------------------------------------------------------------------------
# the interpreter

class Frame:
    def __init__(self, fi, env, node=None):
        self.fi, self.env = fi, env
        self.node = node if node is not None else fi.node
        self.assigned = {t.id for t in ast.walk(self.node)
                         if isinstance(t, ast.Name)
                         and isinstance(t.ctx, (ast.Store, ast.Del))}
        a = self.node.args
        self.params = {x.arg for x in a.posonlyargs + a.args + a.kwonlyargs}


class Interp:
    def __init__(self, summ, state, oracle):
        self.S = summ
        self.repo = summ.repo
        self.state = state            # frozenset of present (attr, key)
        self.oracle = oracle
        self.memo = {}
        self.log = []                 # ('if', node, outcome) / ('reset', ..)
        self.reader_faults = []       # (call node, attr, key, clone has, had)
        self.depth = 0
        self.fuel = 20000

    # -- objects ----------------------------------------------------------
    def make_self(self, ci):
        def make(attr):
            if attr in self.S.tattrs:
                keys = {k: Val((a, k)) for a, k in self.state if a == attr}
                return DictObj(keys, True,
                               {k for a, k in self.S.tracked if a == attr},
                               True, 'self.' + attr)
            return Opaque('self.' + attr)
        return Obj(ci, Lazy(make))

    def fresh_dict(self, attr, label):
        return DictObj({}, True, {k for a, k in self.S.tracked if a == attr},
                       True, label)

    def get_attr(self, base, attr, node, fr):
        if isinstance(base, Obj):
            if attr.startswith('__') and attr.endswith('__') and \
                    attr != '__class__':
                raise Unsupported('%s of the region object' % attr)
            if attr in base.attrs:
                return base.attrs[attr]
            m = self.repo.lookup_method(base.cls, attr)
            if m is not None and m.is_property:
                reads, other = self.S.mentions(m)
                if reads or other:
                    return self.inline(m, [base], {}, node)
                return base.lazy.get(attr)
            if m is not None:
                return Bound(base, attr)
            return base.lazy.get(attr)
        if isinstance(base, (DictObj, Val, View)):
            return Bound(base, attr)
        return Opaque('.' + attr)

    def set_attr(self, base, attr, v, node):
        if isinstance(base, Obj):
            if attr in self.S.tattrs and not isinstance(v, DictObj):
                if isinstance(v, Opaque) and v.fresh:
                    v = self.fresh_dict(attr, v.label)
                else:
                    raise Unsupported(
                        'the region\'s %s is re-bound to a value the rule '
                        'cannot interpret: %s' % (attr, _s(node)))
            if attr in self.S.tattrs:
                unk = [k for a, k in self.S.tracked if a == attr
                       and v.present(k) is None]
                if unk:
                    raise Unsupported(
                        'the region\'s %s is re-bound to a dictionary of '
                        'which the rule cannot tell whether it has %r: %s'
                        % (attr, unk[0], _s(node)))
                v.tracked = True
                self.log.append(('reset', node, attr))
            base.attrs[attr] = v
        elif _sensitive(base):
            raise Unsupported('attribute store on %s' % _s(node))

    # -- expressions ------------------------------------------------------
    def ev(self, n, fr):
        self.fuel -= 1
        if self.fuel < 0:
            raise Unsupported('evaluation budget exhausted')
        if isinstance(n, ast.Constant):
            return Const(n.value)
        if isinstance(n, ast.Name):
            if n.id in fr.env:
                return fr.env[n.id]
            return Opaque('global ' + n.id)
        if isinstance(n, ast.Attribute):
            return self.get_attr(self.ev(n.value, fr), n.attr, n, fr)
        if isinstance(n, ast.Subscript):
            base = self.ev(n.value, fr)
            key = self.ev(n.slice, fr)
            return self.load_item(base, key, n)
        if isinstance(n, (ast.Tuple, ast.List)):
            out = []
            for e in n.elts:
                if isinstance(e, ast.Starred):
                    v = self.ev(e.value, fr)
                    if isinstance(v, (list, tuple)):
                        out += list(v)
                    else:
                        if _sensitive(v):
                            raise Unsupported(_s(n))
                        return Opaque('seq')
                else:
                    out.append(self.ev(e, fr))
            return tuple(out) if isinstance(n, ast.Tuple) else out
        if isinstance(n, ast.Dict):
            d = DictObj({}, False)
            for k, v in zip(n.keys, n.values):
                vv = self.ev(v, fr)
                if k is None:
                    self.dict_update(d, vv, n)
                    continue
                kk = self.ev(k, fr)
                if isinstance(kk, Const):
                    d.keys[kk.v] = vv
                else:
                    d.open = True
            return d
        if isinstance(n, ast.Call):
            return self.call(n, fr, True)
        if isinstance(n, ast.Compare):
            t = self.compare(n, fr)
            return Const(t) if t is not None else Opaque('cmp')
        if isinstance(n, ast.BoolOp) or (isinstance(n, ast.UnaryOp) and
                                         isinstance(n.op, ast.Not)):
            t = self.test(n, fr)
            return Const(t) if t is not None else Opaque('bool')
        if isinstance(n, ast.IfExp):
            if self.decide_test(n.test, fr):
                return self.ev(n.body, fr)
            return self.ev(n.orelse, fr)
        if isinstance(n, (ast.ListComp, ast.GeneratorExp, ast.SetComp,
                          ast.DictComp)):
            return self.comp(n, fr)
        if isinstance(n, ast.NamedExpr):
            v = self.ev(n.value, fr)
            fr.env[n.target.id] = v
            return v
        if isinstance(n, ast.Lambda):
            return Opaque('lambda')
        if isinstance(n, ast.Starred):
            return self.ev(n.value, fr)
        # arithmetic, f-strings ...: evaluate operands for their effects
        vals = [self.ev(c, fr) for c in ast.iter_child_nodes(n)
                if isinstance(c, ast.expr)]
        if any(isinstance(v, (DictObj, View)) and _sensitive(v)
               for v in vals) and not isinstance(n, ast.JoinedStr):
            raise Unsupported('operation on a tracked dictionary: ' + _s(n))
        return Opaque(type(n).__name__)

    def load_item(self, base, key, node):
        if isinstance(base, DictObj):
            if isinstance(key, Const):
                p = base.present(key.v)
                if p is True:
                    return base.keys[key.v]
                if p is False:
                    raise _KeyErr(node, '%s has no key %r'
                                  % (base.label, key.v))
                return Opaque('%s[%r]' % (base.label, key.v))
            return Opaque('item')
        if isinstance(base, (list, tuple)) and isinstance(key, Const) and \
                isinstance(key.v, int) and -len(base) <= key.v < len(base):
            return base[key.v]
        return Opaque('item')

    def store_item(self, base, key, v, node):
        if isinstance(base, DictObj):
            if isinstance(key, Const):
                base.keys[key.v] = v
            elif isinstance(key, OtherKey) and base.definite <= key.notin:
                base.open = True
            elif base.definite:
                raise Unsupported('store into %s under a key the rule cannot '
                                  'determine: %s' % (base.label, _s(node)))
            else:
                base.open = True
        elif isinstance(base, View):
            raise Unsupported('store through a view: ' + _s(node))

    def compare(self, n, fr):
        if len(n.ops) != 1:
            for c in [n.left] + n.comparators:
                self.ev(c, fr)
            return None
        op = n.ops[0]
        a = self.ev(n.left, fr)
        b = self.ev(n.comparators[0], fr)
        if isinstance(op, (ast.In, ast.NotIn)):
            r = None
            if isinstance(b, View) and b.kind == 'keys':
                b = b.d
            if isinstance(a, OtherKey):
                r = None
            elif isinstance(b, DictObj) and isinstance(a, Const):
                r = b.present(a.v)
            elif isinstance(b, (list, tuple)) and isinstance(a, Const) and \
                    all(isinstance(x, Const) for x in b):
                r = any(x.v == a.v for x in b)
            elif isinstance(b, DictObj) and b.definite:
                raise Unsupported('membership of an undetermined key in %s'
                                  % b.label)
            if r is None:
                return None
            return r if isinstance(op, ast.In) else not r
        if isinstance(op, (ast.Is, ast.IsNot)):
            r = None
            an = isinstance(a, Const) and a.v is None
            bn = isinstance(b, Const) and b.v is None
            if an and bn:
                r = True
            elif (an and isinstance(b, (Val, Obj, DictObj, Const))) or \
                    (bn and isinstance(a, (Val, Obj, DictObj, Const))):
                r = False
            elif a is b and isinstance(a, (Obj, DictObj)):
                r = True
            if r is None:
                return None
            return r if isinstance(op, ast.Is) else not r
        if isinstance(op, (ast.Eq, ast.NotEq)) and isinstance(
                a, Const) and isinstance(b, Const):
            return (a.v == b.v) if isinstance(op, ast.Eq) else (a.v != b.v)
        if isinstance(op, (ast.Eq, ast.NotEq)):
            for x, y in ((a, b), (b, a)):
                if isinstance(x, OtherKey) and isinstance(y, Const):
                    if y.v in x.notin:
                        return isinstance(op, ast.NotEq)
                    return None
        if isinstance(op, (ast.Eq, ast.NotEq)):
            an = isinstance(a, Const) and a.v is None
            bn = isinstance(b, Const) and b.v is None
            if (an and isinstance(b, (Val, Obj, DictObj))) or \
                    (bn and isinstance(a, (Val, Obj, DictObj))):
                return isinstance(op, ast.NotEq)
        return None

    def truth(self, v):
        if isinstance(v, Const):
            return bool(v.v)
        if isinstance(v, Obj):
            return True
        if isinstance(v, DictObj):
            if v.keys:
                return True
            return None if v.open else False
        if isinstance(v, (list, tuple)):
            return bool(v)
        return None

    def test(self, n, fr):
        """Three-valued truth of a condition (None = undetermined)."""
        if isinstance(n, ast.BoolOp):
            isand = isinstance(n.op, ast.And)
            unknown = False
            for v in n.values:
                t = self.test(v, fr)
                if t is None:
                    unknown = True
                elif t != isand:
                    return t if not unknown else None
            return None if unknown else isand
        if isinstance(n, ast.UnaryOp) and isinstance(n.op, ast.Not):
            t = self.test(n.operand, fr)
            return None if t is None else not t
        if isinstance(n, ast.Compare):
            return self.compare(n, fr)
        return self.truth(self.ev(n, fr))

    def decide_test(self, n, fr):
        t = self.test(n, fr)
        if t is not None:
            return t
        return self._undetermined(n, fr)

    def _undetermined(self, n, fr):
        label = _s(n)
        stable = all(
            (x.id in fr.params and x.id not in fr.assigned)
            or x.id in ('hasattr', 'isinstance')
            for x in ast.walk(n) if isinstance(x, ast.Name)) and all(
                isinstance(c.func, ast.Name) and c.func.id in (
                    'hasattr', 'isinstance')
                for c in ast.walk(n) if isinstance(c, ast.Call))
        mk = (id(fr), label)
        if stable and mk in self.memo:
            return self.memo[mk]
        t = self.oracle.decide(label)
        if stable:
            self.memo[mk] = t
        return t

    def iterate(self, v, node):
        """Concrete elements of an iterable, or None if undetermined."""
        if isinstance(v, (list, tuple)):
            return list(v)
        if isinstance(v, DictObj):
            v = View(v, 'keys')
        if isinstance(v, View):
            # the entries the clause depends on; further (unknown) entries of
            # an open dictionary are not the subject of the clause
            out = []
            for k, x in list(v.d.keys.items()):
                out.append({'keys': Const(k), 'values': x,
                            'items': (Const(k), x)}[v.kind])
            if v.d.open:
                # one symbolic representative of the unknown further entries
                ok, ov = OtherKey(set(v.d.keys) | v.d.definite), \
                    Opaque('another entry of ' + v.d.label)
                out.append({'keys': ok, 'values': ov,
                            'items': (ok, ov)}[v.kind])
            return out
        return None

    def comp(self, n, fr):
        res_d = DictObj({}, False) if isinstance(n, ast.DictComp) else None
        res_l = []
        undet = [False]
        definite = [None]

        def rec(i):
            if i == len(n.generators):
                if res_d is not None:
                    k = self.ev(n.key, fr)
                    v = self.ev(n.value, fr)
                    if isinstance(k, Const):
                        res_d.keys[k.v] = v
                    elif isinstance(k, OtherKey):
                        res_d.open = True
                        definite[0] = k.notin if definite[0] is None \
                            else definite[0] & k.notin
                    else:
                        res_d.open = True
                        definite[0] = frozenset()
                else:
                    res_l.append(self.ev(n.elt, fr))
                return
            g = n.generators[i]
            it = self.iterate(self.ev(g.iter, fr), g.iter)
            if it is None:
                undet[0] = True
                it = [Opaque('element')]
            for x in it:
                self.bind(g.target, x, fr)
                if all(self.decide_test(c, fr) for c in g.ifs):
                    rec(i + 1)
        rec(0)
        if res_d is not None:
            if undet[0]:
                res_d.open = True
            elif res_d.open:
                res_d.definite = set(definite[0] or ())
            return res_d
        if undet[0] or any(isinstance(x, OtherKey) or (
                isinstance(x, tuple) and any(isinstance(y, OtherKey)
                                             for y in x)) for x in res_l):
            if any(_sensitive(x) for x in res_l):
                raise Unsupported('comprehension ' + _s(n))
            return Opaque('comprehension')
        return res_l

    # -- calls --------------------------------------------------------------
    def global_name(self, f, fr):
        """Dotted name of a callee that is not a local value."""
        if isinstance(f, ast.Name) and f.id not in fr.env:
            tgt = fr.fi.mod.imports.get(f.id)
            return tgt if tgt and f.id not in fr.fi.mod.funcs else f.id
        if isinstance(f, ast.Attribute) and isinstance(f.value, ast.Name) \
                and f.value.id not in fr.env:
            tgt = fr.fi.mod.imports.get(f.value.id)
            if tgt:
                return tgt + '.' + f.attr
        return None

    def args_of(self, n, fr):
        args, kw = [], {}
        for a in n.args:
            v = self.ev(a, fr)
            if isinstance(a, ast.Starred):
                if isinstance(v, (list, tuple)):
                    args += list(v)
                else:
                    raise Unsupported('*args in ' + _s(n))
            else:
                args.append(v)
        for k in n.keywords:
            v = self.ev(k.value, fr)
            if k.arg is None:
                if _sensitive(v):
                    raise Unsupported('**kwargs in ' + _s(n))
                continue
            kw[k.arg] = v
        return args, kw

    def call(self, n, fr, used):
        f = n.func
        gname = self.global_name(f, fr)
        if gname in ('copy.copy', 'copy.deepcopy'):
            args, kw = self.args_of(n, fr)
            if len(args) < 1:
                raise Unsupported(_s(n))
            return _copy(args[0], gname == 'copy.deepcopy')
        if gname in ('getattr', 'setattr', 'hasattr', 'delattr'):
            args, kw = self.args_of(n, fr)
            o = args[0] if args else None
            if not isinstance(o, Obj):
                if _sensitive(o) or (gname == 'setattr' and len(args) > 2
                                     and _sensitive(args[2])):
                    raise Unsupported(_s(n))
                return Opaque(gname)
            nm = args[1] if len(args) > 1 else None
            if not (isinstance(nm, Const) and isinstance(nm.v, str)):
                if gname == 'hasattr':
                    return Opaque('hasattr')
                if gname == 'getattr':
                    return Opaque('getattr')
                raise Unsupported('%s with an undetermined attribute name on '
                                  'the region object: %s' % (gname, _s(n)))
            if gname == 'getattr':
                return self.get_attr(o, nm.v, n, fr)
            if gname == 'setattr':
                self.set_attr(o, nm.v, args[2], n)
                return Const(None)
            if gname == 'hasattr':
                if nm.v in o.attrs or nm.v in self.S.tattrs or \
                        self.repo.lookup_method(o.cls, nm.v) is not None:
                    return Const(True)
                return Opaque('hasattr')
            raise Unsupported(_s(n))
        if gname == 'dict':
            args, kw = self.args_of(n, fr)
            d = DictObj({}, False)
            if args:
                self.dict_update(d, args[0], n)
            for k, v in kw.items():
                d.keys[k] = v
            return d
        if gname in ('list', 'tuple', 'iter', 'reversed', 'sorted') and \
                len(n.args) == 1 and not n.keywords:
            v = self.ev(n.args[0], fr)
            it = self.iterate(v, n)
            if it is not None and not isinstance(v, (View, DictObj)):
                return list(reversed(it)) if gname == 'reversed' else list(it)
            if isinstance(v, (View, DictObj)):
                return View(v.d if isinstance(v, View) else v,
                            v.kind if isinstance(v, View) else 'keys')
            return Opaque(gname)
        if gname in ('enumerate', 'zip'):
            args, kw = self.args_of(n, fr)
            its = [self.iterate(a, n) if not isinstance(a, (View, DictObj))
                   else None for a in args]
            if all(i is not None for i in its) and its:
                if gname == 'zip':
                    return [tuple(x) for x in zip(*its)]
                start = kw.get('start', args[1] if len(args) > 1 else Const(0))
                if isinstance(start, Const):
                    return [(Const(start.v + i), x)
                            for i, x in enumerate(its[0])]
            if any(_sensitive(a) for a in args):
                raise Unsupported(_s(n))
            return Opaque(gname)
        if gname == 'range':
            args, kw = self.args_of(n, fr)
            if args and all(isinstance(a, Const) and isinstance(a.v, int)
                            for a in args):
                return [Const(i) for i in range(*[a.v for a in args])]
            return Opaque('range')
        if gname == 'vars':
            args, kw = self.args_of(n, fr)
            if any(_sensitive(a) for a in args):
                raise Unsupported(_s(n))
            return Opaque('vars')
        # a local function value
        if isinstance(f, ast.Name) and f.id in fr.env:
            fv = fr.env[f.id]
            args, kw = self.args_of(n, fr)
            if isinstance(fv, FuncVal):
                return self.inline_node(fv.node, fr.fi, args, kw, n,
                                        dict(fv.env))
            return self.unknown_call(n, None, args, kw)
        # a function of the same module
        if isinstance(f, ast.Name) and f.id in fr.fi.mod.funcs and \
                f.id not in fr.env:
            args, kw = self.args_of(n, fr)
            return self.resolved(fr.fi.mod.funcs[f.id], None, args, kw, n,
                                 used)
        if isinstance(f, ast.Attribute):
            if gname is not None:
                args, kw = self.args_of(n, fr)
                return self.unknown_call(n, None, args, kw, gname)
            recv = self.ev(f.value, fr)
            args, kw = self.args_of(n, fr)
            if isinstance(recv, Obj):
                if f.attr == 'log' and args and isinstance(
                        args[0], Const) and args[0].v in ('error',
                                                          'critical'):
                    raise _Raise()
                m = self.repo.lookup_method(recv.cls, f.attr)
                if m is not None and not m.is_property:
                    return self.resolved(m, recv, args, kw, n, used)
                if f.attr in recv.attrs and isinstance(
                        recv.attrs[f.attr], FuncVal):
                    fv = recv.attrs[f.attr]
                    return self.inline_node(fv.node, fr.fi, args, kw, n,
                                            dict(fv.env))
                return self.unknown_call(n, None, args, kw)
            if isinstance(recv, Bound):
                recv = self.get_attr(recv.recv, recv.name, n, fr)
            if isinstance(recv, (DictObj, View)):
                return self.dict_method(recv, f.attr, args, kw, n)
            if isinstance(recv, Val):
                if f.attr in ('copy', '__copy__', '__deepcopy__'):
                    return Val(recv.origin, True)
                return Opaque('.' + f.attr)
            return self.unknown_call(n, recv, args, kw)
        args, kw = self.args_of(n, fr)
        return self.unknown_call(n, None, args, kw, gname)

    def unknown_call(self, n, recv, args, kw, gname=None):
        if gname in PURE or (gname or '').startswith(('numpy.', 'np.')):
            return Opaque(gname or 'call')
        for v in list(args) + list(kw.values()):
            if _sensitive(v):
                raise Unsupported(
                    'the region object / a tracked dictionary is handed to a '
                    'callee the rule cannot resolve: %s' % _s(n))
        return Opaque(gname or 'call')

    def dict_update(self, d, other, node):
        if isinstance(other, View):
            other = other.d
        if isinstance(other, DictObj):
            d.keys.update(other.keys)
            if other.open:
                # a key is still known to be absent only if it is known to be
                # absent from both (a closed dictionary knows all its keys)
                if not d.open:
                    d.open = True
                    d.definite = set(other.definite)
                else:
                    d.definite &= other.definite
        elif isinstance(other, (list, tuple)) and all(
                isinstance(x, tuple) and len(x) == 2 and isinstance(
                    x[0], Const) for x in other):
            for k, v in other:
                d.keys[k.v] = v
        else:
            if d.definite:
                raise Unsupported('update of %s from an undetermined value: '
                                  '%s' % (d.label, _s(node)))
            d.open = True

    def dict_method(self, d, name, args, kw, n):
        if isinstance(d, View):
            return Opaque('view.' + name)
        if name in ('keys', 'values', 'items'):
            return View(d, name)
        if name == 'copy':
            return d.copy(False)
        if name == 'get':
            k = args[0] if args else None
            dflt = args[1] if len(args) > 1 else kw.get('default',
                                                        Const(None))
            if isinstance(k, Const):
                p = d.present(k.v)
                if p is True:
                    return d.keys[k.v]
                if p is False:
                    return dflt
            elif d.definite and not _harmless_key(d, k):
                raise Unsupported('get of an undetermined key: ' + _s(n))
            return Opaque('get')
        if name == 'update':
            for a in args:
                self.dict_update(d, a, n)
            for k, v in kw.items():
                d.keys[k] = v
            return Const(None)
        if name == 'setdefault':
            k = args[0] if args else None
            v = args[1] if len(args) > 1 else Const(None)
            if isinstance(k, Const):
                p = d.present(k.v)
                if p is True:
                    return d.keys[k.v]
                if p is False:
                    d.keys[k.v] = v
                    return v
                return Opaque('setdefault')
            if d.definite and not _harmless_key(d, k):
                raise Unsupported(_s(n))
            d.open = True
            return Opaque('setdefault')
        if name == 'pop':
            k = args[0] if args else None
            if isinstance(k, Const):
                p = d.present(k.v)
                if p is True:
                    return d.keys.pop(k.v)
                if p is False:
                    if len(args) > 1:
                        return args[1]
                    raise _KeyErr(n, '%s has no key %r' % (d.label, k.v))
                return Opaque('pop')
            if d.definite and not _harmless_key(d, k):
                raise Unsupported(_s(n))
            return Opaque('pop')
        if name == 'clear':
            d.keys.clear()
            d.open = False
            return Const(None)
        if name == '__contains__' and args and isinstance(args[0], Const):
            p = d.present(args[0].v)
            return Const(p) if p is not None else Opaque('contains')
        if d.definite:
            raise Unsupported('dictionary method %s' % _s(n))
        return Opaque('.' + name)

    def resolved(self, m, recv, args, kw, n, used):
        reads, other = self.S.mentions(m)
        if other or (used and reads):
            return self.inline(m, ([recv] if recv is not None else []) + args,
                               kw, n)
        # summary
        if isinstance(recv, Obj) and recv.root is self.root and \
                recv is not self.root:
            for a, k in sorted(reads):
                d = self.get_attr(recv, a, n, None)
                has = d.present(k) if isinstance(d, DictObj) else None
                had = (a, k) in self.state
                if has is not had:
                    self.reader_faults.append((n, m, a, k, has, had))
        params = m.params
        bound = list(zip(params, ([recv] if recv is not None else []) + args))
        for k, v in kw.items():
            if k in params:
                bound.append((k, v))
            elif _sensitive(v):
                raise Unsupported(_s(n))
        if len(bound) < len(([recv] if recv is not None else []) + args):
            for v in args[len(params):]:
                if _sensitive(v):
                    raise Unsupported(_s(n))
        for p, v in bound:
            if isinstance(v, Obj):
                must, may = self.S.effects(m, p)
                if '*' in may:
                    raise Unsupported(
                        '%s re-binds an undetermined attribute of the region'
                        % m.qual)
                for a in sorted(must | may):
                    if a in self.S.tattrs and a not in must and \
                            not self.oracle.decide(
                                '%s re-builds %s' % (m.qual, a)):
                        continue
                    if a in self.S.tattrs:
                        v.attrs[a] = self.fresh_dict(a, '%s of %s (re-built '
                                                     'by %s)' % (a, v.label,
                                                                 m.qual))
                        self.log.append(('reset', n, a))
                    else:
                        v.attrs[a] = Opaque('%s set by %s' % (a, m.qual))
            elif isinstance(v, DictObj) and v.tracked:
                raise Unsupported(
                    'a tracked dictionary is passed to %s, which the rule '
                    'only summarises: %s' % (m.qual, _s(n)))
        return Opaque('result of ' + m.qual, fresh=True)

    def inline(self, m, args, kw, n):
        return self.inline_node(m.node, m, args, kw, n, {})

    def inline_node(self, fnode, fi, args, kw, n, env):
        if self.depth >= MAX_DEPTH:
            raise Unsupported('call depth at ' + _s(n))
        a = fnode.args
        if a.vararg or a.kwarg:
            raise Unsupported('*args/**kwargs callee at ' + _s(n))
        params = [x.arg for x in a.posonlyargs + a.args]
        if len(args) > len(params):
            raise Unsupported('arity at ' + _s(n))
        fr = Frame(fi, env, fnode)
        dflts = dict(zip(params[len(params) - len(a.defaults):], a.defaults))
        for x, d in zip(a.kwonlyargs, a.kw_defaults):
            params.append(x.arg)
            if d is not None:
                dflts[x.arg] = d
        for p, v in zip(params, args):
            fr.env[p] = v
        for k, v in kw.items():
            if k not in params:
                raise Unsupported('keyword %s at %s' % (k, _s(n)))
            fr.env[k] = v
        for p in params:
            if p not in fr.env:
                d = dflts.get(p)
                fr.env[p] = Const(d.value) if isinstance(
                    d, ast.Constant) else Opaque('default of ' + p)
        self.depth += 1
        try:
            self.block(fnode.body, fr)
            return Const(None)
        except _Ret as r:
            return r.value
        finally:
            self.depth -= 1

    # -- statements -----------------------------------------------------------
    def bind(self, t, v, fr):
        if isinstance(t, ast.Name):
            fr.env[t.id] = v
        elif isinstance(t, ast.Attribute):
            self.set_attr(self.ev(t.value, fr), t.attr, v, t)
        elif isinstance(t, ast.Subscript):
            self.store_item(self.ev(t.value, fr), self.ev(t.slice, fr), v, t)
        elif isinstance(t, (ast.Tuple, ast.List)):
            if isinstance(v, (list, tuple)) and len(v) == len(t.elts) and \
                    not any(isinstance(e, ast.Starred) for e in t.elts):
                for e, x in zip(t.elts, v):
                    self.bind(e, x, fr)
            else:
                if _sensitive(v) and not isinstance(v, (list, tuple)):
                    raise Unsupported('unpacking of ' + _s(t))
                for e in t.elts:
                    self.bind(e.value if isinstance(e, ast.Starred) else e,
                              Opaque(getattr(v, 'label', 'element'),
                                     fresh=getattr(v, 'fresh', False)), fr)
        else:
            raise Unsupported('assignment target ' + _s(t))

    def block(self, stmts, fr):
        for st in stmts:
            self.stmt(st, fr)

    def stmt(self, st, fr):
        self.fuel -= 1
        if self.fuel < 0:
            raise Unsupported('evaluation budget exhausted')
        if isinstance(st, ast.Expr):
            if isinstance(st.value, ast.Call):
                self.call(st.value, fr, False)
            else:
                self.ev(st.value, fr)
        elif isinstance(st, ast.Assign):
            v = self.ev(st.value, fr)
            for t in st.targets:
                self.bind(t, v, fr)
        elif isinstance(st, ast.AnnAssign):
            if st.value is not None:
                self.bind(st.target, self.ev(st.value, fr), fr)
        elif isinstance(st, ast.AugAssign):
            v = self.ev(st.value, fr)
            t = st.target
            cur = self.ev(ast.copy_location(_as_load(t), t), fr)
            if isinstance(cur, (DictObj, View)) and _sensitive(cur):
                raise Unsupported('in-place operation on a tracked '
                                  'dictionary: ' + _s(st))
            if isinstance(t, ast.Name):
                fr.env[t.id] = Opaque(t.id)
        elif isinstance(st, ast.If):
            t = self.test(st.test, fr)
            det = t is not None
            if t is None:
                t = self._undetermined(st.test, fr)
            self.log.append(('if', st, t, det))
            self.block(st.body if t else st.orelse, fr)
        elif isinstance(st, (ast.For, ast.AsyncFor)):
            itv = self.ev(st.iter, fr)
            it = self.iterate(itv, st.iter)
            if it is None:
                it = [Opaque('element')] if self.oracle.decide(
                    'loop over %s runs' % _s(st.iter)) else []
            broke = False
            for x in it:
                self.bind(st.target, x, fr)
                try:
                    self.block(st.body, fr)
                except _Break:
                    broke = True
                    break
                except _Continue:
                    continue
            if not broke:
                self.block(st.orelse, fr)
        elif isinstance(st, ast.While):
            if self.decide_test(st.test, fr):
                try:
                    self.block(st.body, fr)
                except _Break:
                    return
                except _Continue:
                    pass
            self.block(st.orelse, fr)
        elif isinstance(st, ast.Try):
            try:
                try:
                    self.block(st.body, fr)
                except _KeyErr as e:
                    for h in st.handlers:
                        names = set()
                        if h.type is None:
                            names = KEYERR_NAMES
                        else:
                            for x in ast.walk(h.type):
                                if isinstance(x, ast.Name):
                                    names.add(x.id)
                        if names & KEYERR_NAMES:
                            if h.name:
                                fr.env[h.name] = Opaque('exception')
                            self.log.append(('except', h, True, True))
                            self.block(h.body, fr)
                            break
                    else:
                        raise e
                else:
                    self.block(st.orelse, fr)
            finally:
                # (a finally block that itself raises is not modelled)
                self.block(st.finalbody, fr)
        elif isinstance(st, (ast.With, ast.AsyncWith)):
            for it in st.items:
                v = self.ev(it.context_expr, fr)
                if it.optional_vars is not None:
                    self.bind(it.optional_vars, Opaque('context'), fr)
            self.block(st.body, fr)
        elif isinstance(st, ast.Return):
            raise _Ret(self.ev(st.value, fr) if st.value is not None
                       else Const(None))
        elif isinstance(st, ast.Delete):
            for t in st.targets:
                if isinstance(t, ast.Name):
                    fr.env.pop(t.id, None)
                elif isinstance(t, ast.Subscript):
                    b = self.ev(t.value, fr)
                    k = self.ev(t.slice, fr)
                    if isinstance(b, DictObj):
                        if isinstance(k, Const):
                            p = b.present(k.v)
                            if p is False:
                                raise _KeyErr(t, '%s has no key %r'
                                              % (b.label, k.v))
                            b.keys.pop(k.v, None)
                            if p is None:
                                b.definite.add(k.v)
                        elif b.definite and not _harmless_key(b, k):
                            raise Unsupported(_s(st))
                elif isinstance(t, ast.Attribute):
                    b = self.ev(t.value, fr)
                    if isinstance(b, Obj):
                        raise Unsupported('attribute of the region deleted: '
                                          + _s(st))
        elif isinstance(st, ast.Raise):
            raise _Raise()
        elif isinstance(st, (ast.Pass, ast.Global, ast.Nonlocal)):
            pass
        elif isinstance(st, ast.Assert):
            pass
        elif isinstance(st, (ast.Import, ast.ImportFrom)):
            for a in st.names:
                fr.env[(a.asname or a.name).split('.')[0]] = Opaque(
                    'module ' + a.name)
        elif isinstance(st, (ast.FunctionDef, ast.AsyncFunctionDef)):
            fr.env[st.name] = FuncVal(st, fr.env)
        elif isinstance(st, ast.ClassDef):
            fr.env[st.name] = Opaque('class')
        elif isinstance(st, ast.Break):
            raise _Break()
        elif isinstance(st, ast.Continue):
            raise _Continue()
        else:
            raise Unsupported('statement ' + type(st).__name__)

    # -- driver -----------------------------------------------------------
    def run_method(self, fi, ci):
        self.root = self.make_self(ci)
        fr = Frame(fi, {})
        ps = fi.params
        if not ps:
            raise Unsupported('%s has no self parameter' % fi.qual)
        fr.env[ps[0]] = self.root
        a = fi.node.args
        for p in ps[1:] + [x.arg for x in a.kwonlyargs]:
            fr.env[p] = Opaque('parameter ' + p)
        try:
            self.block(fi.node.body, fr)
            return ('return', Const(None))
        except _Ret as r:
            return ('return', r.value)
        except _Raise:
            return ('raise', None)
        except _KeyErr as e:
            return ('keyerror', e)
        except (_Break, _Continue):
            raise Unsupported('break/continue outside a loop')


def _as_load(t):
    t2 = ast.parse(src(t), mode='eval').body
    return t2


# ---------------------------------------------------------------------------
# the rule

def _tracked_tests(summ_repo, ci, anchors):
    """Presence tests (attr, key) -> [(fi, node)] in the pressure-drop path."""
    repo = summ_repo
    todo, seen, fis = [], set(), []
    for name, required in anchors:
        m = repo.lookup_method(ci, name)
        if m is None:
            if required:
                raise AnalysisError('anchor %s.%s vanished' % (ci.name, name))
            continue
        todo.append(m)
    while todo:
        m = todo.pop()
        if m.full in seen:
            continue
        seen.add(m.full)
        fis.append(m)
        selfn = m.params[0] if m.params else None
        for c in ast.walk(m.node):
            if isinstance(c, ast.Call) and isinstance(
                    c.func, ast.Attribute) and _is_name(c.func.value, selfn):
                t = repo.lookup_method(ci, c.func.attr)
                if t is not None:
                    todo.append(t)
    out = {}
    for m in fis:
        selfn = m.params[0] if m.params else None
        for n in ast.walk(m.node):
            pair = None
            if isinstance(n, ast.Compare) and len(n.ops) == 1 and isinstance(
                    n.ops[0], (ast.In, ast.NotIn)) and isinstance(
                        n.left, ast.Constant) and isinstance(
                            n.left.value, str):
                c = n.comparators[0]
                if isinstance(c, ast.Call) and isinstance(
                        c.func, ast.Attribute) and c.func.attr == 'keys':
                    c = c.func.value
                if isinstance(c, ast.Attribute) and _is_name(c.value, selfn):
                    pair = (c.attr, n.left.value)
            elif isinstance(n, ast.Call) and isinstance(
                    n.func, ast.Attribute) and n.func.attr == 'get' and \
                    n.args and isinstance(n.args[0], ast.Constant) and \
                    isinstance(n.args[0].value, str) and isinstance(
                        n.func.value, ast.Attribute) and _is_name(
                            n.func.value.value, selfn):
                pair = (n.func.value.attr, n.args[0].value)
            if pair is not None:
                out.setdefault(pair, []).append((m, n))
    return out


def _states(summ, ci, clone_fi, tracked):
    """Presence states the original can be in: closure of the empty state
    (dictionaries as the correlation set-up builds them) under every method
    of the class that stores a tracked key.  Falls back to all combinations
    when a writer cannot be interpreted."""
    repo = summ.repo
    writers = []
    for c in repo.mro(ci):
        for name, m in sorted(c.methods.items()):
            if m is clone_fi or m.is_property or \
                    repo.lookup_method(ci, name) is not m:
                continue
            own = False
            for n in ast.walk(m.node):
                if isinstance(n, ast.Constant) and n.value in summ.tkeys:
                    up = parent(n)
                    if isinstance(up, ast.Subscript) and up.slice is n and \
                            isinstance(up.ctx, (ast.Store, ast.Del)) and \
                            _dict_attr(up.value) in summ.tattrs:
                        own = True
                    elif isinstance(up, ast.Call) and isinstance(
                            up.func, ast.Attribute) and up.func.attr in (
                                'setdefault', 'pop', 'update') and \
                            _dict_attr(up.func.value) in summ.tattrs:
                        own = True
            if own:
                writers.append(m)
    allc = [frozenset(c) for r in range(len(tracked) + 1)
            for c in itertools.combinations(sorted(tracked), r)]
    if not writers:
        return allc, [], 'no method stores the keys: all combinations'
    states = {frozenset()}
    work = [frozenset()]
    try:
        while work:
            s = work.pop()
            for w in writers:
                def run(o, w=w, s=s):
                    it = Interp(summ, s, o)
                    res = it.run_method(w, ci)
                    return it, res
                for o, (it, res) in explore(run):
                    if res[0] != 'return':
                        continue
                    new = set()
                    for a, k in tracked:
                        d = it.get_attr(it.root, a, w.node, None)
                        p = d.present(k) if isinstance(d, DictObj) else None
                        if p is None:
                            raise Unsupported('state after ' + w.qual)
                        if p:
                            new.add((a, k))
                    new = frozenset(new)
                    if new not in states:
                        states.add(new)
                        work.append(new)
    except Unsupported as e:
        return allc, writers, 'writers not interpretable (%s): all ' \
            'combinations' % e
    return sorted(states, key=lambda s: (len(s), sorted(s))), writers, \
        'derived from %s' % ', '.join(w.qual for w in writers)


def _fmt_state(s, tracked):
    if not s:
        return 'no %s' % ' / '.join('%s[%r]' % p for p in sorted(tracked))
    return ' and '.join('%s[%r]' % p for p in sorted(s)) + ''.join(
        ' but no %s[%r]' % p for p in sorted(tracked) if p not in s)


def _blame(it, fi, a, k):
    """The construct to name for 'the clone lacks a[k]'."""
    for ent in reversed(it.log):
        if ent[0] not in ('if', 'except'):
            continue
        st, outcome = ent[1], ent[2]
        skipped = (st.orelse if outcome else st.body) if ent[0] == 'if' \
            else []
        for s in skipped:
            for n in ast.walk(s):
                if isinstance(n, ast.Constant) and n.value == k or \
                        isinstance(n, ast.Call) and _s(n.func) in (
                            'getattr', 'setattr'):
                    return st.test if ent[0] == 'if' else st
    for ent in reversed(it.log):
        if ent[0] == 'if' and ent[3] and any(
                isinstance(n, ast.Constant) and n.value == k
                for n in ast.walk(ent[1].test)):
            return ent[1].test
    for ent in reversed(it.log):
        if ent[0] == 'reset' and ent[2] == a:
            return ent[1]
    return fi.node


def run(ctx):
    ctx.decided.append(
        'R10 every presence test the pressure-drop path evaluates on a '
        'region dictionary (\'grid\' in corr_constants / corr) has the same '
        'answer on the object clone() returns as on the original, for every '
        'state the original can be in; the carried entry is the original\'s '
        'entry of the same dictionary; readers called on the clone inside '
        'clone() already see it; clone() does not raise KeyError (abstract '
        'execution of clone() over all decision sequences); the dictionaries '
        'are re-built only in the constructor before the grid is set up, in '
        'clone() and in methods that preserve the answer themselves')
    ctx.trusted.append(
        'C14.R10: callees of clone() in which the tracked key constant does '
        'not occur (transitively over resolvable self-/module calls) build '
        'dictionaries without that key; entries of an open dictionary other '
        'than the tracked keys are not the subject of the clause')
    repo = ctx.repo
    n_pairs = 0
    for modn, clsn, anchors in CLASSES:
        ci = repo.cls(modn, clsn)
        tests = _tracked_tests(repo, ci, anchors)
        base_clone = repo.lookup_method(ci, 'clone')
        if base_clone is None:
            raise AnalysisError('%s.clone vanished' % clsn)
        if not tests:
            ctx.ok(RULE, base_clone, None, 'the pressure-drop path of %s '
                   'evaluates no presence test: nothing to carry over' % clsn)
            continue
        tracked = sorted(tests)
        n_pairs += len(tracked)
        summ = Summaries(repo, ci, set(tracked))
        states, writers, how = _states(summ, ci, base_clone, tracked)
        ctx.ok(RULE, base_clone, None, '%s: presence tests on %s; %d states '
               'of the original (%s)' % (clsn, ', '.join(
                   '%s[%r] (%d sites)' % (a, k, len(tests[(a, k)]))
                   for a, k in tracked), len(states), how))
        family = [ci] + list(repo.subclasses(ci))
        # (a) every clone() of the class family
        subjects = []
        for c in family:
            m = c.methods.get('clone')
            if m is not None and all(m is not x[0] for x in subjects):
                subjects.append((m, c, 'clone'))
        # (b) methods that re-build a tracked dictionary of self
        rebuilders = _rebuilders(summ, family)
        for m, c in _rebuild_sites(ctx, summ, family, rebuilders, writers,
                                   {x[0].full for x in subjects}, tracked,
                                   tests):
            subjects.append((m, c, 'self'))
        for fi, c, mode in subjects:
            _decide(ctx, summ, fi, c, mode, states, tracked, tests)
    if n_pairs < 2:
        raise AnalysisError(
            '%s: the pressure-drop path of the rodded region no longer '
            'evaluates the presence tests the rule is anchored on (found %d, '
            'expected >= 2: \'grid\' in corr_constants / corr)'
            % (RULE, n_pairs))
    ctx.min_instances(RULE, 5)


def _decide(ctx, summ, fi, c, mode, states, tracked, tests):
    faults = {}      # key -> (node, what)
    paths = 0
    try:
        for s in states:
            def run1(o, s=s):
                it = Interp(summ, s, o)
                return it, it.run_method(fi, c)
            for o, (it, res) in explore(run1):
                paths += 1
                _judge(ctx, it, res, o, s, tracked, fi, tests, faults, mode)
    except Unsupported as e:
        raise AnalysisError(
            '%s: %s has a shape the rule cannot interpret: %s'
            % (RULE, fi.qual, e))
    order = sorted(faults.items(), key=lambda kv: repr(kv[0]))
    for a, k in tracked:
        bad = False
        for key, (node, what) in order:
            if key[0] != (a, k):
                continue
            bad = True
            ctx.violation(RULE, fi, node, what, key='%s | %s | %s[%r] %s' % (
                RULE, fi.full, a, k, key[1]))
        if not bad:
            ctx.ok(RULE, fi, tests[(a, k)][0][1],
                   '%s[%r]: %s agree in all %d states (%d paths); test in %s'
                   % (a, k, 'the object %s() returns and its original'
                      % fi.qual if mode == 'clone' else
                      'the bundle before and after %s()' % fi.qual,
                      len(states), paths, tests[(a, k)][0][0].qual))
    for key, (node, what) in order:
        if key[0] is None:
            ctx.violation(RULE, fi, node, what,
                          key='%s | %s | %s' % (RULE, fi.full, key[1]))


def _rebuilders(summ, family):
    """Names of methods of the class family that re-bind a tracked
    dictionary attribute of self (directly or through another such method)."""
    out = {}
    for c in family:
        for name, m in c.methods.items():
            if name in ('__init__', 'clone') or m.is_property or \
                    not m.params:
                continue
            must, may = summ.effects(m, m.params[0])
            hit = (must | may) & summ.tattrs
            if hit:
                out.setdefault(name, []).append((m, sorted(hit)))
    return out


def _rebuild_sites(ctx, summ, family, rebuilders, writers, interpreted,
                   tracked, tests):
    """Every call site of a re-building method is in the constructor ahead of
    the set-up of the tracked keys, in a clone() (interpreted), in another
    re-builder, or in a method of the class that is interpreted like clone();
    a site anywhere else re-builds the dictionaries of an existing bundle and
    nothing can carry the entries over.  Yields the methods to interpret."""
    from ..cfg import cfg_of
    repo = summ.repo
    fam = {c.full for c in family}
    wnames = {w.name for w in writers}
    todo, n = [], 0
    what = 'corr / corr_constants' if summ.tattrs == {
        'corr', 'corr_constants'} else ' / '.join(sorted(summ.tattrs))
    for fi in repo.all_funcs():
        for call in walk_no_nested(fi.node):
            if not (isinstance(call, ast.Call) and isinstance(
                    call.func, ast.Attribute) and
                    call.func.attr in rebuilders):
                continue
            name = call.func.attr
            infam = fi.cls is not None and fi.cls.full in fam and \
                fi.outer is None
            selfn = fi.params[0] if infam and fi.params else None
            on_self = _is_name(call.func.value, selfn)
            if not infam and fi.cls is not None and on_self is False and \
                    _is_name(call.func.value, fi.params[0] if fi.params
                             else None) and repo.lookup_method(
                                 fi.cls, name) is not None:
                continue        # another class's own method of that name
            n += 1
            if infam and fi.full in interpreted:
                continue        # a clone(): decided by interpretation
            if infam and fi.name in rebuilders and on_self:
                continue        # transitive: its own call sites are checked
            if infam and fi.name == '__init__' and on_self:
                g = cfg_of(fi)
                cn = g.node_containing(call)
                late = []
                for w in ast.walk(fi.node):
                    if isinstance(w, ast.Call) and isinstance(
                            w.func, ast.Attribute) and w.func.attr in wnames \
                            and _is_name(w.func.value, selfn):
                        wn = g.node_containing(w)
                        if wn is cn or g.path_exists(wn, cn):
                            late.append(w)
                ctx.require(not late, RULE, fi, call,
                            'the constructor re-builds %s with %s() after %s '
                            'stored the spacer-grid entries: the bundle ends '
                            'up without them and its pressure drop has no '
                            'spacer-grid term' % (what, name, ', '.join(
                                sorted({_s(w.func) for w in late}))),
                            note='%s() runs ahead of %s' % (name, ', '.join(
                                sorted(wnames)) or 'the writers'),
                            key='%s | %s | %s after the grid set-up'
                            % (RULE, fi.full, name))
                continue
            if infam and on_self and fi.outer is None:
                if all(fi is not t[0] for t in todo):
                    todo.append((fi, fi.cls))
                continue
            mentions = any(isinstance(x, ast.Constant) and x.value in
                           summ.tkeys for x in ast.walk(fi.node))
            if mentions:
                raise AnalysisError(
                    '%s: %s calls %s(), which re-builds %s of an existing '
                    'bundle, and handles %s itself in a way the rule cannot '
                    'interpret' % (RULE, fi.full, name, what,
                                   sorted(summ.tkeys)))
            ctx.violation(
                RULE, fi, call, 'a bundle must have a spacer-grid term '
                'exactly when spacer grids were set up for it: %s() re-builds '
                '%s of an existing bundle here and nothing in %s carries the '
                '%s entries over (only clone() does), so a bundle with '
                'spacer grids silently loses the grid loss term'
                % (name, what, fi.qual, '/'.join(repr(k) for k in
                                                 sorted(summ.tkeys))),
                key='%s | %s | %s of an existing bundle' % (RULE, fi.full,
                                                           name))
    if rebuilders and n == 0:
        raise AnalysisError('%s: no call site of %s found'
                            % (RULE, sorted(rebuilders)))
    return todo


def _judge(ctx, it, res, o, s, tracked, fi, tests, faults, mode='clone'):
    st_txt = _fmt_state(s, tracked)
    tr = list(dict.fromkeys(o.trace))
    path = ('; path: ' + ', '.join(tr[:6]) + (
        ' (+%d more decisions)' % (len(tr) - 6) if len(tr) > 6 else '')) \
        if tr else ''
    why = {}
    for a, k in tracked:
        m, n = tests[(a, k)][0]
        why[(a, k)] = '%s tests `%s`' % (m.qual, _s(n))
    for n, m, a, k, has, had in it.reader_faults:
        faults.setdefault(((a, k), 'seen by ' + m.name), (
            n, 'a cloned bundle must have a spacer-grid term exactly when '
            'its original has (%s): %s is called on the clone while the '
            'clone %s %s[%r] although the original %s it (original with '
            '%s%s)' % (why[(a, k)], m.qual,
                       'has' if has else 'does not (yet) have', a, k,
                       'had' if had else 'did not have', st_txt, path)))
    if res[0] == 'raise':
        return
    if res[0] == 'keyerror':
        e = res[1]
        faults.setdefault((None, 'KeyError ' + _s(e.node)), (
            e.node, 'clone() raises KeyError (%s) for an original with %s%s: '
            'such a bundle cannot be cloned, although the pressure-drop path '
            'supports it' % (e.what, st_txt, path)))
        return
    v = res[1]
    if mode == 'self':
        # a method that re-builds the dictionaries of the bundle itself
        for a, k in tracked:
            d0 = it.get_attr(it.root, a, fi.node, None)
            now = d0.present(k) if isinstance(d0, DictObj) else None
            had = (a, k) in s
            if now is None:
                raise Unsupported('presence of %s[%r] undetermined' % (a, k))
            if now != had:
                faults.setdefault(((a, k), 'lost' if had else 'invented'), (
                    _blame(it, fi, a, k), 'a bundle must have a spacer-grid '
                    'term exactly when spacer grids were set up for it (%s): '
                    'after %s() a bundle with %s %s %s[%r]%s%s'
                    % (why[(a, k)], fi.qual, st_txt,
                       'has no' if had else 'has a', a, k,
                       ' any more -- its pressure drop silently drops every '
                       'spacer-grid loss term' if had else '', path)))
        return
    if not (isinstance(v, Obj) and v.root is it.root):
        raise Unsupported('clone() returns %r, not a copy of self' % (v,))
    for a, k in tracked:
        d = it.get_attr(v, a, fi.node, None)
        d0 = it.get_attr(it.root, a, fi.node, None)
        if not isinstance(d, DictObj) or not isinstance(d0, DictObj):
            raise Unsupported('%s of the clone is not a dictionary the rule '
                              'can follow' % a)
        has, had, now = d.present(k), (a, k) in s, d0.present(k)
        if has is None or now is None:
            raise Unsupported('presence of %s[%r] undetermined' % (a, k))
        if now != had:
            faults.setdefault(((a, k), 'original changed'), (
                fi.node, 'clone() %s %s[%r] of the *original* (original with '
                '%s%s)' % ('adds' if now else 'removes', a, k, st_txt, path)))
        if has != had:
            node = _blame(it, fi, a, k)
            faults.setdefault(((a, k), 'lost' if had else 'invented'), (
                node, 'a cloned bundle must have a spacer-grid term exactly '
                'when its original has (%s; every assembly of a Reactor is a '
                'clone): for an original with %s, clone() returns an object '
                '%s %s[%r]%s%s'
                % (why[(a, k)], st_txt, 'without' if had else 'with', a, k,
                   ' -- the pressure drop of the clone silently drops every '
                   'spacer-grid loss term' if had else '', path)))
        elif has:
            val = d.keys[k]
            if not (isinstance(val, Val) and val.origin == (a, k)):
                faults.setdefault(((a, k), 'value'), (
                    _blame_store(fi, a, k), 'the clone\'s %s[%r] must be (a '
                    'copy of) the original\'s %s[%r]; it is %r (original '
                    'with %s%s)' % (a, k, a, k, val, st_txt, path)))


def _blame_store(fi, a, k):
    for n in ast.walk(fi.node):
        if isinstance(n, ast.Subscript) and isinstance(
                n.ctx, ast.Store) and isinstance(
                    n.slice, ast.Constant) and n.slice.value == k:
            st = n
            while not isinstance(st, ast.stmt):
                st = parent(st)
            return st
    return fi.node
