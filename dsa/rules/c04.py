"""C04 -- the selected axial step keeps the explicit march positive."""
import ast
import itertools
from fractions import Fraction

from ..core import (AnalysisError, access_path, const, find_all, match, short,
                    src, walk_no_nested, parent, call_name,
                    merge_scalar_subscripts)
from ..cfg import cfg_of
from .. import util as U
from ..poly import Rat, Poly, from_ast, NotPolynomial
from ..algeval import eval_function
from . import c01 as C01


def run(ctx):
    ctx.decided += [
        'R1 the step requirement is aggregated with min on every level '
        '(subchannel types, both temperatures, regions, assemblies, gap), '
        'every assembly and the gap contribute, rounding is downward, and a '
        'user step replaces it only when not larger',
        'R2 (exact algebra) each live step criterion of the pin bundle '
        '(types 1-111 ... 3-33) and of the bypass gaps (6-66 ... 7-77) is '
        'the reciprocal of the sum of the coefficients the update operator '
        'applies to the temperature differences of that cell -- conduction '
        'per neighbour named in the suffix, wall term (both convection-'
        'approximation variants, dropped when adiabatic) and swirl -- with '
        'the arguments bound at the call site; hence with dz <= criterion '
        'the self weight 1 - dz * sum is >= 0 and all weights sum to one',
        'R3 (exact algebra) the gap criterion and the low-fidelity criteria '
        'are the reciprocal of the coefficient sum of their operators '
        '(sum of d/L_j over neighbours, not d / sum L_j)',
        'R5 the no-flow gap model and the stagnant bypass model are convex '
        'combinations: weights are non-negative quantities normalised by '
        'their own sum; the duct-average model divides by the count of the '
        'averaged values',
        'R6 every exchange term of the update operators has the form '
        'coefficient x (T[neighbour] - T[self]) with the neighbour as '
        'minuend',
        'R7 the step requirement is evaluated at the temperatures it names: '
        'Material.update re-evaluates every property on every call (no '
        'cached / early exit), so the evaluation at the inlet cannot be '
        'skipped because a temperature label already matches']
    ctx.not_decided += ['non-negativity of the physical inputs (conductivity, '
                        'htc, flow, lengths, swirl velocity) is assumed',
                        'run-time neighbour multisets agree with the '
                        'criterion selected by pin count']
    ctx.assumptions += ['keff, k, h, rho, v_swirl, m, cp, L, d > 0 or >= 0']
    r1(ctx)
    r2(ctx)
    r3(ctx)
    r5(ctx)
    r6(ctx)
    r7(ctx)
    ctx.min_instances('C04.R7', 2)
    ctx.min_instances('C04.R1', 10)
    ctx.min_instances('C04.R2', 30)
    ctx.min_instances('C04.R3', 5)
    ctx.min_instances('C04.R5', 3)
    ctx.min_instances('C04.R6', 8)


def _s(e):
    return ' '.join(src(e).split())


# ---------------------------------------------------------------------------

_LIST_READERS = ('min', 'max', 'len', 'sorted', 'list', 'tuple')


def _per_pass_list(fi, lp, name, depth=3):
    """Element expression (an AST evaluated in the body of the loop `lp`) of
    the local list `name` of `fi` when that list holds exactly one entry for
    every pass of `lp`, in order; None otherwise.  Two ways to build one:
    (a) bound once to `[]` ahead of the loop and filled by one
    `name.append(E)` that lies on every path through the body of `lp` and on
    no path twice (CFG); (b) bound once, after the loop, to a comprehension
    `[F for v in L]` -- one generator, no condition, L itself such a list:
    the entry is F with `v` standing for L's entry.  Anything else that could
    change the list (another method call, a store into it, a re-binding, the
    list handed to an unknown function) disqualifies it."""
    if depth <= 0:
        return None
    fn = fi.node
    defs = U.assigns_of(fn, name)
    if len(defs) != 1 or not (isinstance(defs[0], ast.Assign) and len(
            defs[0].targets) == 1 and isinstance(defs[0].targets[0], ast.Name)
            and any(defs[0] is st for st in fn.body)):
        return None
    d = defs[0]
    appends = []
    inner = {id(n) for n in walk_no_nested(fn)}
    if any(isinstance(n, ast.Name) and n.id == name and id(n) not in inner
           for n in ast.walk(fn)):
        return None                     # touched by a nested def / lambda
    for n in walk_no_nested(fn):
        if not (isinstance(n, ast.Name) and n.id == name):
            continue
        if isinstance(n.ctx, ast.Store):
            if n is not d.targets[0]:
                return None
            continue
        p = parent(n)
        if isinstance(p, ast.Attribute) and p.value is n:
            c = parent(p)
            if not (isinstance(c, ast.Call) and c.func is p):
                return None
            if p.attr == 'append' and len(c.args) == 1 and not c.keywords:
                appends.append(c)
            elif p.attr not in ('index', 'count'):
                return None
        elif isinstance(p, ast.Subscript) and p.value is n and isinstance(
                p.ctx, ast.Load):
            pass
        elif isinstance(p, ast.Call) and n in p.args and isinstance(
                p.func, ast.Name) and p.func.id in _LIST_READERS:
            pass
        elif isinstance(p, ast.comprehension) and p.iter is n:
            pass
        else:
            return None
    v = d.value
    if isinstance(v, ast.List) and not v.elts:
        if d.lineno >= lp.lineno or len(appends) != 1:
            return None
        g = cfg_of(fi)
        header = [n for n in g.nodes if n.kind == 'loop' and n.stmt is lp]
        app = g.node_containing(appends[0])
        from ..dataflow import _in_body
        if len(header) != 1 or app is None or not _in_body(app, lp) or \
                not isinstance(app.stmt, ast.Expr) or \
                app.stmt.value is not appends[0]:
            return None
        first = [s for s in header[0].succ if _in_body(s, lp)]
        if any((g.path_exists(b, header[0], avoid=[app]) or g.path_exists(
                b, g.exit, avoid=[app, header[0]])) and b is not app
               for b in first):
            return None                 # a pass can go by without the append
        if g.path_exists(app, app, avoid=header) or g.path_exists(
                app, g.exit, avoid=header):
            return None     # appended again in the same pass / loop left
        return appends[0].args[0]
    if isinstance(v, ast.ListComp) and len(v.generators) == 1 and not appends:
        gen = v.generators[0]
        if gen.ifs or gen.is_async or not isinstance(gen.target, ast.Name) \
                or not isinstance(gen.iter, ast.Name) or \
                d.lineno <= (lp.end_lineno or lp.lineno):
            return None
        inner = _per_pass_list(fi, lp, gen.iter.id, depth - 1)
        if inner is None:
            return None
        return _project(_put(v.elt, gen.target.id, inner))
    return None


def _put(e, name, repl):
    """Copy of expression `e` with every read of `name` replaced by `repl`."""
    class S(ast.NodeTransformer):
        def visit_Name(self, n):
            if n.id == name and isinstance(n.ctx, ast.Load):
                return ast.parse(src(repl), mode='eval').body
            return n
    return ast.fix_missing_locations(S().visit(
        ast.parse(src(e), mode='eval').body))


def _project(e):
    """`(a, b, ...)[k]` with a literal k -> the k-th entry of the display."""
    class P(ast.NodeTransformer):
        def visit_Subscript(self, n):
            self.generic_visit(n)
            k = const(n.slice)
            if isinstance(n.value, ast.Tuple) and isinstance(k, int) and \
                    not isinstance(k, bool) and \
                    -len(n.value.elts) <= k < len(n.value.elts) and not any(
                        isinstance(x, ast.Starred) for x in n.value.elts):
                return n.value.elts[k]
            return n
    return P().visit(e)


def _min_over_every_region(am, lp):
    """assembly.calculate_min_dz: the minimum it returns is taken over a list
    with one entry per axial region (per pass of `lp`), and the entry of a
    pass is the step requirement -- first result of a region-level
    `calculate_min_dz` applied to the loop's own region -- bound in that
    pass on every path."""
    mins = [st for st in am.node.body if isinstance(st, ast.Assign)
            and isinstance(st.value, ast.Call) and call_name(st.value) == 'min'
            and len(st.value.args) == 1 and not st.value.keywords
            and isinstance(st.value.args[0], ast.Name)]
    rets = [r for r in walk_no_nested(am.node) if isinstance(r, ast.Return)]
    if len(mins) != 1 or len(rets) != 1 or not isinstance(
            lp.target, ast.Name):
        return False
    # the minimum is what the function returns as the requirement
    rv = rets[0].value
    rv = rv.elts[0] if isinstance(rv, ast.Tuple) and rv.elts else rv
    tgt = mins[0].targets[0]
    if not (len(mins[0].targets) == 1 and isinstance(tgt, ast.Name) and
            isinstance(rv, ast.Name) and rv.id == tgt.id and
            len(U.assigns_of(am.node, tgt.id)) == 1 and
            mins[0].lineno > (lp.end_lineno or 0)):
        return False
    el = _per_pass_list(am, lp, mins[0].value.args[0].id)
    if not isinstance(el, ast.Name):
        return False
    defs = U.assigns_of(am.node, el.id)
    if not defs:
        return False
    for d in defs:
        if not (isinstance(d, ast.Assign) and len(d.targets) == 1 and
                isinstance(d.targets[0], ast.Tuple) and d.targets[0].elts and
                _s(d.targets[0].elts[0]) == el.id and
                isinstance(d.value, ast.Call) and
                (call_name(d.value) or '').endswith('.calculate_min_dz') and
                d.value.args and _s(d.value.args[0]) == lp.target.id and
                lp.lineno < d.lineno <= (lp.end_lineno or 0)):
            return False
    # bound in the pass before it is appended (not left over from the
    # region below)
    from .c13 import _exposed
    return not any(x.id == el.id for x in _exposed(
        lp.body, set(am.params) | {lp.target.id}))


def r1(ctx):
    repo = ctx.repo
    # returns of the aggregating functions use min
    checks = [
        ('region_rodded', '_calculate_int_dz', 'min_dz = min(dz)'),
        ('region_rodded', '_calculate_byp_dz', 'min_min_dz = min(min_dz)'),
        ('region_rodded', '_calculate_byp_dz', 'min_dz.append(min(dz))'),
        ('region_unrodded', 'calculate_min_dz', None),
        ('assembly', 'calculate_min_dz', 'min_dz = min(dz)'),
    ]
    for modn, q, pat in checks:
        fi = repo.func(modn, q)
        if pat:
            mode = 'stmt' if '=' in pat else 'expr'
            h = find_all(pat, fi.node, mode)
            if not h and pat == 'min_dz.append(min(dz))':
                # the minimum held in a local that is appended right away
                h = [(n, b) for n, b in find_all('min_dz.append(Q_x)',
                                                 fi.node, 'expr')
                     if _s(U.temp_def(fi.node, b['Q_x'])) == 'min(dz)']
            ctx.require(len(h) >= 1, 'C04.R1', fi, h[0][0] if h else fi.node,
                        'the requirement of %s must be the minimum over its '
                        'candidates' % q, key='%s | %s' % (fi.full, pat))
    for modn, q in (('region_rodded', 'calculate_min_dz'),
                    ('region_unrodded', 'calculate_min_dz')):
        fi = repo.func(modn, q)
        rets = [r for r in walk_no_nested(fi.node) if isinstance(r, ast.Return)]
        ok = len(rets) == 1 and isinstance(rets[0].value, ast.Tuple) and \
            _s(U.temp_def(fi.node, rets[0].value.elts[0])) == 'min(min_dz)'
        ctx.require(ok, 'C04.R1', fi, rets[0] if rets else fi.node,
                    'region requirement = min over both temperatures (and '
                    'bypass)', key=fi.full + ' | min over temperatures')
        lp = [l for l in walk_no_nested(fi.node) if isinstance(l, ast.For)
              and _s(l.iter) == '[temp_lo, temp_hi]']
        ctx.require(len(lp) == 1, 'C04.R1', fi, lp[0] if lp else fi.node,
                    'the requirement is evaluated at inlet and outlet '
                    'temperature', key=fi.full + ' | both temperatures')
    cm = repo.func('core', 'calculate_min_dz')
    h = find_all('min_dz = np.min(dz)', cm.node, 'stmt')
    ctx.require(len(h) == 1, 'C04.R1', cm, h[0][0] if h else cm.node,
                'gap requirement = minimum over all gap cells',
                key=cm.full + ' | min over cells')
    # the gap minimum must cover both temperatures: dz is overwritten per
    # temperature in the loop (advisory: only the last temperature counts)
    lp = [l for l in walk_no_nested(cm.node) if isinstance(l, ast.For)
          and _s(l.iter) == '[temp_lo, temp_hi]']
    if len(lp) != 1:
        raise AnalysisError('core.calculate_min_dz: temperature loop')
    ow = [st for st in lp[0].body if isinstance(st, ast.Assign)
          and _s(st.targets[0]) == 'dz']
    acc = find_all('dz.append(1 / (term1 + term2))', lp[0])
    ctx.require(not ow and len(acc) == 1, 'C04.R1', cm,
                ow[0] if ow else lp[0],
                'the gap requirement evaluated at the inlet temperature is '
                'overwritten by the outlet-temperature evaluation: only the '
                'last one reaches the minimum, although with temperature-'
                'dependent properties the inlet can be limiting',
                key=cm.full + ' | both temperatures kept')
    am = repo.func('assembly', 'calculate_min_dz')
    lp = [l for l in walk_no_nested(am.node) if isinstance(l, ast.For)
          and _s(l.iter) == 'asm_obj.region']
    apps = find_all('dz.append(tmp_dz)', am.node)
    ok = len(lp) == 1 and len(apps) == 1 and not U.guards(apps[0][0],
                                                          stop=lp[0])
    if len(lp) == 1:
        # the same fact on the value: the list the minimum is taken over
        # holds one entry per pass of the region loop, and that entry is the
        # requirement computed for the region of that pass
        ok = _min_over_every_region(am, lp[0])
    ctx.require(ok, 'C04.R1', am, apps[0][0] if apps else am.node,
                'every axial region of an assembly contributes',
                key=am.full + ' | all regions')
    # Reactor level: shared with C05.R4 (floor, min, user <=)
    fo = repo.func('reactor', 'Reactor._setup_overall_axial_mesh_req')
    sts = [st for t, st in U.stores(fo.node) if src(t) == 'self.req_dz']
    ok = bool(sts) and _s(sts[0].value) == \
        "np.floor(np.min(self.min_dz['dz']) * 1000000.0) / 1000000.0"
    ctx.require(ok, 'C04.R1', fo, sts[0] if sts else fo.node,
                'core requirement = min over assemblies and gap, rounded '
                'down', key=fo.full + ' | floored minimum')
    user = [st for st in sts if _s(st.value) ==
            "self._options['axial_mesh_size']"]
    ok = len(user) == 1
    if ok:
        t = U.guards(user[0])[0][0]
        lo = U.eval_test(t, {"self._options['axial_mesh_size']": 0.001,
                             'self.req_dz': 0.002})
        hi = U.eval_test(t, {"self._options['axial_mesh_size']": 0.003,
                             'self.req_dz': 0.002})
        ok = lo is True and hi is False
    ctx.require(ok, 'C04.R1', fo, user[0] if user else fo.node,
                'a user step above the requirement is ignored',
                key=fo.full + ' | user step')
    ctx.ok('C04.R1', fo, None, 'contribution of every assembly and of the '
           'gap: see C05.R4')


# ---------------------------------------------------------------------------
# R2: criteria vs operator coefficients

def _call_args(call, callee):
    """{param: arg expr} for positional/keyword args."""
    out = {}
    params = callee.params
    for p, a in zip(params, call.args):
        out[p] = a
    for k in call.keywords:
        out[k.arg] = k.value
    return out


def r2(ctx):
    repo = ctx.repo
    # ---- operator coefficients of the interior update (from C01 pieces)
    hc = repo.func('region_rodded', 'calculate_ht_constants')
    rr = hc.params[0]
    at = C01._atoms(rr)
    outer = [l for l in hc.node.body if isinstance(l, ast.For)
             and _s(l.iter) == 'range(3)']
    inner = [l for l in outer[0].body if isinstance(l, ast.For)]
    iv, jv = src(outer[0].target), src(inner[0].target)
    cond = {}
    for i in range(3):
        for j in range(3):
            if (i, j) in ((0, 2), (2, 0)):
                continue
            env = {iv: i, jv: j, '%s.n_pin' % rr: 19,
                   '%s.L[%s][%s]' % (rr, iv, jv): 1.0}
            e = C01._select(inner[0].body, env, lambda t: _s(t) ==
                            'ht_consts[%s][%s]' % (iv, jv))
            cond[(i, j)] = from_ast(C01._subst(e, {iv: i, jv: j}), at,
                                    auto=True)
    wallc = {}
    for st in ast.walk(hc.node):
        if isinstance(st, ast.Assign) and _s(st.targets[0]) in (
                'ht_consts[1][3]', 'ht_consts[2][4]'):
            t_ = 1 if '[1][3]' in _s(st.targets[0]) else 2
            wallc[t_] = from_ast(st.value, at, auto=True)
    if sorted(wallc) != [1, 2]:
        raise AnalysisError('wall constants ht_consts[1][3]/[2][4]')
    sh = repo.func('region_rodded', 'RoddedRegion._setup_ht_constants')
    sw = [st for t, st in U.stores(sh.node) if _s(t) == "self.ht['swirl']"]
    if len(sw) != 1:
        raise AnalysisError('ht[swirl] definition')
    swc = {}
    for t_ in (1, 2):
        swc[t_] = from_ast(sw[0].value, {
            "self.d['pin-wall']": 'dpw', "self.bundle_params['area']": 'Ab',
            'self.int_flow_rate': 'm', "self.params['area']": 'A%d' % t_},
            auto=True)
    # forms of the wall flux in the operator
    ci = repo.func('region_rodded', 'RoddedRegion._calc_coolant_int_temp')
    r1_ = U.single_def(ci.node, 'R1')
    r2_ = U.single_def(ci.node, 'R2')
    okf = r1_ is not None and _s(r1_) == '1 / tmp' and r2_ is not None and \
        _s(r2_) == "0.5 * self.d['wall'][0] / self.duct.thermal_conductivity"
    dts = [a for a in U.assigns_of(ci.node, 'dT_conv_over_R')]
    okf = okf and len(dts) == 2 and \
        '/ (R1 + R2)' in _s(dts[0].value) and \
        _s(dts[1].value).startswith('tmp * (')
    htc_def = [a for a in U.assigns_of(ci.node, 'tmp')
               if "coolant_int_params['htc']" in src(a.value)]
    okf = okf and len(htc_def) == 1 and _s(htc_def[0].value) == \
        "self.coolant_int_params['htc'][self.ht['conv']['type']]"
    ctx.require(okf, 'C04.R2', ci, dts[0] if dts else ci.node,
                'wall flux of the operator: h x dT, or dT / (1/h + wall/2k) '
                'with the convection approximation',
                key=ci.full + ' | wall flux forms')
    S = Rat.sym
    m_, Ab, cp, keff, rho, dw, kw = (S(x) for x in (
        'm', 'Ab', 'cp', 'keff', 'rho', 'dw', 'kw'))
    A = [S('A%d' % i) for i in range(3)]
    fs = [S('fs%d' % i) for i in range(3)]
    h = [None, S('h1'), S('h2')]
    v = [None, S('v1'), S('v2')]
    inv_mcp = [Rat.const(1) / (cp * fs[i]) for i in range(3)]
    one = Rat.const(1)

    def op_sum(t, nbrs, adiabatic, approx):
        tot = Rat.const(0)
        for j in nbrs:
            tot = tot + keff * cond[(t, j)] * inv_mcp[t]
        if t in (1, 2):
            if not adiabatic:
                flux = h[t] if not approx else one / (one / h[t] + dw / (
                    Rat.const(2) * kw))
                tot = tot + wallc[t] * flux * inv_mcp[t]
            tot = tot + swc[t] * rho * v[t] / fs[t]
        return tot
    # ---- criteria and their call sites
    cd = repo.func('region_rodded', '_calculate_int_dz')
    b = cd.params[0]
    mf = U.single_def(cd.node, 'sc_mfr')
    ok = mf is not None and _s(mf) == (
        "[%s.int_flow_rate * %s.coolant_int_params['fs'][i] * "
        "%s.params['area'][i] / %s.bundle_params['area'] for i in "
        "range(len(%s.coolant_int_params['fs']))]" % (b, b, b, b, b))
    ctx.require(ok, 'C04.R2', cd, mf if mf is not None else cd.node,
                'criterion mass flow = flow x flow split x area share (the '
                'operator\'s m_i)', key=cd.full + ' | sc_mfr')
    kd = U.single_def(cd.node, 'keff')
    kop = U.single_def(ci.node, 'keff')
    ok = False
    if kd is not None and kop is not None:
        ka = {'%s._sf' % b: 'sf', '%s.coolant.thermal_conductivity' % b: 'k',
              '%s.coolant.density' % b: 'rho',
              '%s.coolant.heat_capacity' % b: 'cp',
              "%s.coolant_int_params['eddy']" % b: 'eddy'}
        kb = {k_.replace(b + '.', 'self.'): v_ for k_, v_ in ka.items()}
        ok = from_ast(kd, ka, auto=True).equals(from_ast(kop, kb, auto=True))
    ctx.require(ok, 'C04.R2', cd, kd if kd is not None else cd.node,
                'criterion and operator use the same effective conductivity',
                key=cd.full + ' | keff agrees')
    arg_atoms = {
        '%s.coolant.heat_capacity' % b: 'cp', '%s.coolant.density' % b: 'rho',
        'keff': 'keff', "%s.d['pin-pin']" % b: 'dpp',
        "%s.d['pin-wall']" % b: 'dpw', "%s.d['wcorner'][0, 1]" % b: 'wc',
        "%s.d['wall'][0]" % b: 'dw',
        '%s.duct.thermal_conductivity' % b: 'kw'}
    for i in range(3):
        arg_atoms['sc_mfr[%d]' % i] = '_m%d' % i
        arg_atoms["%s.coolant_int_params['htc'][%d]" % (b, i)] = 'h%d' % i
        arg_atoms["%s.coolant_int_params['swirl'][%d]" % (b, i)] = 'v%d' % i
        for j in range(3):
            arg_atoms['%s.L[%d][%d]' % (b, i, j)] = 'L%d%d' % (min(i, j),
                                                               max(i, j))
    mi = [m_ * fs[i] * A[i] / Ab for i in range(3)]
    crit_calls = [c for c in ast.walk(cd.node) if isinstance(c, ast.Call)
                  and isinstance(c.func, ast.Name)
                  and c.func.id.startswith('_cons')]
    if len(crit_calls) < 6:
        raise AnalysisError('_calculate_int_dz: expected >= 6 criterion '
                            'calls, found %d' % len(crit_calls))
    n = 0
    for c in crit_calls:
        name = c.func.id
        callee = repo.func('region_rodded', name)
        t = int(name[5]) - 1
        nbrs = [int(ch) - 1 for ch in name.split('_')[2]]
        binding = _call_args(c, callee)
        for adiabatic, approx in ((False, False), (False, True),
                                  (True, False)):
            if t == 0 and (adiabatic or approx):
                continue
            args = {}
            for p in callee.params:
                if p in ('adiabatic', 'conv_approx'):
                    args[p] = adiabatic if p == 'adiabatic' else approx
                    continue
                if p not in binding:
                    raise AnalysisError('%s: parameter %s not bound at the '
                                        'call site' % (name, p))
                r = from_ast(binding[p], arg_atoms, auto=True)
                for i in range(3):
                    r = r._subs_rat('_m%d' % i, mi[i])
                args[p] = r
            crit = eval_function(callee, args)
            want = op_sum(t, nbrs, adiabatic, approx)
            n += 1
            okc = (one / crit).equals(want)
            scen = 'adiabatic' if adiabatic else (
                'coupled, convection approximation' if approx else 'coupled')
            ctx.require(
                okc, 'C04.R2', callee, callee.node,
                'step criterion %s (%s): its reciprocal is not the sum of the '
                'coefficients the update operator applies to a type-%d cell '
                'with neighbour types %s; residual (1/criterion - operator '
                'sum) has numerator %r -- with dz equal to this criterion the '
                'weight of the cell\'s own temperature is not 1 - 1 = 0 but '
                'can be negative (or the step is needlessly small)' % (
                    name, scen, t + 1, [x + 1 for x in nbrs],
                    ((one / crit) - want).n if not okc else 0),
                note=scen, key='%s | %s' % (callee.full, scen))
    ctx.extra['interior_criteria_scenarios'] = n
    # which criterion for which pin count (neighbour multisets by n_pin)
    for name, guard in (('_cons2_133', 'bundle.n_pin == 7'),
                        ('_cons2_122', 'bundle.n_pin > 19'),
                        ('_cons3_33', 'bundle.n_pin == 1')):
        cs = [c for c in crit_calls if c.func.id == name]
        gs = [(_s(t_), p) for c_ in cs for t_, p in U.guards(c_)]
        ctx.require((guard, True) in gs, 'C04.R2', cd,
                    cs[0] if cs else cd.node,
                    '%s applies when %s' % (name, guard),
                    key='%s | selection %s' % (cd.full, name))
    # ---- bypass gaps
    bd = repo.func('region_rodded', '_calculate_byp_dz')
    bb = bd.params[0]
    mfb = U.single_def(bd.node, 'byp_sc_mfr')
    ok = mfb is not None and _s(mfb) == (
        "%s.byp_flow_rate * %s.bypass_params['area'] / "
        "%s.bypass_params['total area']" % (bb, bb, bb))
    ctx.require(ok, 'C04.R2', bd, mfb if mfb is not None else bd.node,
                'bypass cell flow = gap flow x area share',
                key=bd.full + ' | byp_sc_mfr')
    batoms = {
        'byp_sc_mfr[i, 0]': 'm6', 'byp_sc_mfr[i, 1]': 'm7',
        '%s.L[5][5][i]' % bb: 'L55', '%s.L[5][6][i]' % bb: 'L56',
        '%s.L[6][6][i]' % bb: 'L66', "%s.d['bypass'][i]" % bb: 'db',
        "%s.d['wcorner'][i, 1]" % bb: 'wci',
        "%s.d['wcorner'][i + 1, 1]" % bb: 'wco',
        '%s.coolant.thermal_conductivity' % bb: 'k',
        '%s.coolant.heat_capacity' % bb: 'cp',
        "%s.coolant_byp_params['htc'][i, 0]" % bb: 'hb6',
        "%s.coolant_byp_params['htc'][i, 1]" % bb: 'hb7',
        "%s.d['wall'][i]" % bb: 'dw1', "%s.d['wall'][i + 1]" % bb: 'dw2',
        '%s.duct.thermal_conductivity' % bb: 'kw'}
    # operator: wall lengths (col 0 inner, col 1 outer), conduction d/L
    k_, db, cpb, kwb = S('k'), S('db'), S('cp'), S('kw')
    wl = {5: (S('L55'), S('L55')), 6: (Rat.const(2) * S('wci'),
                                       Rat.const(2) * S('wco'))}
    bf = repo.func('region_rodded', 'RoddedRegion._calc_coolant_byp_temp')
    bc = [a for a in U.assigns_of(bf.node, 'byp_conv_const')]
    ok = bool(bc) and _s(bc[0].value) == \
        "np.array([[self.L[1][1], self.L[1][1]], [2 * self.d['wcorner']" \
        "[i, 1], 2 * self.d['wcorner'][i + 1, 1]]])"
    geo = find_all('L[5][5] = [P for byp in range(n_bypass)]', repo.func(
        'region_rodded', 'calculate_geometry').node, 'stmt')
    geo2 = find_all('L[1][1] = P', repo.func(
        'region_rodded', 'calculate_geometry').node, 'stmt')
    ctx.require(ok and len(geo) == 1 and len(geo2) == 1, 'C04.R2', bf,
                bc[0] if bc else bf.node,
                'bypass wall lengths: edge cells pitch (L[1][1] = L[5][5] = '
                'P) on both walls, corner cells 2 x corner length of the '
                'inner / outer wall', key=bf.full + ' | wall lengths')
    Lb = {(5, 5): S('L55'), (5, 6): S('L56'), (6, 5): S('L56'),
          (6, 6): S('L66')}
    hb = {5: S('hb6'), 6: S('hb7')}
    mb = {5: S('m6'), 6: S('m7')}

    def op_sum_b(t, nbrs, adiabatic, approx):
        tot = Rat.const(0)
        for j in nbrs:
            tot = tot + k_ * db / (Lb[(t, j)] * mb[t] * cpb)
        for wall, (dwx, col) in (('in', (S('dw1'), 0)),
                                 ('out', (S('dw2'), 1))):
            if wall == 'out' and adiabatic:
                continue
            flux = hb[t] if not approx else one / (
                one / hb[t] + dwx / (Rat.const(2) * kwb))
            tot = tot + wl[t][col] * flux / (mb[t] * cpb)
        return tot
    bcalls = [c for c in ast.walk(bd.node) if isinstance(c, ast.Call)
              and isinstance(c.func, ast.Name)
              and c.func.id.startswith('_cons')]
    if len(bcalls) < 5:
        raise AnalysisError('_calculate_byp_dz: expected >= 5 criterion calls')
    nb = 0
    for c in bcalls:
        name = c.func.id
        callee = repo.func('region_rodded', name)
        t = int(name[5]) - 1
        nbrs = [int(ch) - 1 for ch in name.split('_')[2]]
        binding = _call_args(c, callee)
        for adiabatic, approx in ((False, False), (False, True),
                                  (True, False), (True, True)):
            args = {}
            for p in callee.params:
                if p in ('adiabatic_duct', 'conv_approx'):
                    args[p] = adiabatic if p == 'adiabatic_duct' else approx
                    continue
                args[p] = from_ast(binding[p], batoms, auto=True)
            crit = eval_function(callee, args)
            want = op_sum_b(t, nbrs, adiabatic, approx)
            nb += 1
            okc = (one / crit).equals(want)
            scen = ('adiabatic outer wall' if adiabatic else 'coupled') + (
                ', convection approximation' if approx else '')
            ctx.require(
                okc, 'C04.R2', callee, callee.node,
                'bypass step criterion %s (%s): reciprocal differs from the '
                'operator coefficient sum of a type-%d cell with neighbours '
                '%s; residual numerator %r' % (
                    name, scen, t + 1, [x + 1 for x in nbrs],
                    ((one / crit) - want).n if not okc else 0),
                note=scen, key='%s | %s' % (callee.full, scen))
    ctx.extra['bypass_criteria_scenarios'] = nb
    # operator side of the bypass: terms as modelled above
    h1 = find_all("dT_in = byp_conv_const[:, 0] * htc_i * (self.temp"
                  "['duct_surf'][i, 1] - self.temp['coolant_byp'][i])",
                  bf.node, 'stmt')
    h2 = find_all("dT[i] *= byp_fr_const", bf.node, 'stmt')
    h3 = find_all("dT[i] /= self.coolant.heat_capacity", bf.node, 'stmt')
    h4 = find_all("dT[i, sci] += self.coolant.thermal_conductivity * "
                  "self.ht['old'][type_i[sci]][type_a][i] * (self.temp"
                  "['coolant_byp'][i, sc_adj] - self.temp['coolant_byp']"
                  "[i, sci])", bf.node, 'stmt')
    ok = len(h1) == 1 and len(h2) == 1 and len(h3) == 1 and len(h4) == 1 and \
        h1[0][0].lineno < h2[0][0].lineno < h4[0][0].lineno < h3[0][0].lineno
    ctx.require(ok, 'C04.R2', bf, h2[0][0] if h2 else bf.node,
                'bypass operator: wall terms x 1/(cell flow), conduction '
                'constants (already per cell flow) added after, all divided '
                'by cp once', key=bf.full + ' | operator structure')
    # wall terms of the operator, both branches, as algebra: the terms the
    # criteria were compared with above must be the terms the update applies
    oatoms = {'byp_conv_const[:, 0]': 'wl0', 'byp_conv_const[:, 1]': 'wl1',
              'htc_i': 'h', "self.d['wall'][i]": 'dw1',
              "self.d['wall'][i + 1]": 'dw2',
              'self.duct.thermal_conductivity': 'kw',
              "self.temp['duct_mw'][i]": 'Tw1',
              "self.temp['duct_mw'][i + 1]": 'Tw2',
              "self.temp['duct_surf'][i, 1]": 'Ts1',
              "self.temp['duct_surf'][i + 1, 0]": 'Ts2',
              "self.temp['coolant_byp'][i]": 'T'}
    h_, T_ = S('h'), S('T')

    def model(approx, wall):
        wl_ = S('wl0' if wall == 'in' else 'wl1')
        if approx:
            dwx = S('dw1' if wall == 'in' else 'dw2')
            tw = S('Tw1' if wall == 'in' else 'Tw2')
            return wl_ * (one / (one / h_ + dwx / (Rat.const(2) * kwb_))) * (
                tw - T_)
        ts = S('Ts1' if wall == 'in' else 'Ts2')
        return wl_ * h_ * (ts - T_)
    kwb_ = S('kw')
    branch = [n for n in ast.walk(bf.node) if isinstance(n, ast.If)
              and _s(n.test) == 'self._conv_approx']
    if len(branch) != 1:
        raise AnalysisError('_calc_coolant_byp_temp: conv_approx branch')
    for approx, body in ((True, branch[0].body), (False, branch[0].orelse)):
        for wall, var in (('in', 'dT_in'), ('out', 'dT_out')):
            asg = [a for st in body for a in ast.walk(st)
                   if isinstance(a, ast.Assign) and len(a.targets) == 1
                   and _s(a.targets[0]) == var]
            okw = len(asg) == 1
            got = None
            if okw:
                e = U.value_at(bf.node, asg[0].value, asg[0].lineno,
                               keep=('htc_i', 'byp_conv_const', 'i'))
                try:
                    got = from_ast(e, oatoms, auto=True)
                    okw = got.equals(model(approx, wall))
                except NotPolynomial:
                    okw = False
            ctx.require(okw, 'C04.R2', bf, asg[0] if asg else branch[0],
                        'bypass operator, %s wall%s: the wall term must be '
                        'wall length x %s x (T_wall - T) with the thickness '
                        'and temperature of that wall (the step criteria '
                        'assume exactly this term)%s' % (
                            'inner' if wall == 'in' else 'outer',
                            ' (convection approximation)' if approx else '',
                            '1/(1/h + dw/2k)' if approx else 'h',
                            '; got %r' % (got.n,) if got is not None and
                            not okw else ''),
                        key='%s | wall term %s %s' % (
                            bf.full, wall, 'approx' if approx else 'film'))


# ---------------------------------------------------------------------------

def _expand_cols(e, col_atoms, ncol, scalars):
    """Rat of an expression over per-cell arrays with `ncol` neighbour
    columns: np.sum(X, axis=1) -> sum over the column symbols."""
    def rec(n):
        s = _s(n)
        if s in scalars:
            return Rat.sym(scalars[s])
        c = const(n)
        if isinstance(c, (int, float)) and not isinstance(c, bool):
            return Rat.const(Fraction(str(c)))
        if isinstance(n, ast.Call) and call_name(n) == 'np.sum' and \
                const(U.kwarg(n, 'axis')) == 1:
            tot = Rat.const(0)
            for k in range(ncol):
                tot = tot + col(n.args[0], k)
            return tot
        if isinstance(n, ast.BinOp):
            l, r = rec(n.left), rec(n.right)
            if isinstance(n.op, ast.Add):
                return l + r
            if isinstance(n.op, ast.Sub):
                return l - r
            if isinstance(n.op, ast.Mult):
                return l * r
            if isinstance(n.op, ast.Div):
                return l / r
        return Rat.sym('<%s>' % s)

    def col(n, k):
        s = _s(n)
        if s in col_atoms:
            return col_atoms[s](k)
        if isinstance(n, ast.BinOp):
            l, r = col(n.left, k), col(n.right, k)
            if isinstance(n.op, ast.Mult):
                return l * r
            if isinstance(n.op, ast.Div):
                return l / r
            if isinstance(n.op, ast.Add):
                return l + r
            if isinstance(n.op, ast.Sub):
                return l - r
        if s in scalars:
            return Rat.sym(scalars[s])
        c = const(n)
        if isinstance(c, (int, float)) and not isinstance(c, bool):
            return Rat.const(Fraction(str(c)))
        return Rat.sym('<%s>[%d]' % (s, k))
    return rec(e)


def r3(ctx):
    repo = ctx.repo
    S = Rat.sym
    one = Rat.const(1)
    # ---- gap: flow model
    cm = repo.func('core', 'calculate_min_dz')
    co = cm.params[0]
    t1 = [a for a in U.assigns_of(cm.node, 'term1')]
    t2 = [a for a in U.assigns_of(cm.node, 'term2')]
    dzd = [a for a in U.assigns_of(cm.node, 'dz') if isinstance(a, ast.Assign)
           and 'term1' in src(a.value)]
    dzd += [c.args[0] for c in ast.walk(cm.node) if isinstance(c, ast.Call)
            and _s(c.func) == 'dz.append' and 'term1' in src(c)]
    if not (t1 and t2 and dzd):
        raise AnalysisError('core.calculate_min_dz: term1/term2/dz')
    scal = {"%s.coolant_gap_params['htc']" % co: 'h',
            '%s._inv_sc_mfr' % co: 'im',
            '%s.gap_coolant.heat_capacity' % co: 'cp',
            '%s.gap_coolant.thermal_conductivity' % co: 'k',
            '%s.d_gap' % co: 'd'}
    cols = {"%s._conv_util['const']" % co: lambda k_: S('w%d' % k_),
            "%s.gap_params['L']" % co: lambda k_: S('L%d' % k_),
            '%s._Rcond' % co: lambda k_: S('d') / S('L%d' % k_)}
    e1 = _expand_cols(t1[0].value, cols, 3, scal)
    e2 = _expand_cols(t2[0].value, cols, 3, scal)
    crit_inv = e1 + e2
    ok = _s(getattr(dzd[0], 'value', dzd[0])) == '1 / (term1 + term2)'
    # operator coefficient sum of Core._flow_model
    h_, im, cp, k_, d_ = S('h'), S('im'), S('cp'), S('k'), S('d')
    want = Rat.const(0)
    for c in range(3):
        want = want + S('w%d' % c) * h_ * im / cp
        want = want + k_ * (d_ / S('L%d' % c)) * im / cp
    ctx.require(ok and crit_inv.equals(want), 'C04.R3', cm,
                t2[0] if not e2.equals(k_ * im / cp * (
                    d_ / S('L0') + d_ / S('L1') + d_ / S('L2'))) else dzd[0],
                'gap step criterion: 1/dz must be the coefficient sum of the '
                'flow model, sum_k w_k h /(m cp) + k sum_j (d_gap / L_j) / '
                '(m cp); the conduction part is %r instead of k d (1/L0 + '
                '1/L1 + 1/L2) /(m cp): dividing by the *sum* of the distances '
                'underestimates the coupling (by a factor 4 for two equal '
                'neighbours, 9 for three), so the selected step can make the '
                'own-temperature weight of a gap cell negative' % (e2,),
                key=cm.full + ' | conduction sum')
    # operator really is sum of Rcond * (T_j - T)
    fl = repo.func('core', 'Core._flow_model')
    hcd = find_all("dT += self.gap_coolant.thermal_conductivity * np.sum("
                   "self._Rcond * (self.coolant_gap_temp[self._sc_adj - 1] - "
                   "self.coolant_gap_temp[..., None]), axis=1)", fl.node,
                   'stmt')
    ctx.require(len(hcd) == 1, 'C04.R3', fl, hcd[0][0] if hcd else fl.node,
                'gap operator conduction = k x sum_j Rcond_j (T_j - T)',
                key=fl.full + ' | conduction operator')
    # ---- low-fidelity single node
    um = repo.func('region_unrodded', 'calculate_min_dz')
    rg = um.params[0]
    ua = {'%s.flow_rate' % rg: 'm', '%s.coolant.heat_capacity' % rg: 'cp',
          "%s.coolant_params['htc']" % rg: 'h', '%s.duct_perim' % rg: 'P',
          '%s.mratio' % rg: 'mr', '%s.duct_thickness' % rg: 'tw',
          '%s.duct.thermal_conductivity' % rg: 'kw',
          '%s.duct_perim_over_6' % rg: 'P6', '%s._scfr' % rg: 'm6',
          "%s._cond['const']" % rg: 'cc',
          '%s.coolant.thermal_conductivity' % rg: 'k'}
    m_, h1, P, mr, tw, kw, P6, m6, cc, kk = (S(x) for x in (
        'm', 'h', 'P', 'mr', 'tw', 'kw', 'P6', 'm6', 'cc', 'k'))
    # perimeter relation
    init = repo.func('region_unrodded', 'SingleNodeHomogeneous.__init__')
    hp = find_all('self.duct_perim_over_6 = self.duct_perim / 6', init.node,
                  'stmt')
    ctx.require(len(hp) == 1, 'C04.R3', init, hp[0][0] if hp else init.node,
                'duct_perim_over_6 = duct_perim / 6',
                key=init.full + ' | perimeter sixth')
    # operator of the single node: np.sum over six cells of h P/6 dT (or
    # P/6 / R dT), divided by m cp
    so = repo.func('region_unrodded',
                   'SingleNodeHomogeneous._calc_coolant_temp')
    dd = [a for a in U.assigns_of(so.node, 'dT_duct')]
    ok = len(dd) == 2 and 'self.duct_perim_over_6 / R' in _s(dd[0].value) \
        and "self.coolant_params['htc'] * self.duct_perim_over_6" in \
        _s(dd[1].value)
    ad = find_all('dT += np.sum(dT_duct)', so.node, 'stmt')
    extra = [a for a in walk_no_nested(so.node) if isinstance(a, ast.AugAssign)
             and _s(a.target) == 'dT_duct']
    ctx.require(ok and len(ad) == 1, 'C04.R3', so, dd[0] if dd else so.node,
                'single-node operator: six wall cells of h P/6 (or P/6 / R)',
                key=so.full + ' | operator')
    op_extra = Rat.const(1)
    for a in extra:
        if isinstance(a.op, ast.Mult):
            op_extra = op_extra * from_ast(a.value, {'self.mratio': 'mr'},
                                           auto=True)
    six = Rat.const(6)
    R = Rat.const(1) / Rat.const(2) * tw / kw + one / h1
    op = {False: six * h1 * P6 * op_extra / (m_ * S('cp')),
          True: six * P6 / R * op_extra / (m_ * S('cp'))}
    # criteria: the assignments `dz = ...` under model == 'simple'
    simple = [i for i in walk_no_nested(um.node) if isinstance(i, ast.If)
              and _s(i.test) == "%s.model == 'simple'" % rg]
    if len(simple) != 1:
        raise AnalysisError('unrodded calculate_min_dz: simple branch')
    for approx in (False, True):
        stmts = simple[0].body
        env = {}
        crit = None

        def walk(sts):
            nonlocal crit
            for st in sts:
                if isinstance(st, ast.If):
                    t = _s(st.test)
                    if t == 'not adiabatic_duct':
                        walk(st.body)
                    elif t == '%s._conv_approx' % rg:
                        walk(st.body if approx else st.orelse)
                    else:
                        raise AnalysisError('unrodded criterion: test ' + t)
                elif isinstance(st, ast.Assign) and isinstance(
                        st.targets[0], ast.Name):
                    v = from_ast(st.value, ua, env, auto=True)
                    env[st.targets[0].id] = v
                elif isinstance(st, ast.AugAssign) and isinstance(
                        st.target, ast.Name) and isinstance(st.op, ast.Add):
                    env[st.target.id] = env[st.target.id] + from_ast(
                        st.value, ua, env, auto=True)
        walk(stmts)
        crit = env.get('dz')
        if crit is None:
            raise AnalysisError('unrodded criterion: dz not found')
        crit = crit._subs_rat('P', six * P6)
        okc = (one / crit).equals(op[approx])
        scen = 'convection approximation' if approx else 'regular'
        ctx.require(
            okc, 'C04.R3', um, simple[0],
            'single-node low-fidelity step criterion (%s): 1/dz = %r but the '
            'operator applies %r to (T_wall - T): the criterion divides by '
            'the convection factor (mratio) although the heat transfer '
            'coefficient already carries it, so for a convection factor '
            'below one the allowed step is 1/mratio times too large and the '
            'coolant can overshoot the wall temperature' % (
                scen, one / crit, op[approx]),
            note=scen, key='%s | single node %s' % (um.full, scen))
    # htc carries mratio once
    up = repo.func('region_unrodded',
                   'SingleNodeHomogeneous._update_coolant_params')
    hm = find_all("self.coolant_params['htc'] *= self.mratio", up.node, 'stmt')
    ctx.require(len(hm) == 1, 'C04.R3', up, hm[0][0] if hm else up.node,
                'the convection factor is applied to the heat transfer '
                'coefficient (once)', key=up.full + ' | htc x mratio')
    # ---- six node
    six_if = [i for i in walk_no_nested(um.node) if isinstance(i, ast.If)
              and _s(i.test) == "%s.model == '6node'" % rg]
    mo = repo.func('region_unrodded',
                   'MultiNodeHomogeneous._calc_coolant_temp')
    mext = [a for a in walk_no_nested(mo.node) if isinstance(a, ast.AugAssign)
            and _s(a.target) == 'dT_duct' and isinstance(a.op, ast.Mult)]
    mex = Rat.const(1)
    for a in mext:
        mex = mex * from_ast(a.value, {'self.mratio': 'mr'}, auto=True)
    if len(six_if) == 1:
        for approx in (False, True):
            env = {}

            def walk6(sts):
                for st in sts:
                    if isinstance(st, ast.If):
                        t = _s(st.test)
                        if t == 'not adiabatic_duct':
                            walk6(st.body)
                        elif t == '%s._conv_approx' % rg:
                            walk6(st.body if approx else st.orelse)
                        else:
                            raise AnalysisError('6node criterion: ' + t)
                    elif isinstance(st, ast.Assign) and isinstance(
                            st.targets[0], ast.Name):
                        env[st.targets[0].id] = from_ast(st.value, ua, env,
                                                         auto=True)
                    elif isinstance(st, ast.AugAssign) and isinstance(
                            st.target, ast.Name) and isinstance(
                                st.op, ast.Add):
                        env[st.target.id] = env[st.target.id] + from_ast(
                            st.value, ua, env, auto=True)
            walk6(six_if[0].body)
            crit = env.get('dz')
            flux = h1 if not approx else one / R
            want = Rat.const(2) * kk * cc / (m6 * S('cp')) + \
                P6 * flux * mex / (m6 * S('cp'))
            okc = crit is not None and (one / crit).equals(want)
            ctx.require(okc, 'C04.R3', um, six_if[0],
                        'six-node criterion (%s) must be the reciprocal of 2 '
                        'k const/(m6 cp) + P/6 x flux x factor/(m6 cp): %r vs '
                        '%r' % ('approx' if approx else 'regular',
                                (one / crit) if crit is not None else None,
                                want),
                        key='%s | six node %s' % (um.full, approx))


# ---------------------------------------------------------------------------

def r5(ctx):
    repo = ctx.repo
    nf = repo.func('core', 'Core._noflow_model')
    S = Rat.sym
    # build T as written, with every temperature := 1 -> must equal 1
    env = {}
    atoms = {"self._conv_util['const']": None}
    body = [s for s in nf.node.body if isinstance(s, (ast.Assign,
                                                      ast.AugAssign,
                                                      ast.Return))]
    at = {}
    for c in range(3):
        at["R_conv[:, %d]" % c] = 'a%d' % c
        at["R_cond[:, %d]" % c] = 'b%d' % c
        at["t_duct[tuple(self._conv_util['inds'][%d])]" % c] = 'one'
        at["adj_ctemp[:, %d]" % c] = '_adj%d' % c
    val = {}
    ret = None
    for st in body:
        if isinstance(st, ast.Assign) and isinstance(st.targets[0], ast.Name):
            nm = st.targets[0].id
            if nm in ('R_conv', 'R_cond'):
                continue
            if nm == 'adj_ctemp':
                okadj = _s(st.value) == \
                    'self.coolant_gap_temp[self._sc_adj - 1] * R_cond'
                ctx.require(okadj, 'C04.R5', nf, st, 'neighbour temperatures '
                            'are weighted by the conduction constants',
                            key=nf.full + ' | adj weights')
                continue
            val[nm] = from_ast(st.value, at, val, auto=True)
        elif isinstance(st, ast.AugAssign) and isinstance(st.target, ast.Name):
            v = from_ast(st.value, at, val, auto=True)
            if isinstance(st.op, ast.Add):
                val[st.target.id] = val[st.target.id] + v
        elif isinstance(st, ast.Return):
            ret = from_ast(st.value, at, val, auto=True)
    if ret is None:
        raise AnalysisError('_noflow_model: return')
    r = ret._subs_rat('one', Rat.const(1))
    for c in range(3):
        r = r._subs_rat('_adj%d' % c, S('b%d' % c))   # T_j := 1 -> b_c * 1
    ctx.require(r.equals(Rat.const(1)), 'C04.R5', nf, nf.node,
                'no-flow gap model: with all coupled temperatures equal to 1 '
                'the result must be 1 (weights = the six columns in the '
                'numerator, normalised by exactly their sum); got %r' % (r,),
                key=nf.full + ' | convex combination')
    da = repo.func('core', 'Core._duct_average_model')
    rets = [x for x in walk_no_nested(da.node) if isinstance(x, ast.Return)]
    ok = len(rets) == 1 and _s(rets[0].value) == \
        'np.sum((T0, T1, T2), axis=0) / np.count_nonzero((T0, T1, T2), ' \
        'axis=0)'
    ctx.require(ok, 'C04.R5', da, rets[0] if rets else da.node,
                'duct-average model: masked sum divided by the count of the '
                'same three arrays', key=da.full + ' | average')
    st = repo.func('region_rodded',
                   'RoddedRegion._calc_coolant_byp_temp_stagnant')
    nm = U.single_def(st.node, 'norm')
    h = find_all('byp_conv_const = byp_conv_const / norm.reshape('
                 'len(byp_conv_const), 1)', st.node, 'stmt')
    ok = nm is not None and _s(nm) == 'np.sum(byp_conv_const, axis=1)' and \
        len(h) == 1
    ctx.require(ok, 'C04.R5', st, h[0][0] if h else st.node,
                'stagnant bypass: wall weights are the wall lengths '
                'normalised by their sum (convex combination of the two wall '
                'temperatures)', key=st.full + ' | normalised weights')


# ---------------------------------------------------------------------------

def r6(ctx):
    repo = ctx.repo
    sites = [
        ('region_rodded', 'RoddedRegion._calc_coolant_int_temp',
         ["self.temp['coolant_int'][self.ht['cond']['adj']] - "
          "self.temp['coolant_int'][:, np.newaxis]",
          "self.temp['duct_mw'][0, self.ht['conv']['adj']] - "
          "self.temp['coolant_int'][self.ht['conv']['ind']]",
          "self.temp['duct_surf'][0, 0, self.ht['conv']['adj']] - "
          "self.temp['coolant_int'][self.ht['conv']['ind']]",
          "self.temp['coolant_int'][self.subchannel.sc_adj[self.ht['conv']"
          "['ind'], self._adj_sw]] - self.temp['coolant_int'][self.ht['conv']"
          "['ind']]"]),
        ('region_rodded', 'RoddedRegion._calc_coolant_byp_temp',
         ["self.temp['duct_surf'][i, 1] - self.temp['coolant_byp'][i]",
          "self.temp['duct_surf'][i + 1, 0] - self.temp['coolant_byp'][i]",
          "self.temp['duct_mw'][i] - self.temp['coolant_byp'][i]",
          "self.temp['duct_mw'][i + 1] - self.temp['coolant_byp'][i]",
          "self.temp['coolant_byp'][i, sc_adj] - self.temp['coolant_byp']"
          "[i, sci]"]),
        ('core', 'Core._flow_model',
         ["t_duct[tuple(self._conv_util['inds'][0])] - self.coolant_gap_temp",
          "t_duct[tuple(self._conv_util['inds'][1])] - self.coolant_gap_temp",
          "t_duct[tuple(self._conv_util['inds'][2])] - self.coolant_gap_temp",
          "self.coolant_gap_temp[self._sc_adj - 1] - self.coolant_gap_temp"
          "[..., None]"]),
        ('region_unrodded', 'SingleNodeHomogeneous._calc_coolant_temp',
         ["self.temp['duct_mw'][0] - self.temp['coolant_int'][0]",
          "self.temp['duct_surf'][0, 0] - self.temp['coolant_int'][0]"]),
        ('region_unrodded', 'MultiNodeHomogeneous._calc_coolant_temp',
         ["np.sum(self.temp['coolant_int'][self._cond['adj']], axis=1) - "
          "2 * self.temp['coolant_int']",
          "self.temp['duct_mw'][0] - self.temp['coolant_int']",
          "self.temp['duct_surf'][0, 0] - self.temp['coolant_int']"]),
    ]
    for modn, q, pats in sites:
        fi = repo.func(modn, q)
        # every temperature difference in the function must be one of the
        # recognised (neighbour - self) forms
        diffs = [n for n in ast.walk(fi.node) if isinstance(n, ast.BinOp)
                 and isinstance(n.op, ast.Sub) and (
                     'temp' in src(n.left) or 't_duct' in src(n.left))
                 and 'temp' in src(n.right) and 'coolant' in src(n.right)
                 and not isinstance(n.left, ast.BinOp)
                 and not any(isinstance(a_, ast.Call) and 'update_ebal' in
                             src(a_.func) for a_ in C01._anc(n))]
        want = {' '.join(p.split()) for p in pats}
        # T[i][j] with a scalar loop index i is the element T[i, j]
        text = {id(d): _s(merge_scalar_subscripts(d)) for d in diffs}
        for d in diffs:
            ctx.require(text[id(d)] in want, 'C04.R6', fi, d,
                        'temperature difference with the cell\'s own '
                        'temperature as minuend (or an unrecognised '
                        'orientation): a negative neighbour weight',
                        key='%s | %s' % (fi.full, text[id(d)][:70]))
        seen = set(text.values())
        for p in sorted(want - seen):
            if 'duct_mw' in p and 'byp' not in q and not any(
                    'duct_mw' in x for x in seen):
                pass
            ctx.violation('C04.R6', fi, None,
                          'the exchange term (%s) is no longer present in the '
                          'form neighbour - self: it was removed or its '
                          'orientation was reversed' % p[:90],
                          key='%s | missing %s' % (fi.full, p[:70]))


# ---------------------------------------------------------------------------
# R7: property evaluation cannot be skipped

def r7(ctx):
    from ..cfg import cfg_of
    for cls_ in ('Material',):
        ci = ctx.repo.cls('material', cls_)
        m = ci.methods.get('update')
        if m is None:
            raise AnalysisError('Material.update vanished')
        g = cfg_of(m)
        sets = g.find(lambda n: isinstance(n, ast.Call) and
                      call_name(n) == 'setattr')
        loops = [n for n in walk_no_nested(m.node) if isinstance(n, ast.For)
                 and '_data' in src(n.iter)]
        ok = len(sets) >= 1 and len(loops) == 1 and not U.guards(loops[0])
        early = [n for n in walk_no_nested(m.node)
                 if isinstance(n, ast.Return) and n.lineno < (
                     loops[0].lineno if loops else 0)]
        ctx.require(ok and not early, 'C04.R7', m,
                    early[0] if early else m.node,
                    'Material.update must evaluate every property function '
                    'at the requested temperature on every call (an early '
                    'return / cache makes later evaluations depend on what '
                    'the label was set to before)',
                    key=m.full + ' | unconditional evaluation')
        tp = [st for t, st in U.stores(m.node) if src(t) == 'self.temperature']
        ctx.require(len(tp) == 1 and not U.guards(tp[0]), 'C04.R7', m,
                    tp[0] if tp else m.node,
                    'the temperature label is set with the evaluation',
                    key=m.full + ' | label')
