"""C17.R11 -- a dimensional input value is converted whenever it is there.

Clause.  C17 asks that *every* length / temperature / flow rate of the input
is converted to SI, each exactly once.  R1 counts the stores `P = conv(P)`
of the three converters of the reader; it does not look at the conditions
under which such a store runs.  The conversion of P happens "for every
input" only if the way to the store is conditioned on nothing but the
question **whether P holds a value to convert**:

  * P, or a container on the access path to P (a section, a ByPosition
    entry, the list P is a member of), or a value the converted expression
    is made of, is present / not None / not empty;
  * P itself is "truthy" or differs from a number -- admissible only when
    every value for which the store is skipped is a fixed point of every
    `utils._x_to_<SI>` converter of the dimension (0 for the linear
    dimensions, nothing for a temperature: 0 C is not 0 K);
  * the unit of the converter's own dimension is not the default one (the
    conversion would be the identity).

Anything else on the way -- the value (or presence) of *another* input key
(`if region.get('hydraulic_diameter'): region['epsilon'] = conv(...)`), a test
that selects some members of the collection the converter walks
(`if k == 'rods': continue`), the magnitude of P, a loop that walks a slice
of the collection -- makes the conversion of P depend on something that does
not decide whether P is a quantity in the user's unit: for the inputs on the
other side of the condition P reaches the model unconverted, while the same
problem written in SI is not affected.

Decided on values: the tests are the lexical guards of the store plus the
flow-based path conditions (early `continue` / `return`), decomposed along
and/or/not (a disjunction is admissible when one disjunct is, a conjunction
when all are); locals are expanded flow-sensitively (`U.value_at`), aliases
of input sub-dictionaries and `.get()` / `.keys()` are resolved with
`dsa/inputpaths`, loops over literal key lists are instantiated key by key
so that the key of the test and the key of the store stay paired; paths are
compared component-wise together with the expanded text of their variable
indices (so another member `[b]` is not the member `[a]`).
"""
import ast
import itertools
import re
from fractions import Fraction

from ..core import AnalysisError, call_name, const, src
from .. import util as U
from .. import schema as S
from .. import inputpaths as IP
from .. import dataflow
from . import c17 as C
from . import _f_c17 as F

PROPS = ('C17',)
RULE = 'C17.R11'

STAR = IP.STAR
_DIMS = {'convert_length': ('length',),
         'convert_temperature': ('temperature',),
         'convert_mass_flow_rate': ('mass', 'time')}
_UNITS = ('Setup', 'Units')
_DEFAULT_RE = re.compile(r"_DEFAULT_UNITS\[['\"](\w+)['\"]\]$")
_WRAP = ('list', 'sorted', 'tuple', 'enumerate', 'reversed')


class _Subst(ast.NodeTransformer):
    def __init__(self, env):
        self.env = env

    def visit_Name(self, n):
        if isinstance(n.ctx, ast.Load) and n.id in self.env:
            return ast.Constant(value=self.env[n.id])
        return n


def _names(e):
    return {n.id for n in ast.walk(e) if isinstance(n, ast.Name)}


class _Site:
    """One store `P = conv(X)` of a converter, for one assignment of the
    literal-key loop variables around it."""

    def __init__(self, ctx, fi, roots, aliases, keys, sections, maps, dim,
                 convnames, unit_names, st, env):
        self.ctx, self.fi, self.roots, self.aliases = ctx, fi, roots, aliases
        self.keys, self.sections, self.maps, self.dim = keys, sections, \
            maps, dim
        self.convnames, self.unit_names = convnames, unit_names
        self.st, self.env = st, env

    # -- expressions -------------------------------------------------------
    def expand(self, e, line):
        """Value of e at `line`: locals replaced by what they were last
        bound to, literal-loop keys by the key of this instance."""
        v = U.value_at(self.fi.node, e, line, keep=self.convnames)
        v = _Subst(self.env).visit(v)
        return ast.fix_missing_locations(v)

    def loc(self, e):
        """[(path, index texts | None)] of an expression that denotes a
        place in the input, else None.  `e` is expanded already."""
        if isinstance(e, (ast.BoolOp, ast.IfExp)):
            return None
        try:
            ps = IP.resolve(self.fi.node, e, self.roots, self.aliases,
                            line=self.st.lineno)
        except Exception:
            ps = None
        if not ps:
            return None
        root, subs = IP.chain(e)
        texts = [' '.join(src(s).split()) for s in subs] \
            if src(root) in self.roots else None
        out = []
        for p in ps:
            t = texts if texts is not None and len(texts) == len(p) else None
            out.append((tuple(p), t))
        return out

    @staticmethod
    def is_prefix(q, p, proper=False):
        (qp, qt), (pp, pt) = q, p
        if len(qp) > len(pp) or (proper and len(qp) == len(pp)):
            return False
        for i, c in enumerate(qp):
            if c != pp[i]:
                return False
            if c == STAR and qt is not None and pt is not None and \
                    qt[i] != pt[i]:
                return False
        return True

    def reads(self, e):
        """Input places read by an (expanded) expression: maximal chains."""
        out = []

        def rec(n):
            if isinstance(n, (ast.Subscript, ast.Name)) or (
                    isinstance(n, ast.Call) and isinstance(
                        n.func, ast.Attribute) and n.func.attr in (
                            'get', 'keys', 'values', 'items')):
                r = self.loc(n)
                if r:
                    out.extend(r)
                    return
            for c in ast.iter_child_nodes(n):
                rec(c)
        rec(e)
        return out

    # -- kinds -------------------------------------------------------------
    def scalar(self, path):
        """True: a number; False: a list / section; None: unknown."""
        if path and path[0] == 'Assignment':
            return path[-1] in ('outlet_temp', 'delta_temp', 'flowrate')
        kind, obj = IP.match_schema(path, self.keys, self.sections)
        if kind == 'key':
            return obj.typ in ('float', 'integer')
        if kind == 'list':
            return True
        if kind == 'section':
            return False
        return None

    def fixed(self, v):
        """None if every converter of the dimension maps v to v, else the
        (converter, image) that does not."""
        dim = 'mass_flow_rate' if self.dim in ('mass', 'time') else self.dim
        return F._changed_by(self.maps, dim, Fraction(str(v)))

    def schema_min(self, path):
        kind, obj = IP.match_schema(path, self.keys, self.sections)
        if kind != 'key':
            return None
        m = obj.arg('min')
        try:
            return Fraction(m) if m is not None else None
        except ValueError:
            return None


def _strip_len(e):
    if isinstance(e, ast.Call) and call_name(e) == 'len' and len(e.args) == 1:
        return e.args[0], True
    return e, False


def _is_empty_display(e):
    return (isinstance(e, (ast.List, ast.Tuple, ast.Set)) and not e.elts) or \
        (isinstance(e, ast.Dict) and not e.keys) or \
        (isinstance(e, ast.Constant) and e.value == '' and
         isinstance(e.value, str))


_FLIP = {ast.Lt: ast.Gt, ast.Gt: ast.Lt, ast.LtE: ast.GtE, ast.GtE: ast.LtE,
         ast.Eq: ast.Eq, ast.NotEq: ast.NotEq, ast.Is: ast.Is,
         ast.IsNot: ast.IsNot}


def _atom(site, test, P, sources):
    """None when the elementary test is admissible on the way to the
    conversion of P, else (category, stable description, message)."""
    te = site.expand(test, getattr(test, 'lineno', site.st.lineno))
    shown = ' '.join(src(test).split())
    own = [P] + sources

    def about(q, proper=False):
        return any(site.is_prefix(q, o, proper) for o in own)

    def same(q):
        return any(q[0] == o[0] and site.is_prefix(q, o) for o in own)

    def other_input(qs, how):
        q = [x for x in qs if not about(x)][0]
        return ('other-input', 'depends on %s' % IP.fmt(q[0]),
                'the conversion of %s is conditioned on %s `%s` (%s) -- '
                'that does not decide whether %s holds a quantity in the '
                'user\'s unit: for the inputs on the other side of the test '
                'the value reaches the model unconverted, while the same '
                'problem written in SI is not affected'
                % (IP.fmt(P[0]), how, shown, IP.fmt(q[0]), IP.fmt(P[0])))

    # --- the unit itself --------------------------------------------------
    units = [q for q in site.reads(te) if q[0][:2] == _UNITS] or \
        (_names(te) & site.unit_names)
    if units:
        ok = False
        if isinstance(te, ast.Compare) and len(te.ops) == 1 and isinstance(
                te.ops[0], (ast.In, ast.NotIn)):
            m = _DEFAULT_RE.search(' '.join(src(te.comparators[0]).split()))
            ok = bool(m) and m.group(1) in _DIMS[site.fi.name]
        if ok:
            return None
        return ('unit', 'unit test %s' % shown[:80],
                'the conversion of %s is conditioned on the unit setting '
                '`%s`, which is not the test "unit of this dimension is not '
                'the default one": for some supported unit the value is not '
                'converted' % (IP.fmt(P[0]), shown))

    # --- comparisons ------------------------------------------------------
    if isinstance(te, ast.Compare) and len(te.ops) == 1:
        l, op, r = te.left, te.ops[0], te.comparators[0]
        if isinstance(op, (ast.In, ast.NotIn)):
            k = const(l)
            qs = site.loc(r)
            if isinstance(k, str) and qs:
                qs = [(q[0] + (k,), (q[1] + [repr(k)]) if q[1] is not None
                       else None) for q in qs]
                if all(about(q) for q in qs):
                    return None
                return other_input(qs, 'the presence of another key,')
        else:
            for a, b, opc in ((l, r, type(op)), (r, l, _FLIP.get(type(op)))):
                a0, is_len = _strip_len(a)
                qs = site.loc(a0)
                if not qs or opc is None:
                    continue
                if isinstance(b, ast.Constant) and b.value is None and \
                        not is_len and opc in (ast.Is, ast.IsNot, ast.Eq,
                                               ast.NotEq):
                    if all(about(q) for q in qs):
                        return None
                    return other_input(qs, 'another input being None,')
                if _is_empty_display(b) and not is_len and opc in (
                        ast.Eq, ast.NotEq):
                    if all(about(q) for q in qs):
                        return None
                    return other_input(qs, 'another input being empty,')
                c = const(b)
                if isinstance(c, bool) or not isinstance(c, (int, float)):
                    continue
                if is_len:
                    if (opc, c) in ((ast.Eq, 0), (ast.NotEq, 0), (ast.Gt, 0),
                                    (ast.GtE, 1), (ast.Lt, 1), (ast.LtE, 0)):
                        if all(about(q) for q in qs):
                            return None
                        return other_input(qs, 'the length of another input,')
                    continue
                if not all(about(q) for q in qs):
                    return other_input(qs, 'the value of another input,')
                if not all(same(q) for q in qs):
                    continue
                if opc in (ast.Eq, ast.NotEq):
                    skipped = c
                elif opc is ast.Gt and c == 0 and all(
                        (site.schema_min(q[0]) or -1) >= 0 for q in qs):
                    skipped = 0          # admissible values: > 0 or == 0
                else:
                    return ('magnitude', 'magnitude test %s' % shown[:80],
                            'the conversion of %s is conditioned on its '
                            'magnitude `%s`: the values on the other side of '
                            'the comparison stay in the user\'s unit'
                            % (IP.fmt(P[0]), shown))
                ch = site.fixed(skipped)
                if ch is None:
                    return None
                return ('not-fixed', 'skips the value %s' % skipped,
                        'the conversion of %s is skipped when it equals %s '
                        '(`%s`), but utils.%s maps %s to %s: that value is '
                        'a different quantity in the user\'s unit and in SI'
                        % (IP.fmt(P[0]), skipped, shown, ch[0], skipped,
                           float(ch[1])))

    # --- truth value ------------------------------------------------------
    a0, is_len = _strip_len(te)
    qs = site.loc(a0)
    if qs:
        if not all(about(q) for q in qs):
            return other_input(qs, 'the value of another input,')
        if is_len or all(about(q, proper=True) and not same(q) for q in qs):
            return None                  # a container on the way to P
        if all(site.scalar(q[0]) is False for q in qs):
            return None                  # the list P itself: [] / None
        ch = site.fixed(0)
        if ch is None:
            return None
        return ('not-fixed', 'skips the value 0',
                'the conversion of %s is skipped when `%s` is false, i.e. '
                'also for the value 0, but utils.%s maps 0 to %s: 0 in the '
                'user\'s unit is not 0 in SI'
                % (IP.fmt(P[0]), shown, ch[0], float(ch[1])))

    # --- anything else ----------------------------------------------------
    others = [q for q in site.reads(te) if not about(q)]
    if others:
        return other_input(others, 'a test on another input,')
    idx = set()
    if P[1] is not None:
        for t, c in zip(P[1], P[0]):
            if c == STAR:
                try:
                    idx |= _names(ast.parse(t, mode='eval'))
                except SyntaxError:
                    pass
    sel = sorted(_names(te) & idx)
    if sel:
        return ('member', 'selects members by %s: %s' % (','.join(sel),
                                                         shown[:80]),
                'the conversion of %s is conditioned on `%s`, a test on the '
                'position `%s` of the member in the collection the converter '
                'walks: only some members are converted, the others keep the '
                'user\'s unit' % (IP.fmt(P[0]), shown, ', '.join(sel)))
    return ('other', 'conditioned on %s' % shown[:80],
            'the conversion of %s is conditioned on `%s`, which is not a '
            'test of whether that value is given (presence / None / empty / '
            'a value every conversion leaves unchanged)'
            % (IP.fmt(P[0]), shown))


def _judge(site, test, pol, P, sources):
    """Problems [(category, description, message)] of a guard; [] when the
    guard only asks whether P holds a value."""
    if isinstance(test, ast.UnaryOp) and isinstance(test.op, ast.Not):
        return _judge(site, test.operand, not pol, P, sources)
    if isinstance(test, ast.BoolOp):
        res = [_judge(site, v, pol, P, sources) for v in test.values]
        conj = (isinstance(test.op, ast.And) and pol) or \
            (isinstance(test.op, ast.Or) and not pol)
        if not conj and any(not r for r in res):
            return []       # skipped only if the admissible disjunct fails
        return [x for r in res for x in r]
    a = _atom(site, test, P, sources)
    return [a] if a else []


def _literal_loops(fi, st):
    """[(name, [keys])] of the loops over literal lists of keys around st."""
    out = []
    for lp in U.enclosing_loops(st):
        if isinstance(lp, ast.For) and isinstance(lp.target, ast.Name):
            it = U.value_at(fi.node, lp.iter, lp.lineno)
            lit = U.literal_list(it)
            if isinstance(lit, (list, tuple)) and lit and all(
                    isinstance(x, (str, int)) and not isinstance(x, bool)
                    for x in lit):
                out.append((lp.target.id, list(lit)))
    return out


def _loop_domain(site, lp, P):
    """None when the loop `lp` around the store walks the whole collection
    its variable indexes in P (or does not index P), else a message."""
    tn = _names(lp.target)
    if P[1] is None:
        return None
    pos = [i for i, (c, t) in enumerate(zip(P[0], P[1]))
           if c == STAR and _names(ast.parse(t, mode='eval')) & tn]
    if not pos:
        return None
    for n in ast.walk(lp):
        if isinstance(n, ast.Return) or (isinstance(n, ast.Break) and [
                x for x in U.enclosing_loops(n)][:1] == [lp]):
            return ('the loop `for %s in %s` supplies the position of %s '
                    'but can be left early (`%s` at its %s statement): the '
                    'members after that point keep the user\'s unit'
                    % (src(lp.target), ' '.join(src(lp.iter).split()),
                       IP.fmt(P[0]), 'break' if isinstance(n, ast.Break)
                       else 'return', ' '.join(src(U.guards(n)[0][0]).split())
                       if U.guards(n) else 'unconditional'))
    it = site.expand(lp.iter, lp.lineno)
    # range(len(X)) / enumerate(X) / list(X) / sorted(X) / X.keys()
    for _ in range(4):
        nm = call_name(it) if isinstance(it, ast.Call) else None
        if nm == 'range' and len(it.args) == 1 and not it.keywords and \
                isinstance(it.args[0], ast.Call) and call_name(
                    it.args[0]) == 'len' and len(it.args[0].args) == 1:
            it = it.args[0].args[0]
        elif nm in _WRAP and len(it.args) == 1 and not it.keywords:
            it = it.args[0]
        else:
            break
    qs = site.loc(it)
    if qs and all(len(q[0]) == pos[0] and site.is_prefix(q, P, proper=True)
                  for q in qs):
        return None
    return ('the loop `for %s in %s` supplies the position of %s but does '
            'not walk the whole collection %s: the members it leaves out '
            'keep the user\'s unit'
            % (src(lp.target), ' '.join(src(lp.iter).split()),
               IP.fmt(P[0]), IP.fmt(P[0][:pos[0]])))


def _unit_names(fi, roots, aliases):
    """Locals that carry (a part of) the unit setting."""
    out = set()
    for _ in range(4):
        n0 = len(out)
        for st in U.walk_no_nested(fi.node):
            if not isinstance(st, ast.Assign):
                continue
            hit = bool(_names(st.value) & out)
            for x in ast.walk(st.value):
                if isinstance(x, ast.Subscript):
                    try:
                        ps = IP.resolve(fi.node, x, roots, aliases)
                    except Exception:
                        ps = None
                    if ps and any(tuple(p[:2]) == _UNITS for p in ps):
                        hit = True
            if hit:
                for t in st.targets:
                    for e in (t.elts if isinstance(t, (ast.Tuple, ast.List))
                              else [t]):
                        if isinstance(e, ast.Name):
                            out.add(e.id)
        if len(out) == n0:
            break
    return out


def _reported_by_r1(ctx, fname):
    """C17.R1 / R2 has reported (as a new violation, exit 1) a store of this
    converter that is not a conversion of its own path, or a path that is
    never converted: the stores R11 cannot find are accounted for by that
    report, so their absence is not blindness of R11."""
    return any(v['rule'] in ('C17.R1', 'C17.R2') and
               ('(%s)' % fname) in v.get('where', '')
               for v in ctx.violations)


def run(ctx):
    ctx.decided.append(
        'R11 a dimensional input value is converted whenever it is there: '
        'on the way to every store P = conv(P) of convert_length / '
        'convert_temperature / convert_mass_flow_rate (lexical guards and '
        'flow-based path conditions, locals expanded, literal-key loops '
        'instantiated) every condition only asks whether P -- or a '
        'container on the path to P, or a value the converted expression is '
        'made of -- is present / not None / not empty / not a value every '
        'converter of the dimension leaves unchanged, or whether the unit '
        'of the dimension is the default one; never the value or presence '
        'of another input key, the position of the member, the magnitude of '
        'P; and every loop that supplies an index of P walks the whole '
        'collection')
    repo = ctx.repo
    keys, sections = S.parse_template(repo.template_text)
    maps = F._conversions(ctx)
    n_sites = n_atoms = 0
    for fname, dims in _DIMS.items():
        fi, convs = C._converter_info(ctx, fname, None, None)
        if not convs:
            raise AnalysisError('%s obtains no utils.get_*_conversion'
                                % fname)
        roots = {'data'}
        aliases = IP.local_aliases(fi.node, roots)
        unit_names = _unit_names(fi, roots, aliases)
        convnames = set(convs)
        seen_here = 0
        loops_done = set()
        for t, st in U.stores(fi.node):
            if isinstance(t, ast.Name) or not isinstance(st, ast.Assign):
                continue
            if IP.resolve(fi.node, t, roots, aliases) is None:
                continue
            app = C._conv_application(fi, st.value, convnames)
            if app is None:
                continue            # not a conversion: R2 reports it
            loops = _literal_loops(fi, st)
            conds = []
            for test, pol in U.guards(st) + dataflow.path_conditions(fi, st):
                k = (' '.join(src(test).split()), pol)
                if k not in [c[2] for c in conds]:
                    conds.append((test, pol, k))
            for combo in itertools.product(*[v for _, v in loops]):
                env = dict(zip([n for n, _ in loops], combo))
                site = _Site(ctx, fi, roots, aliases, keys, sections, maps,
                             dims[0], convnames, unit_names, st, env)
                Ps = site.loc(site.expand(t, st.lineno))
                if not Ps:
                    raise AnalysisError(
                        '%s: target of the conversion store `%s` is not '
                        'understood' % (fname, ' '.join(src(t).split())))
                srcx = ast.fix_missing_locations(
                    _Subst(env).visit(U._clone(app[0])))
                sources = site.reads(srcx)
                for P in Ps:
                    n_sites += 1
                    seen_here += 1
                    problems = []
                    for test, pol, _k in conds:
                        n_atoms += 1
                        for cat, desc, msg in _judge(site, test, pol, P,
                                                     sources):
                            problems.append((test, cat, desc, msg))
                    for lp in U.enclosing_loops(st):
                        if isinstance(lp, ast.For) and lp.target is not None \
                                and not (isinstance(lp.target, ast.Name) and
                                         lp.target.id in env):
                            m = _loop_domain(site, lp, P)
                            if m:
                                problems.append((lp.iter, 'loop', 'loop over '
                                                 + ' '.join(src(
                                                     lp.iter).split())[:80],
                                                 m))
                    if not problems:
                        ctx.ok(RULE, fi, st, '%s is converted whenever it is '
                               'given (%d condition(s) on the way, all about '
                               'its own presence)' % (IP.fmt(P[0]),
                                                      len(conds)))
                        continue
                    done = set()
                    for node, cat, desc, msg in problems:
                        key = '%s | %s %s' % (fi.full, IP.fmt(P[0]), desc)
                        if cat == 'loop':
                            # one report per loop, not per converted key
                            key = '%s | %s' % (fi.full, desc)
                            if key in loops_done:
                                continue
                            loops_done.add(key)
                        if key in done:
                            continue
                        done.add(key)
                        ctx.violation(
                            RULE, fi, node,
                            'every dimensional input value is converted '
                            'whenever it is given: ' + msg, key=key)
        if seen_here == 0 and not _reported_by_r1(ctx, fname):
            raise AnalysisError('%s: no conversion store P = conv(P) found '
                                '(C17.R11 went blind)' % fname)
    # confirmed by reading the pinned tree: 25 conversion stores (20 length,
    # 4 temperature, 1 flow rate), 26 (store, condition) pairs
    if not any(i['rule'] == RULE and i['verdict'] != 'holds'
               for i in ctx.instances) and not any(
                   _reported_by_r1(ctx, f_) for f_ in _DIMS):
        if n_sites < 22:
            raise AnalysisError('C17.R11 saw %d conversion stores, expected '
                                '>= 22 (rule went blind)' % n_sites)
        if n_atoms < 18:
            raise AnalysisError('C17.R11 examined %d conditions on the way '
                                'to a conversion, expected >= 18 (rule went '
                                'blind)' % n_atoms)
    ctx.extra['C17.R11'] = {'conversion_stores': n_sites,
                            'conditions_examined': n_atoms}
    ctx.trusted.append('C17.R11: an `in` / None / emptiness / truth test of '
                       'a place on the access path of P asks whether P is '
                       'given (dsa/rules/_f_c17_2.py); kind classification '
                       'of c17.py; fixed points from utils\' own converters')
