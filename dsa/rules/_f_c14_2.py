"""C14.R11 -- the accumulated losses are the closed-form integrands, evaluated
with the bundle velocity.

Clause (a necessary condition of C14 "for constant coolant properties the
pressure drop equals f L rho v^2 / (2 De), one loss term K rho v^2 / 2 per
spacer grid and rho g L"):  what `calculate_pressure_drop(z, dz)` adds to
`_pressure_drop[k]` in one step is, as a rational function of the quantities
of the region,

    friction     ff * dz * rho * v^2 / (2 De)
    spacer_grid  n  * K  * rho * v^2 / 2        (n = grids counted in the step;
                                                 0 only on a path that the
                                                 count itself decides)
    gravity      rho * g * dz                   (g = standard gravity)

where v is the *bundle* velocity -- the flow rate that goes through the
bundle divided by (density x bundle flow area) -- and De the hydraulic
diameter of the same bundle; and every store that defines the velocity / the
Reynolds number the static friction factor and grid loss coefficient are
evaluated at writes exactly  v = m_bundle / (rho A_bundle),
Re = m_bundle De / (A_bundle mu)  (the same m_bundle, A_bundle, De), so the
dynamic head and the friction factor refer to one and the same flow.  For a
double-ducted assembly m_bundle = `int_flow_rate` differs from the assembly's
`total_flow_rate` (bypass gap), for the low-fidelity region with a bundle
equivalent the quantities are those of `_rr_equiv`, otherwise the region's
own flow rate / coolant area / hydraulic diameter.

How it is decided: no source form is matched.  `calculate_pressure_drop` is
executed symbolically by the small path-enumerating interpreter below (the
checker's own; nothing of /repo is imported or run) over `poly.Rat`: locals
are propagated flow-sensitively, `self.m(...)` calls and read-only properties
of the class are evaluated in place (every return path of the callee becomes
an alternative that carries its path condition), undecidable tests fork the
path, loops make their targets opaque, counting expressions over the grid
position list become the symbol n.  The increment of every recorded store to
`self._pressure_drop[k]` is compared with the closed form as an exact
rational-function identity after the velocity symbol has been replaced by
m / (rho A) of the branch the path is on.  The writers of the velocity / Re
fields are found package-wide by access path, executed the same way, and the
stored value is compared with the reference.  Renaming, hoisting, helpers,
properties, commuting, `0.5 *` for `/ 2.0`, computing the dynamic head from
the mass flux ((m/A)^2 / rho / 2), swapping branches -- none of it changes
the rational function; a different flow rate, area, hydraulic diameter,
exponent or factor does, and the report quotes the ratio to the closed form.

Trusted: the atom table (which attribute is the bundle flow rate / flow area /
hydraulic diameter of each region class), constant coolant properties as in
the property statement (every `*.coolant.density` is one symbol rho, the
density at the time the velocity was stored is the current one), the zero
placeholders of the dict displays that create `coolant_int_params` /
`coolant_params` are overwritten by `_init_static_correlated_params` before
the sweep (C12), `int_flow_rate` is the flow through the bundle
(`_setup_flowrate`).

Fail closed: a vanished anchor, a writer of a velocity field outside the
region classes or with a receiver other than `self`, a writer the
interpreter cannot reach, more than MAX_PATHS paths are AnalysisErrors.
"""
import ast
from fractions import Fraction

from ..core import AnalysisError, access_path, const, src, walk_no_nested
from ..poly import Poly, Rat
from .. import util as U

PROPS = ('C14',)
RULE = 'C14.R11'
MAX_PATHS = 256
MAX_DEPTH = 5
G_RANGE = (Fraction('9.78'), Fraction('9.84'))
COUNT_CALLS = ('sum', 'len', 'np.sum', 'numpy.sum', 'np.count_nonzero',
               'numpy.count_nonzero')
PASS_CALLS = ('float', 'np.float64', 'numpy.float64', 'np.asarray',
              'np.array', 'numpy.asarray', 'numpy.array')
GRID_Z = "['grid']['z']"

# ---------------------------------------------------------------------------
# models: atom tables (trusted) and per-branch reference quantities

RODDED = {
    'mod': 'region_rodded', 'cls': 'RoddedRegion',
    'components': ('friction', 'spacer_grid', 'gravity'),
    'atoms': {
        "self.int_flow_rate": 'int_flow_rate',
        "self.bundle_params['area']": 'bundle_area',
        "self.bundle_params['de']": 'bundle_de',
        "self.coolant_int_params['ff']": 'ff',
        "self.coolant_int_params['grid_loss_coeff']": 'K',
        "self.coolant_int_params['vel']": 'V',
        "self.coolant_int_params['Re']": 'Re',
    },
    'fields': {'vel': ('coolant_int_params', "'vel'"),
               'Re': ('coolant_int_params', "'Re'")},
    'min_writers': {'vel': 2, 'Re': 2},
    'branch_key': None,
    'refs': {None: ('int_flow_rate', 'bundle_area', 'bundle_de')},
    'derived': (),
    'names': {None: 'int_flow_rate / (density * bundle_params[\'area\'])'},
}

UNRODDED = {
    'mod': 'region_unrodded', 'cls': 'SingleNodeHomogeneous',
    'components': ('friction', 'gravity'),
    'atoms': {
        "self.flow_rate": 'flow_rate',
        "self.total_area['coolant_int']": 'coolant_area',
        "self._params['de']": 'de',
        "self.coolant_params['ff']": 'ff',
        "self.coolant_params['vel']": 'V',
        "self.coolant_params['Re']": 'Re',
        "self._rr_equiv.int_flow_rate": 'rr_int_flow_rate',
        "self._rr_equiv.bundle_params['area']": 'rr_bundle_area',
        "self._rr_equiv.bundle_params['de']": 'rr_bundle_de',
        "self._rr_equiv.coolant_int_params['vel']": 'rr_V',
        "self._rr_equiv.coolant_int_params['Re']": 'rr_Re',
    },
    'fields': {'vel': ('coolant_params', "'vel'"),
               'Re': ('coolant_params', "'Re'")},
    'min_writers': {'vel': 4, 'Re': 4},
    'branch_key': 'self._rr_equiv is not None',
    'refs': {True: ('rr_int_flow_rate', 'rr_bundle_area', 'rr_bundle_de'),
             False: ('flow_rate', 'coolant_area', 'de')},
    # symbols that stand for a quantity another model defines (checked there)
    'derived': (('rr_V', ('rr_int_flow_rate', 'rr_bundle_area',
                          'rr_bundle_de'), 'vel'),
                ('rr_Re', ('rr_int_flow_rate', 'rr_bundle_area',
                           'rr_bundle_de'), 'Re')),
    'names': {True: "_rr_equiv.int_flow_rate / (density * _rr_equiv."
                    "bundle_params['area'])",
              False: "flow_rate / (density * total_area['coolant_int'])"},
}

MODELS = (RODDED, UNRODDED)

RHO, MU, N = Rat.sym('rho'), Rat.sym('mu'), Rat.sym('N')


def _s(n):
    return ' '.join(src(n).split())


def _vel(m, a):
    return Rat.sym(m) / (RHO * Rat.sym(a))


def _rey(m, a, de):
    return Rat.sym(m) * Rat.sym(de) / (Rat.sym(a) * MU)


def _rat_const(r):
    """Fraction value of a symbol-free Rat, else None."""
    if r is None or r.n.symbols() or r.d.symbols():
        return None
    d = r.d.t.get((), 0)
    if d == 0:
        return None
    return Fraction(r.n.t.get((), 0)) / Fraction(d)


def _proportion(val, ref):
    """c if val == c * ref for a number c, else None."""
    p, q = val.n * ref.d, ref.n * val.d
    if not q.t or set(p.t) != set(q.t):
        return None
    cs = {Fraction(p.t[k]) / Fraction(q.t[k]) for k in q.t}
    return cs.pop() if len(cs) == 1 else None


def _ratio_text(val, ref):
    """Readable val / ref with common monomial factors cancelled."""
    p, q = val.n * ref.d, ref.n * val.d
    if p.is_zero():
        return '0'
    syms = p.symbols() | q.symbols()
    common = {}
    for s in syms:
        e = min(dict(k).get(s, 0) for pol in (p, q) for k in pol.t)
        if e:
            common[s] = e

    def strip(pol):
        t = {}
        for k, v in pol.t.items():
            d = dict(k)
            for s, e in common.items():
                d[s] -= e
            t[tuple(sorted((s, e) for s, e in d.items() if e))] = v
        return Poly(t)
    p, q = strip(p), strip(q)
    if len(q.t) == 1 and len(p.t) == 1:
        (kq, vq), = q.t.items()
        (kp, vp), = p.t.items()
        p, q = Poly({kp: Fraction(vp) / Fraction(vq)}), Poly({kq: 1})
    if q == Poly.const(1):
        return '%r' % p
    return '(%r) / (%r)' % (p, q)


# ---------------------------------------------------------------------------
# path-enumerating symbolic interpreter

class _State:
    __slots__ = ('env', 'conds', 'taint')

    def __init__(self, env=None, conds=(), taint=None):
        self.env = dict(env or {})
        self.conds = tuple(conds)
        self.taint = set(taint or ())

    def copy(self, conds=None):
        return _State(self.env, self.conds if conds is None else conds,
                      self.taint)

    def cond(self, key):
        for k, v in self.conds:
            if k == key:
                return v
        return None


class _Store:
    __slots__ = ('text', 'conds', 'val', 'prev', 'stmt', 'fi', 'origin')

    def __init__(self, text, conds, val, prev, stmt, fi, origin):
        self.text, self.conds, self.val, self.prev = text, conds, val, prev
        self.stmt, self.fi, self.origin = stmt, fi, origin


def _norm_test(t):
    """(positive test node, polarity): `not`, `is None`, `!=`, `not in` are
    folded into the polarity; `.keys()` of a membership test is dropped."""
    pol = True
    while isinstance(t, ast.UnaryOp) and isinstance(t.op, ast.Not):
        t, pol = t.operand, not pol
    if isinstance(t, ast.Compare) and len(t.ops) == 1:
        op, l, r = t.ops[0], t.left, t.comparators[0]
        if isinstance(op, (ast.In, ast.NotIn)) and isinstance(r, ast.Call) \
                and isinstance(r.func, ast.Attribute) \
                and r.func.attr == 'keys' and not r.args:
            r = r.func.value
        flip = {ast.NotEq: ast.Eq, ast.NotIn: ast.In, ast.IsNot: ast.Is}
        if isinstance(op, (ast.Is, ast.IsNot)) and const(r, 0) is None \
                and isinstance(r, ast.Constant):
            # canonical positive form:  X is not None
            if isinstance(op, ast.Is):
                pol = not pol
            op = ast.IsNot()
        elif type(op) in flip:
            op, pol = flip[type(op)](), not pol
        t = ast.Compare(left=l, ops=[op], comparators=[r])
    return t, pol


class Interp:
    def __init__(self, repo, cls, atoms):
        self.repo, self.cls, self.atoms = repo, cls, atoms
        self.stores = []
        self.visited = set()
        self.condinfo = {}
        self._inv = 0
        self._fresh = 0
        self._paths = 0

    # -- values -----------------------------------------------------------
    def atom(self, s):
        if s in self.atoms:
            return Rat.sym(self.atoms[s])
        if s.endswith('.coolant.density'):
            return RHO
        if s.endswith('.coolant.viscosity'):
            return MU
        return None

    def tainted(self, n, st):
        if GRID_Z in _s(n):
            return True
        return any(isinstance(x, ast.Name) and x.id in st.taint
                   for x in ast.walk(n))

    def ev(self, n, st, fi, depth):
        """[(conds, Rat, origin)] -- alternatives of the value of n."""
        one = lambda r, o=None: [(st.conds, r, o)]
        s = _s(n)
        if isinstance(n, ast.Name):
            if n.id in st.env:
                return one(st.env[n.id])
            g = fi.mod.globals.get(n.id)
            c = const(g) if g is not None else None
            if isinstance(c, (int, float)) and not isinstance(c, bool):
                return one(Rat.const(Fraction(str(c))))
            return one(Rat.sym('<%s>' % n.id))
        if isinstance(n, (ast.Attribute, ast.Subscript)):
            if s in st.env:
                return one(st.env[s])
            a = self.atom(s)
            if a is not None:
                return one(a)
            if isinstance(n, ast.Attribute) and isinstance(
                    n.value, ast.Name) and n.value.id == 'self':
                m = self.repo.lookup_method(self.cls, n.attr)
                if m is not None and m.is_property and not m.is_setter:
                    return self.call(m, [], [], st, fi, depth, n)
            return one(Rat.sym('<%s>' % s))
        c = const(n)
        if isinstance(c, (int, float)) and not isinstance(c, bool):
            return one(Rat.const(Fraction(str(c))))
        if isinstance(n, ast.UnaryOp) and isinstance(n.op, (ast.USub,
                                                            ast.UAdd)):
            neg = isinstance(n.op, ast.USub)
            return [(c_, (-v if neg else v), o)
                    for c_, v, o in self.ev(n.operand, st, fi, depth)]
        if isinstance(n, ast.BinOp):
            if isinstance(n.op, ast.Pow):
                e = const(n.right)
                if isinstance(e, float) and e == int(e):
                    e = int(e)
                if isinstance(e, int) and not isinstance(e, bool) \
                        and abs(e) <= 8:
                    return [(c_, self._pow(v, e, s), o)
                            for c_, v, o in self.ev(n.left, st, fi, depth)]
                return one(Rat.sym('<%s>' % s))
            if not isinstance(n.op, (ast.Add, ast.Sub, ast.Mult, ast.Div)):
                return one(Rat.sym('<%s>' % s))
            out = []
            for c1, l, o1 in self.ev(n.left, st, fi, depth):
                for c2, r, o2 in self.ev(n.right, st.copy(c1), fi, depth):
                    out.append((c2, self._bin(n.op, l, r, s), o1 or o2))
            return out
        if isinstance(n, ast.IfExp):
            out = []
            for c_, truth in self.decide(n.test, st, fi, depth):
                out += self.ev(n.body if truth else n.orelse, st.copy(c_),
                               fi, depth)
            return out
        if isinstance(n, ast.Call):
            nm = _s(n.func)
            if isinstance(n.func, ast.Attribute) and isinstance(
                    n.func.value, ast.Name) and n.func.value.id == 'self' \
                    and not any(isinstance(a, ast.Starred) for a in n.args) \
                    and not any(k.arg is None for k in n.keywords):
                m = self.repo.lookup_method(self.cls, n.func.attr)
                if m is not None and not m.is_property:
                    return self.call(m, n.args, n.keywords, st, fi, depth, n)
            if nm in COUNT_CALLS and self.tainted(n, st):
                return one(N)
            if nm in ('np.square', 'numpy.square') and len(n.args) == 1:
                return [(c_, v * v, o)
                        for c_, v, o in self.ev(n.args[0], st, fi, depth)]
            if nm in ('np.power', 'numpy.power', 'pow') and len(n.args) == 2:
                e = const(n.args[1])
                if isinstance(e, float) and e == int(e):
                    e = int(e)
                if isinstance(e, int) and abs(e) <= 8:
                    return [(c_, self._pow(v, e, s), o)
                            for c_, v, o in self.ev(n.args[0], st, fi, depth)]
            if nm in PASS_CALLS and len(n.args) == 1 and not n.keywords:
                return self.ev(n.args[0], st, fi, depth)
        return one(Rat.sym('<%s>' % s))

    @staticmethod
    def _pow(v, e, s):
        try:
            return v ** e
        except ZeroDivisionError:
            return Rat.sym('<%s>' % s)

    @staticmethod
    def _bin(op, l, r, s):
        if isinstance(op, ast.Add):
            return l + r
        if isinstance(op, ast.Sub):
            return l - r
        if isinstance(op, ast.Mult):
            return l * r
        try:
            return l / r
        except ZeroDivisionError:
            return Rat.sym('<%s>' % s)

    # -- tests ------------------------------------------------------------
    def decide(self, test, st, fi, depth):
        """[(conds, bool)] -- the paths on which test is true / false."""
        if isinstance(test, ast.BoolOp):
            is_and = isinstance(test.op, ast.And)
            states = [(st.conds, None)]
            for v in test.values:
                nxt = []
                for c_, done in states:
                    if done is not None:
                        nxt.append((c_, done))
                        continue
                    for c2, t2 in self.decide(v, st.copy(c_), fi, depth):
                        if t2 != is_and:        # short circuit
                            nxt.append((c2, t2))
                        else:
                            nxt.append((c2, None))
                states = nxt
            return [(c_, is_and if d is None else d) for c_, d in states]
        pos, pol = _norm_test(test)
        c = const(pos)
        if isinstance(pos, ast.Constant):
            return [(st.conds, bool(c) == pol)]
        v = self.truth(pos, st, fi, depth, None)
        if v is not None:
            return [(st.conds, v == pol)]
        key = _s(pos)
        if any(isinstance(x, ast.Name) and x.id != 'self'
               for x in ast.walk(pos)):
            key = 'inv%d:: %s' % (st.env.get('<inv>', 0), key)
        known = st.cond(key)
        if known is not None:
            return [(st.conds, known == pol)]
        if key not in self.condinfo:
            self.condinfo[key] = (pos, _State(st.env, (), st.taint), fi)
        return [(st.conds + ((key, True),), pol),
                (st.conds + ((key, False),), not pol)]

    def truth(self, pos, st, fi, depth, n_value):
        """Three-valued truth of a positive test with the grid count set to
        n_value (None: left symbolic)."""
        def val(e):
            alts = self.ev(e, st.copy(()), fi, depth)
            if len(alts) != 1:
                return None
            r = alts[0][1]
            if n_value is not None:
                r = r.subs('N', Rat.const(n_value))
            return _rat_const(r)
        if isinstance(pos, ast.UnaryOp) and isinstance(pos.op, ast.Not):
            v = self.truth(pos.operand, st, fi, depth, n_value)
            return None if v is None else not v
        if isinstance(pos, ast.BoolOp):
            vs = [self.truth(x, st, fi, depth, n_value) for x in pos.values]
            if isinstance(pos.op, ast.And):
                if any(v is False for v in vs):
                    return False
                return None if any(v is None for v in vs) else True
            if any(v is True for v in vs):
                return True
            return None if any(v is None for v in vs) else False
        if isinstance(pos, ast.Compare):
            l = val(pos.left)
            for op, rn in zip(pos.ops, pos.comparators):
                r = val(rn)
                if l is None or r is None:
                    return None
                fn = {ast.Lt: l < r, ast.LtE: l <= r, ast.Gt: l > r,
                      ast.GtE: l >= r, ast.Eq: l == r,
                      ast.NotEq: l != r}.get(type(op))
                if fn is None:
                    return None
                if not fn:
                    return False
                l = r
            return True
        if isinstance(pos, (ast.Name, ast.BinOp)):
            v = val(pos)
            return None if v is None else v != 0
        return None

    def forces_zero_count(self, conds):
        """Is the path taken only when no grid lies in the step?  Some
        condition of the path must be false for n = 1, 2, 3, 10 and true for
        n = 0."""
        for key, v in conds:
            info = self.condinfo.get(key)
            if info is None:
                continue
            pos, st, fi = info
            t0 = self.truth(pos, st, fi, MAX_DEPTH, 0)
            if t0 is None or t0 != v:
                continue
            ts = [self.truth(pos, st, fi, MAX_DEPTH, k) for k in (1, 2, 3, 10)]
            if all(t is not None and t != v for t in ts):
                return True
        return False

    # -- calls ------------------------------------------------------------
    def call(self, m, args, kws, st, fi, depth, node):
        s = _s(node)
        if depth >= MAX_DEPTH:
            return [(st.conds, Rat.sym('<%s>' % s), None)]
        self.visited.add(m.name)
        a = m.node.args
        if a.vararg or a.kwarg or a.kwonlyargs:
            return [(st.conds, Rat.sym('<%s>' % s), None)]
        params = [p for p in m.params]
        if params and params[0] == 'self':
            params = params[1:]
        if len(args) > len(params) or any(k.arg not in params for k in kws):
            return [(st.conds, Rat.sym('<%s>' % s), None)]
        exprs = dict(zip(params, args))
        for k in kws:
            exprs[k.arg] = k.value
        defaults = dict(zip(reversed(params), reversed(a.defaults)))
        combos = [(st.conds, {}, set())]
        for p in params:
            nxt = []
            for c_, env, taint in combos:
                if p in exprs:
                    for c2, v, _ in self.ev(exprs[p], st.copy(c_), fi, depth):
                        t2 = set(taint)
                        if self.tainted(exprs[p], st):
                            t2.add(p)
                        nxt.append((c2, dict(env, **{p: v}), t2))
                elif p in defaults:
                    c = const(defaults[p])
                    if isinstance(c, (int, float)) and not isinstance(c, bool):
                        v = Rat.const(Fraction(str(c)))
                    else:
                        v = Rat.sym('<%s>' % p)
                    nxt.append((c_, dict(env, **{p: v}), taint))
                else:
                    nxt.append((c_, dict(env, **{p: Rat.sym('<%s>' % p)}),
                                taint))
            combos = nxt
        out = []
        for c_, env, taint in combos:
            rets = self.run(m, env, c_, taint, depth + 1)
            for rc, rv, rnode in rets:
                if rv is None:
                    rv = Rat.sym('<None>')
                out.append((rc, rv, (m, rnode)))
        if not out:
            out = [(st.conds, Rat.sym('<%s>' % s), None)]
        return out

    # -- statements -------------------------------------------------------
    def run(self, fi, env, conds=(), taint=(), depth=0):
        """Execute fi; returns [(conds, Rat|None, return node)].  Stores to
        attributes / subscripts are appended to self.stores."""
        self._inv += 1
        st = _State(env, conds, taint)
        st.env['<inv>'] = self._inv
        rets = []
        body = list(fi.node.body)
        left = self.block(body, [st], fi, depth, rets)
        for s in left:
            rets.append((s.conds, None, fi.node))
        return rets

    def block(self, stmts, states, fi, depth, rets):
        for n in stmts:
            nxt = []
            for st in states:
                nxt += self.stmt(n, st, fi, depth, rets)
            states = nxt
            self._paths = max(self._paths, len(states))
            if len(states) > MAX_PATHS:
                raise AnalysisError('%s: more than %d paths in %s'
                                    % (RULE, MAX_PATHS, fi.qual))
        return states

    def _invalidate(self, st, text):
        for k in [k for k in st.env if isinstance(k, str) and (
                k.startswith(text + '[') or k.startswith(text + '.'))]:
            del st.env[k]

    def _bind(self, tgt, val, origin, st, fi, stmt, tainted, prev=None):
        if isinstance(tgt, ast.Name):
            st.env[tgt.id] = val
            if tainted:
                st.taint.add(tgt.id)
            else:
                st.taint.discard(tgt.id)
            return
        if isinstance(tgt, (ast.Attribute, ast.Subscript)):
            text = _s(tgt)
            if prev is None:
                prev = st.env.get(text) or self.atom(text) or \
                    Rat.sym('<%s>' % text)
            self._invalidate(st, text)
            st.env[text] = val
            self.stores.append(_Store(text, st.conds, val, prev, stmt, fi,
                                      origin))
            return
        for x in ast.walk(tgt):
            if isinstance(x, ast.Name):
                self._opaque(st, x.id)

    def _opaque(self, st, name):
        self._fresh += 1
        st.env[name] = Rat.sym('<%s#%d>' % (name, self._fresh))

    def _opaque_region(self, st, nodes, fi):
        """Names bound and fields stored inside statements that are not
        interpreted become unknown; the stores are logged without a value."""
        for root in nodes:
            for x in walk_no_nested(root):
                if isinstance(x, ast.Name) and isinstance(x.ctx, ast.Store):
                    self._opaque(st, x.id)
            for t, stn in U.stores(root):
                if isinstance(t, (ast.Attribute, ast.Subscript)):
                    text = _s(t)
                    self._invalidate(st, text)
                    self._fresh += 1
                    st.env[text] = Rat.sym('<%s#%d>' % (text, self._fresh))
                    self.stores.append(_Store(text, st.conds, None, None,
                                              stn, fi, None))

    def stmt(self, n, st, fi, depth, rets):
        if isinstance(n, ast.Expr):
            return [st]
        if isinstance(n, (ast.Pass, ast.Assert, ast.Import, ast.ImportFrom,
                          ast.Global, ast.Nonlocal, ast.Delete,
                          ast.FunctionDef, ast.ClassDef)):
            return [st]
        if isinstance(n, ast.Raise):
            return []
        if isinstance(n, ast.Return):
            if n.value is None:
                rets.append((st.conds, None, n))
            else:
                for c_, v, _ in self.ev(n.value, st, fi, depth):
                    rets.append((c_, v, n))
            return []
        if isinstance(n, ast.AnnAssign):
            if n.value is None:
                return [st]
            n = ast.copy_location(ast.Assign(targets=[n.target],
                                             value=n.value), n)
        if isinstance(n, ast.Assign):
            out = []
            if len(n.targets) == 1 and isinstance(
                    n.targets[0], ast.Tuple) and isinstance(
                        n.value, ast.Tuple) and len(n.targets[0].elts) == \
                    len(n.value.elts):
                pairs = list(zip(n.targets[0].elts, n.value.elts))
                combos = [(st.conds, [])]
                for t, e in pairs:
                    combos = [(c2, vs + [(t, v, o, self.tainted(e, st))])
                              for c_, vs in combos
                              for c2, v, o in self.ev(e, st.copy(c_), fi,
                                                      depth)]
                for c_, vs in combos:
                    s2 = st.copy(c_)
                    for t, v, o, tn in vs:
                        self._bind(t, v, o, s2, fi, n, tn)
                    out.append(s2)
                return out
            tn = self.tainted(n.value, st)
            for c_, v, o in self.ev(n.value, st, fi, depth):
                s2 = st.copy(c_)
                for t in n.targets:
                    self._bind(t, v, o, s2, fi, n, tn)
                out.append(s2)
            return out
        if isinstance(n, ast.AugAssign):
            out = []
            for c1, cur, _ in self.ev(_load(n.target), st, fi, depth):
                for c2, v, o in self.ev(n.value, st.copy(c1), fi, depth):
                    s2 = st.copy(c2)
                    if isinstance(n.op, (ast.Add, ast.Sub, ast.Mult,
                                         ast.Div)):
                        new = self._bin(n.op, cur, v, _s(n))
                    else:
                        new = Rat.sym('<%s>' % _s(n))
                    self._bind(n.target, new, o, s2, fi, n,
                               self.tainted(n.value, st)
                               or self.tainted(n.target, st), prev=cur)
                    out.append(s2)
            return out
        if isinstance(n, ast.If):
            out = []
            for c_, truth in self.decide(n.test, st, fi, depth):
                out += self.block(n.body if truth else n.orelse,
                                  [st.copy(c_)], fi, depth, rets)
            return out
        if isinstance(n, ast.With):
            return self.block(n.body, [st], fi, depth, rets)
        if isinstance(n, ast.Try):
            key = 'inv%d:: except@%s' % (st.env.get('<inv>', 0),
                                         _s(n.body[0])[:50])
            s_body = st.copy(st.conds + ((key, False),))
            out = self.block(n.body, [s_body], fi, depth, rets)
            if n.orelse:
                out = self.block(n.orelse, out, fi, depth, rets)
            for h in n.handlers:
                sh = st.copy(st.conds + ((key, True),))
                # whatever the body bound before raising is unknown
                shadow = _Interp_silent(self)
                shadow._opaque_region(sh, n.body, fi)
                out += self.block(h.body, [sh], fi, depth, rets)
            if n.finalbody:
                out = self.block(n.finalbody, out, fi, depth, rets)
            return out
        if isinstance(n, (ast.For, ast.While)):
            s2 = st.copy()
            counter = set()
            if isinstance(n, ast.For) and self.tainted(n.iter, st):
                tnames = {x.id for x in ast.walk(n.target)
                          if isinstance(x, ast.Name)}
                s2.taint |= tnames
                bound = {}
                for x in walk_no_nested(n):
                    if isinstance(x, ast.AugAssign) and isinstance(
                            x.target, ast.Name):
                        bound.setdefault(x.target.id, []).append(
                            isinstance(x.op, ast.Add) and const(x.value) == 1)
                    elif isinstance(x, ast.Name) and isinstance(
                            x.ctx, ast.Store) and not isinstance(
                                getattr(x, '_parent', None), ast.AugAssign):
                        bound.setdefault(x.id, []).append(False)
                for name, oks in bound.items():
                    if all(oks) and name not in tnames and _rat_const(
                            st.env.get(name)) == 0:
                        counter.add(name)
            self._opaque_region(s2, [n], fi)
            for name in counter:
                s2.env[name] = N
                s2.taint.add(name)
            return [s2]
        # anything else: not interpreted
        s2 = st.copy()
        self._opaque_region(s2, [n], fi)
        return [s2]


class _Interp_silent:
    """_opaque_region of an interpreter without logging stores (used for the
    state an exception handler starts from)."""

    def __init__(self, it):
        self.it = it

    def _opaque_region(self, st, nodes, fi):
        keep = len(self.it.stores)
        self.it._opaque_region(st, nodes, fi)
        del self.it.stores[keep:]


def _load(t):
    e = ast.parse(ast.unparse(t), mode='eval').body
    return ast.copy_location(e, t)


# ---------------------------------------------------------------------------
# the rule

def _branch(model, conds):
    """Branch value(s) of the path; a list of the branches it may be on."""
    bk = model['branch_key']
    if bk is None:
        return [None]
    for k, v in conds:
        if k == bk:
            return [v]
    return sorted(model['refs'], key=str)


def _resolve(model, r, br):
    """r with the velocity / Reynolds symbols replaced by the reference
    expressions of branch br."""
    for sym, (m, a, de), kind in model['derived']:
        r = r.subs(sym, _vel(m, a) if kind == 'vel' else _rey(m, a, de))
    m, a, de = model['refs'][br]
    r = r.subs('V', _vel(m, a))
    r = r.subs('Re', _rey(m, a, de))
    return r


def _closed(model, comp, br):
    m, a, de = model['refs'][br]
    v = _vel(m, a)
    half = Rat.const(Fraction(1, 2))
    if comp == 'friction':
        return Rat.sym('ff') * Rat.sym('dz') * RHO * v * v * half \
            / Rat.sym(de)
    if comp == 'spacer_grid':
        return N * Rat.sym('K') * RHO * v * v * half
    return RHO * Rat.sym('dz')          # gravity: times g, checked by range


_FORM = {'friction': 'ff * dz * density * v**2 / (2 * De)',
         'spacer_grid': 'n_grids_in_step * K * density * v**2 / 2',
         'gravity': 'density * g * dz'}


def _family(repo, ci):
    return [ci] + [c for c in repo.subclasses(ci)]


def _check_increments(ctx, model, ci, base_visited=None):
    repo = ctx.repo
    fi = repo.lookup_method(ci, 'calculate_pressure_drop')
    if fi is None:
        raise AnalysisError('%s: %s.calculate_pressure_drop vanished'
                            % (RULE, ci.name))
    if len(fi.params) < 3:
        raise AnalysisError('%s: %s signature' % (RULE, fi.qual))
    it = Interp(repo, ci, model['atoms'])
    it.run(fi, {fi.params[1]: Rat.sym('z'), fi.params[2]: Rat.sym('dz')})
    by = {}
    for s in it.stores:
        p = access_path(ast.parse(s.text, mode='eval').body)
        if p is not None and p[:2] == ('self', '_pressure_drop') \
                and len(p) == 3:
            by.setdefault(p[2].strip("'"), []).append(s)
    scope = '%s:%s.calculate_pressure_drop' % (ci.mod.name, ci.name)
    for comp in model['components']:
        ss = by.get(comp, [])
        if not ss:
            ctx.violation(RULE, fi, fi.node, 'the %s loss is not accumulated '
                          'into self._pressure_drop[%r] by '
                          'calculate_pressure_drop' % (comp, comp),
                          key='%s | %s accumulated' % (scope, comp))
            continue
        seen = set()
        for s in ss:
            ofi, onode = s.origin if s.origin else (s.fi, s.stmt)
            if s.val is None:
                ctx.violation(RULE, s.fi, s.stmt, 'the %s loss is stored '
                              'inside a construct the rule cannot evaluate; '
                              'it must be the closed form %s per step'
                              % (comp, _FORM[comp]),
                              key='%s | %s = closed form' % (scope, comp))
                continue
            inc = s.val - s.prev
            brs = _branch(model, s.conds)
            if comp == 'gravity':
                brs = brs[:1]           # no velocity in it
            for br in brs:
                got = _resolve(model, inc, br)
                ok, why = _judge(model, comp, br, got, s.conds, it)
                vname = model['names'][br]
                if comp == 'gravity':
                    br = None
                sig = (id(onode), br, repr(got))
                if sig in seen:
                    continue
                seen.add(sig)
                ctx.require(
                    ok, RULE, ofi, onode,
                    'C14 closed form: each step must add %s = %s%s%s; the '
                    'value accumulated here is not that: %s'
                    % (comp, _FORM[comp], '' if comp == 'gravity' else
                       ' with v the bundle velocity ' + vname,
                       '' if br is None else ' (branch `%s` is %s)'
                       % (model['branch_key'], br), why),
                    note='%s increment == %s%s' % (
                        comp, _FORM[comp], '' if br is None
                        else ' [%s: %s]' % (model['branch_key'], br)),
                    key='%s | %s = closed form' % (scope, comp))
    return it.visited


def _judge(model, comp, br, got, conds, it):
    ref = _closed(model, comp, br)
    if comp == 'gravity':
        g = _proportion(got, ref)
        if g is not None and G_RANGE[0] <= g <= G_RANGE[1]:
            return True, ''
        if got.is_zero():
            return False, 'nothing is added'
        return False, 'ratio to density * dz is %s (expected the standard ' \
            'gravity 9.80665)' % _ratio_text(got, ref)
    if got.equals(ref):
        return True, ''
    if comp == 'spacer_grid' and got.equals(ref.subs('N', Rat.const(0))):
        if it.forces_zero_count(conds):
            return True, ''
        return False, 'no loss is added on a path that is not decided by ' \
            'the number of grids in the step being zero (path: %s)' % (
                ', '.join('%s is %s' % (k.split(':: ')[-1], v)
                          for k, v in conds) or 'unconditional')
    if got.is_zero():
        return False, 'nothing is added'
    return False, 'ratio to the closed form = %s' % _ratio_text(got, ref)


def _check_writers(ctx, model, ci):
    repo = ctx.repo
    fam = _family(repo, ci)
    for kind, tail in model['fields'].items():
        n_writers = 0
        for fi in repo.all_funcs():
            sts = []
            for t, stn in U.stores(fi.node):
                p = access_path(t)
                if isinstance(t, ast.Subscript) and p is not None \
                        and p[-2:] == tail:
                    sts.append((t, stn, p))
            if not sts:
                continue
            if fi.cls is None or fi.cls not in fam:
                # the same dictionary name on another class is another field
                if fi.cls is not None and not any(
                        p[0] != 'self' for _, _, p in sts):
                    continue
                raise AnalysisError(
                    '%s: %s of a %s is written outside the class, in %s'
                    % (RULE, '.'.join(tail), ci.name, fi.full))
            for t, stn, p in sts:
                if p != ('self',) + tail:
                    raise AnalysisError('%s: writer %s in %s has a receiver '
                                        'the rule does not model'
                                        % (RULE, _s(t), fi.full))
            it = Interp(repo, fi.cls, model['atoms'])
            it.run(fi, {})
            text = "self.%s[%s]" % tail
            log = [s for s in it.stores if s.text == text]
            for t, stn, p in sts:
                n_writers += 1
                mine = [s for s in log if s.stmt is stn]
                if not mine:
                    raise AnalysisError('%s: store %s in %s is not reached '
                                        'by the interpreter'
                                        % (RULE, _s(stn)[:60], fi.full))
                seen = set()
                for s in mine:
                    for br in _branch(model, s.conds):
                        m, a, de = model['refs'][br]
                        ref = _vel(m, a) if kind == 'vel' else _rey(m, a, de)
                        if s.val is None:
                            got, ok = None, False
                        else:
                            # the field itself is being defined: earlier
                            # values of other fields are resolved
                            got = _resolve(model, s.val, br)
                            ok = got.equals(ref)
                        sig = (br, repr(got))
                        if sig in seen:
                            continue
                        seen.add(sig)
                        what = ('bundle velocity' if kind == 'vel' else
                                'bundle Reynolds number')
                        form = (model['names'][br] if kind == 'vel' else
                                'flow rate * De / (flow area * viscosity) of '
                                'the same bundle')
                        ctx.require(
                            ok, RULE, fi, stn,
                            'C14 closed form: the %s the friction factor / '
                            'dynamic head of the pressure drop is based on '
                            'must be %s%s; this store writes something else '
                            '(%s)' % (
                                what, form, '' if br is None else
                                ' (branch `%s` is %s)' % (model['branch_key'],
                                                          br),
                                'not evaluable: stored inside a loop' if got
                                is None else 'ratio to the reference = %s'
                                % _ratio_text(got, ref)),
                            note='%s == %s' % (what, form),
                            key='%s | %s writer = reference' % (fi.full, kind))
        if n_writers < model['min_writers'][kind]:
            raise AnalysisError(
                '%s: %d writers of %s.%s found, %d confirmed by reading'
                % (RULE, n_writers, ci.name, '.'.join(tail),
                   model['min_writers'][kind]))


def run(ctx):
    ctx.decided.append(
        'R11 the value each step adds to _pressure_drop[k] is, as an exact '
        'rational function, the closed-form integrand ff dz rho v^2/(2 De) / '
        'n K rho v^2/2 / rho g dz with v the bundle velocity = bundle flow '
        'rate / (rho * bundle flow area) and De of the same bundle, and every '
        'writer of the velocity / Reynolds number fields stores exactly '
        'that velocity / the Reynolds number of the same flow (rodded '
        'regions: int_flow_rate, not the assembly total; low-fidelity '
        'regions: the equivalent bundle or the region\'s own flow area)')
    ctx.trusted.append(
        'C14.R11: atom tables RODDED / UNRODDED of rules/_f_c14_2.py (which '
        'attribute is the bundle flow rate, flow area, hydraulic diameter); '
        'constant coolant properties (one density symbol); zero placeholders '
        'of the coolant_*_params dict displays')
    repo = ctx.repo
    for model in MODELS:
        ci = repo.cls(model['mod'], model['cls'])
        visited = _check_increments(ctx, model, ci)
        for sub in repo.subclasses(ci):
            if set(sub.methods) & (visited | {'calculate_pressure_drop'}):
                _check_increments(ctx, model, sub)
        _check_writers(ctx, model, ci)
    ctx.min_instances(RULE, 17)
