"""C08 -- bundle topology and geometry well-formed for every ring count."""
import ast
from fractions import Fraction

from ..core import (AnalysisError, access_path, const, find_all, match, short,
                    src, walk_no_nested, parent, call_name)
from .. import util as U
from ..poly import Rat, Poly, from_ast, NotPolynomial


def run(ctx):
    ctx.decided += [
        'R1 (rank domain) no array-valued expression (an array indexed by the '
        'index arrays returned by np.where) is stored into a scalar element '
        'of an integer array: every bundle with >= 2 rings must be '
        'constructible',
        'R2 (length domain) a list indexed by a loop variable has at least '
        'the length of the loop range: bundles with several bypass gaps must '
        'be constructible',
        'R3 (polynomial identities in n_ring) the subchannel-count formulas '
        'are mutually consistent for every ring count: interior + edge + '
        'corner = coolant total, duct edge + corner = duct total, bypass '
        'mirrors duct, pin-side incidence 6/5/5 per pin equals 3/2/1 per '
        'subchannel, and the pin-to-subchannel heat fractions of every pin '
        'class sum to one',
        'R4 (exact hexagon algebra, symbolic duct index, sqrt3^2 = 3) the '
        'corner wall lengths satisfy the closed form F/(2 sqrt3) - P (n-1)/2 '
        '(base case + inductive step of the recurrence over ducts), and with '
        'it the cells tile the geometry for every ring count and every duct: '
        'duct wall cells = their annulus, bypass cells = their annulus, '
        'coolant cells + pins + wires = the hexagon inside the inner duct']
    ctx.decided += [
        'R5 centroids of the concentric duct / bypass rings: each ring is '
        'placed from the ring before it with the pair (previous thickness, '
        'own thickness); the pairs chain through the sequence of '
        'flat-to-flat boundaries for every duct index (symbolic index)']
    ctx.decided += [
        'R6 the connection pass over the concentric rings outside the bundle '
        'visits exactly the 2 n_duct - 1 rings that the cell count formula '
        '(R3) allocates: loop bounds are polynomials in n_duct with lower '
        'bound 1 and upper bound 2 n_duct']
    ctx.not_decided += ['symmetry and neighbour counts of the run-time '
                        'adjacency', 'centroid coordinates as numbers']
    r1(ctx)
    r2(ctx)
    counts = r3(ctx)
    from . import _hexgeom
    _hexgeom.check(ctx, 'C08.R4', counts)
    ctx.min_instances('C08.R4', 9)
    _hexgeom.check_ring_chain(ctx, 'C08.R5')
    ctx.min_instances('C08.R5', 6)
    r6(ctx)
    ctx.min_instances('C08.R6', 1)
    from . import _ductftf
    _ductftf.check(
        ctx, 'C08.R7', 'region_rodded', 'RoddedRegion.__init__', 'duct_ftf',
        lambda n, V: {'self.duct_ftf': [[V[2 * i], V[2 * i + 1]]
                                        for i in range(n)]})
    ctx.min_instances('C08.R7', 3)
    ctx.decided.append(
        'R7 the constructor turns the 2 n_duct flat-to-flat distances into '
        'ascending (inner, outer) pairs, innermost duct first, for every '
        'order of the input (finite-domain evaluation over all permutations '
        'for 1-3 ducts)')
    ctx.min_instances('C08.R1', 8)
    ctx.min_instances('C08.R2', 2)
    ctx.min_instances('C08.R3', 7)


# ---------------------------------------------------------------------------
# D_rank

SCALAR, ARR, UNK = 'scalar', 'array', '?'


def _ranks(fn):
    """{name: rank} for locals: np.where(...) unpack targets are arrays,
    range/enumerate loop variables and integer arithmetic are scalars."""
    rank = {}
    for n in walk_no_nested(fn):
        if isinstance(n, ast.For) and isinstance(n.iter, ast.Call) and \
                call_name(n.iter) in ('range', 'reversed'):
            for x in ast.walk(n.target):
                if isinstance(x, ast.Name):
                    rank[x.id] = SCALAR
    changed = True
    it = 0
    while changed and it < 5:
        changed = False
        it += 1
        for st in walk_no_nested(fn):
            if not isinstance(st, ast.Assign):
                continue
            for t in st.targets:
                if isinstance(t, (ast.Tuple, ast.List)):
                    v = st.value
                    if isinstance(v, ast.Call) and call_name(v) in (
                            'np.where', 'np.nonzero', 'numpy.where') and \
                            len(v.args) == 1:
                        for e in t.elts:
                            if isinstance(e, ast.Name) and \
                                    rank.get(e.id) != ARR:
                                rank[e.id] = ARR
                                changed = True
                    elif isinstance(v, ast.Tuple) and len(v.elts) == len(
                            t.elts):
                        for e, ve in zip(t.elts, v.elts):
                            if isinstance(e, ast.Name):
                                r = _rank_of(ve, rank)
                                if r != UNK and rank.get(e.id) != r:
                                    rank[e.id] = r
                                    changed = True
                elif isinstance(t, ast.Name):
                    r = _rank_of(st.value, rank)
                    if r != UNK and rank.get(t.id) != r:
                        # a name assigned both ranks stays as the *last*
                        # textual assignment decides at the use (flow
                        # sensitivity is handled at the use site)
                        rank[t.id] = r
                        changed = True
    return rank


def _rank_of(e, rank):
    c = const(e)
    if isinstance(c, (int, float)) and not isinstance(c, bool):
        return SCALAR
    if isinstance(e, ast.Name):
        return rank.get(e.id, UNK)
    if isinstance(e, ast.BinOp):
        l, r = _rank_of(e.left, rank), _rank_of(e.right, rank)
        if ARR in (l, r):
            return ARR
        if l == r == SCALAR:
            return SCALAR
        return UNK
    if isinstance(e, ast.UnaryOp):
        return _rank_of(e.operand, rank)
    if isinstance(e, ast.Subscript):
        idx = e.slice.elts if isinstance(e.slice, ast.Tuple) else [e.slice]
        rs = [_rank_of(i, rank) for i in idx]
        base = _rank_of(e.value, rank)
        if any(isinstance(i, ast.Slice) for i in idx):
            return ARR if base != SCALAR else UNK
        if ARR in rs:
            return ARR        # advanced indexing
        if base == ARR and all(r == SCALAR for r in rs) and len(rs) == 1 \
                and isinstance(e.value, ast.Name):
            return SCALAR     # element of a 1-D index array
        # x = np.where(c)[0] is an array; np.where(c)[0][0] a scalar
        if isinstance(e.value, ast.Call) and call_name(e.value) in (
                'np.where', 'np.nonzero'):
            return ARR
        if isinstance(e.value, ast.Subscript) and isinstance(
                e.value.value, ast.Call) and call_name(e.value.value) in (
                    'np.where', 'np.nonzero') and all(r == SCALAR
                                                      for r in rs):
            return SCALAR
        return UNK
    if isinstance(e, ast.Call):
        nm = call_name(e) or ''
        if nm in ('int', 'float', 'len', 'min', 'max', 'sum', 'np.sum',
                  'np.max', 'np.min', 'np.count_nonzero', 'abs') or \
                nm.endswith('.item'):
            return SCALAR
        if nm in ('np.where', 'np.nonzero'):
            return 'tuple'
        if nm in ('np.array', 'np.arange', 'np.zeros', 'np.ones',
                  'np.intersect1d', 'np.unique'):
            return ARR
        return UNK
    return UNK


def _ndim_hint(fn, name):
    """Largest number of indices the array `name` is subscripted with."""
    k = 0
    for n in ast.walk(fn):
        if isinstance(n, ast.Subscript) and src(n.value) == name:
            k = max(k, len(n.slice.elts) if isinstance(n.slice, ast.Tuple)
                    else 1)
    return k


def _where_names_at(fn, line):
    """Names that, at `line`, hold an index *array* returned by np.where /
    np.nonzero (tuple unpacking or [k] selection), honouring later
    re-bindings such as `row, col = row[0], col[0]`."""
    out = {}
    sts = sorted([a for a in walk_no_nested(fn) if isinstance(a, ast.Assign)
                  and a.lineno < line], key=lambda a: a.lineno)
    # statements inside the same loop body re-execute: a binding later in the
    # loop does not reach an earlier use in the same iteration, which is
    # what we want (first iteration already fails)
    for a in sts:
        v = a.value
        for t in a.targets:
            if isinstance(t, (ast.Tuple, ast.List)):
                if isinstance(v, ast.Call) and call_name(v) in (
                        'np.where', 'np.nonzero', 'numpy.where') and \
                        len(v.args) == 1:
                    for e in t.elts:
                        if isinstance(e, ast.Name):
                            out[e.id] = a
                elif isinstance(v, ast.Tuple) and len(v.elts) == len(t.elts):
                    for e, ve in zip(t.elts, v.elts):
                        if isinstance(e, ast.Name):
                            out.pop(e.id, None)
                else:
                    for e in t.elts:
                        if isinstance(e, ast.Name):
                            out.pop(e.id, None)
            elif isinstance(t, ast.Name):
                if isinstance(v, ast.Subscript) and isinstance(
                        v.value, ast.Call) and call_name(v.value) in (
                            'np.where', 'np.nonzero') and \
                        isinstance(const(v.slice), int):
                    out[t.id] = a
                else:
                    out.pop(t.id, None)
    return out


def _uses_index_array(value, wn, rank=None):
    """value contains X[..., e, ...] where e mentions a where-name that is
    not itself reduced to an element (w[0])."""
    for n in ast.walk(value):
        if not isinstance(n, ast.Subscript):
            continue
        idx = n.slice.elts if isinstance(n.slice, ast.Tuple) else [n.slice]
        for e in idx:
            for x in ast.walk(e):
                if isinstance(x, ast.Name) and x.id in wn:
                    par = parent(x)
                    if isinstance(par, ast.Subscript) and par.value is x \
                            and (isinstance(const(par.slice), int) or
                                 _rank_of(par.slice, rank or {}) == SCALAR):
                        continue     # w[0] / w[i]: an element
                    return x
    return None


def r1(ctx):
    repo = ctx.repo
    n_checked = 0
    n_where = 0
    for fi in repo.all_funcs():
        if fi.mod.name.startswith(('dassh.plot', 'dassh.py4c')):
            continue
        has_where = any(isinstance(c, ast.Call) and call_name(c) in (
            'np.where', 'np.nonzero') for c in ast.walk(fi.node))
        if not has_where:
            continue
        n_where += 1
        rank = _ranks(fi.node)
        for t, st in U.stores(fi.node):
            if not isinstance(st, ast.Assign) or not isinstance(
                    t, ast.Subscript):
                continue
            idx = t.slice.elts if isinstance(t.slice, ast.Tuple) else [t.slice]
            if any(isinstance(i, ast.Slice) for i in idx):
                continue
            wn = _where_names_at(fi.node, st.lineno)
            # target must be a single element: all indices scalar and none
            # of them an index array
            if any(_uses_index_array(ast.Subscript(
                    value=ast.Name(id='_', ctx=ast.Load()), slice=i,
                    ctx=ast.Load()), wn, rank) for i in idx):
                continue
            if not all(_rank_of(i, rank) == SCALAR or isinstance(
                    const(i), int) for i in idx):
                continue
            if len(idx) < _ndim_hint(fi.node, src(t.value)):
                continue      # row store: broadcasting is legitimate
            n_checked += 1
            bad = _uses_index_array(st.value, wn, rank)
            reduced = isinstance(st.value, ast.Call) and (call_name(
                st.value) or '') in ('int', 'float', 'np.sum', 'np.max',
                                     'np.min', 'len')
            ctx.require(bad is None or reduced, 'C08.R1', fi, st,
                        'the value is indexed by %r, an index *array* '
                        'returned by np.where, so it is an array; storing it '
                        'into a single element needs an implicit '
                        'array-to-scalar conversion that NumPy >= 2 refuses '
                        '(ValueError): the subchannel map cannot be built '
                        'for any bundle that reaches this statement'
                        % (bad.id if bad is not None else ''),
                        key='%s | %s' % (fi.full, ' '.join(src(st).split())))
    ctx.extra['scalar_element_stores_checked'] = n_checked
    ctx.extra['functions_using_np_where'] = n_where


# ---------------------------------------------------------------------------
# D_len

def r2(ctx):
    repo = ctx.repo
    n = 0
    for fi in repo.all_funcs():
        if fi.mod.name not in ('dassh.region_rodded', 'dassh.subchannel',
                               'dassh.region_unrodded', 'dassh.core'):
            continue
        # lists created by a display of fixed length
        for t, st in U.stores(fi.node):
            if not isinstance(st, ast.Assign) or not isinstance(
                    st.value, ast.List):
                continue
            k = len(st.value.elts)
            tgt = src(t)
            # later indexed stores into that list inside a range loop
            for t2, st2 in U.stores(fi.node):
                if st2.lineno <= st.lineno or not isinstance(t2,
                                                             ast.Subscript):
                    continue
                if src(t2.value) != tgt:
                    continue
                # re-definition in between?
                redefined = any(src(t3) == tgt and st.lineno < st3.lineno
                                < st2.lineno for t3, st3 in U.stores(fi.node))
                if redefined:
                    continue
                i = t2.slice
                if isinstance(i, ast.Name):
                    lps = [l for l in U.enclosing_loops(st2)
                           if isinstance(l, ast.For) and src(l.target) == i.id
                           and isinstance(l.iter, ast.Call)
                           and call_name(l.iter) == 'range']
                    if not lps:
                        continue
                    hi = lps[0].iter.args[-1] if len(lps[0].iter.args) <= 2 \
                        else lps[0].iter.args[1]
                    hv = const(hi)
                    n += 1
                    ok = isinstance(hv, int) and hv <= k
                    ctx.require(ok, 'C08.R2', fi, st,
                                'list %s is created with the fixed length %d '
                                'but is indexed by %s over range(..., %s): '
                                'IndexError as soon as the range exceeds %d '
                                '(e.g. three ducts)' % (
                                    tgt, k, i.id, src(hi), k),
                                key='%s | %s' % (fi.full,
                                                 ' '.join(src(st).split())))
                elif isinstance(const(i), int):
                    n += 1
                    ctx.require(const(i) < k or const(i) < 0, 'C08.R2', fi,
                                st2, 'constant index %d outside list of '
                                'length %d' % (const(i), k),
                                key='%s | %s' % (fi.full, src(st2)))
    # lists sized by a comprehension over range(M) and indexed by a loop
    # variable over range(.., N): M must be N (symbolic length domain)
    for fi in repo.all_funcs():
        if fi.mod.name not in ('dassh.region_rodded', 'dassh.subchannel',
                               'dassh.region_unrodded', 'dassh.core'):
            continue
        for t, st in U.stores(fi.node):
            if not isinstance(st, ast.Assign) or not isinstance(
                    st.value, ast.ListComp):
                continue
            gens = st.value.generators
            if len(gens) != 1 or not (isinstance(gens[0].iter, ast.Call) and
                                      call_name(gens[0].iter) == 'range' and
                                      len(gens[0].iter.args) == 1):
                continue
            M = src(gens[0].iter.args[0])
            tgt = src(t)
            if fi.qual == 'calculate_geometry' and tgt.startswith('L[') and \
                    not any(isinstance(t2, ast.Subscript) and
                            src(t2.value) == tgt
                            for t2, _ in U.stores(fi.node)):
                # a per-gap list of the L table that is filled as a whole
                # and never stored into element by element: its length is
                # its range by construction (the anchor is still there; the
                # values are C08.R10's business)
                n += 1
                ctx.ok('C08.R2', fi, st, 'list %s of length %s is filled as '
                       'a whole, no indexed store' % (tgt, M))
                continue
            for t2, st2 in U.stores(fi.node):
                if st2.lineno <= st.lineno or not isinstance(
                        t2, ast.Subscript) or src(t2.value) != tgt or \
                        not isinstance(t2.slice, ast.Name):
                    continue
                lps = [l for l in U.enclosing_loops(st2)
                       if isinstance(l, ast.For) and
                       src(l.target) == t2.slice.id and
                       isinstance(l.iter, ast.Call) and
                       call_name(l.iter) == 'range']
                if not lps:
                    # `for i, e in enumerate(X)`: the counter runs over
                    # range(len(X)); X allocated by np.zeros(K) has length K
                    elp = [l for l in U.enclosing_loops(st2)
                           if isinstance(l, ast.For) and
                           isinstance(l.target, ast.Tuple) and
                           len(l.target.elts) == 2 and
                           src(l.target.elts[0]) == t2.slice.id and
                           isinstance(l.iter, ast.Call) and
                           call_name(l.iter) == 'enumerate' and
                           len(l.iter.args) == 1 and not l.iter.keywords]
                    if not elp:
                        continue
                    X = src(elp[0].iter.args[0])
                    K = 'len(%s)' % X
                    for t3, st3 in U.stores(fi.node):
                        if src(t3) == X and isinstance(st3, ast.Assign) and \
                                isinstance(st3.value, ast.Call) and \
                                call_name(st3.value) in ('np.zeros',
                                                         'np.ones') and \
                                len(st3.value.args) == 1 and not isinstance(
                                    st3.value.args[0], ast.Tuple):
                            K = src(st3.value.args[0])
                    n += 1
                    ctx.require(K == M, 'C08.R2', fi, st2,
                                'list %s has length %s but is indexed by %s '
                                'over enumerate(%s) of length %s'
                                % (tgt, M, t2.slice.id, X, K),
                                key='%s | %s sized %s' % (fi.full, tgt, M))
                    continue
                hi = lps[0].iter.args[-1] if len(lps[0].iter.args) <= 2 \
                    else lps[0].iter.args[1]
                n += 1
                ctx.require(src(hi) == M, 'C08.R2', fi, st2,
                            'list %s has length %s but is indexed by %s over '
                            'range(..., %s)' % (tgt, M, t2.slice.id, src(hi)),
                            key='%s | %s sized %s' % (fi.full, tgt, M))
    ctx.extra['indexed_fixed_lists'] = n


# ---------------------------------------------------------------------------
# D_poly identities

def r3(ctx):
    repo = ctx.repo
    fi = repo.func('subchannel', 'Subchannel.__init__')
    atoms = {fi.params[1]: 'n'}
    vals = {}
    for t, st in U.stores(fi.node):
        p = access_path(t)
        if p is None or p[:2] != ('self', 'n_sc') or not isinstance(
                st, ast.Assign):
            continue
        if isinstance(st.value, ast.Dict):
            continue
        key = tuple(x.strip("'") for x in p[2:])
        gs = U.guards(st)
        if gs and not gs[0][1]:
            continue          # else-branch (no bypass): zeros
        at = dict(atoms)
        for k2, v in vals.items():
            at["self.n_sc['%s']" % "']['".join(k2)] = None
        try:
            e = from_ast(st.value, {**atoms, 'len(duct_ftf)': 'nd'},
                         {})
        except NotPolynomial:
            # references to other entries
            env_atoms = {**atoms, 'len(duct_ftf)': 'nd'}
            for k2 in vals:
                env_atoms["self.n_sc['%s']" % "']['".join(k2)] = \
                    '_' + '_'.join(k2)
            e = from_ast(st.value, env_atoms, {})
            for k2, v in vals.items():
                sym = '_' + '_'.join(k2)
                if sym in e.n.symbols() | e.d.symbols():
                    e = e._subs_rat(sym, v)
        vals[key] = e
    need = [('coolant', 'interior'), ('coolant', 'edge'),
            ('coolant', 'corner'), ('coolant', 'total'), ('duct', 'edge'),
            ('duct', 'corner'), ('duct', 'total'), ('bypass', 'edge'),
            ('bypass', 'total'), ('total',)]
    for k in need:
        if k not in vals:
            raise AnalysisError('Subchannel.__init__: n_sc%s not found' % (k,))
    n = Rat.sym('n')
    c = Rat.const

    def req(cond, what, key):
        ctx.require(cond, 'C08.R3', fi, None, what,
                    key='%s | %s' % (fi.full, key))
    ci, ce, cc, ct = (vals[('coolant', x)] for x in
                      ('interior', 'edge', 'corner', 'total'))
    req((ci + ce + cc).equals(ct), 'interior + edge + corner must equal the '
        'coolant total for every ring count (%r + %r + %r vs %r)'
        % (ci.n, ce.n, cc.n, ct.n), 'coolant total')
    req(ct.equals(c(6) * (n * n - n + c(1))), 'coolant total must be '
        '6 (n^2 - n + 1)', 'coolant total closed form')
    de, dc, dt = (vals[('duct', x)] for x in ('edge', 'corner', 'total'))
    req((de + dc).equals(dt) and dt.equals(c(6) * n), 'duct edge + corner '
        'must equal duct total = 6 n', 'duct total')
    req(de.equals(ce) and dc.equals(cc), 'duct cells mirror the edge/corner '
        'coolant cells one to one', 'duct mirrors coolant ring')
    req(vals[('bypass', 'edge')].equals(de) and
        vals[('bypass', 'total')].equals(dt), 'bypass cells mirror duct '
        'cells', 'bypass mirrors duct')
    nd = Rat.sym('nd')
    req(vals[('total',)].equals(ct + (c(2) * nd - c(1)) * dt),
        'grand total = coolant + (2 n_duct - 1) rings of 6 n cells', 'total')
    # pins
    cp = repo.func('pin', 'count_pins')
    rets = [r for r in walk_no_nested(cp.node) if isinstance(r, ast.Return)
            and const(r.value) is None]
    pins = None
    if len(rets) == 1:
        try:
            pins = from_ast(rets[0].value, {cp.params[0]: 'n'})
        except NotPolynomial:
            pins = None
    if pins is None:
        raise AnalysisError('pin.count_pins is not a polynomial in n_ring')
    req(pins.equals(c(3) * n * (n - c(1)) + c(1)), 'pin count must be '
        '3 n (n - 1) + 1', 'pin count')
    # incidence: sum over pins of adjacent cells == sum over cells of pins
    inner_pins = c(3) * (n - c(1)) * (n - c(2)) + c(1)
    edge_pins = c(6) * (n - c(2))
    lhs = c(6) * inner_pins + c(5) * edge_pins + c(5) * c(6)
    rhs = c(3) * ci + c(2) * ce + c(1) * cc
    req((inner_pins + edge_pins + c(6)).equals(pins) and lhs.equals(rhs),
        'pin/subchannel incidence: 6 cells per interior pin, 5 per edge and '
        'corner pin must equal 3 pins per interior cell, 2 per edge cell, 1 '
        'per corner cell for every ring count', 'incidence')
    # heat fractions of each pin class sum to one (literal table)
    rm = repo.mod('region_rodded')
    qn = rm.globals.get('q_p2sc')
    if isinstance(qn, ast.Call) and call_name(qn) == 'np.array' and qn.args:
        qn = qn.args[0]
    q = U.literal_list(qn) if qn is not None else None
    if q is None:
        raise AnalysisError('region_rodded.q_p2sc vanished')
    f = [Fraction(str(x)) for x in q]
    tol = Fraction(1, 10**12)
    ok = abs(6 * f[0] - 1) < tol and abs(3 * f[0] + 2 * f[1] - 1) < tol and \
        abs(2 * f[0] + 2 * f[1] + f[2] - 1) < tol
    ctx.require(ok, 'C08.R3', 'dassh/region_rodded.py:%d'
                % rm.globals['q_p2sc'].lineno, rm.globals['q_p2sc'],
                'pin-to-subchannel fractions: interior pin 6 f0, edge pin '
                '3 f0 + 2 f1, corner pin 2 f0 + 2 f1 + f2 must each be 1 '
                '(table %s)' % (q,), key='dassh.region_rodded | q_p2sc sums')
    return ci, ce, cc


# ---------------------------------------------------------------------------
# R6: ring connection pass covers all rings

def r6(ctx):
    fi = ctx.repo.func('subchannel', 'Subchannel._connect_duct_bypass_sc')
    loops = [n for n in fi.node.body if isinstance(n, ast.For)
             and call_name(n.iter) == 'range']
    if len(loops) != 1:
        raise AnalysisError('_connect_duct_bypass_sc: ring loop')
    lp = loops[0]
    args = lp.iter.args
    lo = args[0] if len(args) >= 2 else ast.Constant(value=0)
    hi = args[1] if len(args) >= 2 else args[0]
    ftf = [p for p in fi.params if 'ftf' in p]
    at = {'len(%s)' % p: 'nd' for p in ftf}
    at.update({'self.n_duct': 'nd', 'self.n_bypass + 1': 'nd'})
    try:
        lo_p = from_ast(U.expand_locals(fi.node, lo, before=lp.lineno), at)
        hi_p = from_ast(U.expand_locals(fi.node, hi, before=lp.lineno), at)
        ok = lo_p.equals(Rat.const(1)) and hi_p.equals(
            Rat.const(2) * Rat.sym('nd'))
        why = 'range(%s, %s)' % (src(lo), src(hi))
    except NotPolynomial as e:
        ok = False
        why = 'the bound %s is not a polynomial in the duct count' % e
    ctx.require(ok, 'C08.R6', fi, lp,
                'the ring pass must visit rings 1 .. 2 n_duct - 1 (every duct '
                'wall and every bypass gap outside the innermost duct), for '
                'every duct count; found %s' % why,
                key=fi.full + ' | ring count')
