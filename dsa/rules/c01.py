"""C01 -- every assembly coolant energy balance closes at every step."""
import ast
from fractions import Fraction

from ..core import (AnalysisError, access_path, const, find_all, match, short,
                    src, walk_no_nested, parent, call_name)
from ..cfg import cfg_of
from .. import util as U
from ..poly import Rat, Poly, from_ast, NotPolynomial


def run(ctx):
    ctx.decided += [
        'R1 the pin-heat fractions form a partition for every pin class and '
        'the same per-subchannel weights are used pin->coolant and '
        'coolant->pin',
        'R2 (exact algebra) heat source: m_i cp dT_i equals the linear power '
        'put into subchannel i -- the flow split and the area share cancel '
        'identically',
        'R3 (exact algebra) conduction / turbulent exchange: the coefficient '
        'multiplying (T_j - T_i) in m_i cp dT_i is keff d_ij / L_ij and is '
        'symmetric under i <-> j for every pair of subchannel types (so the '
        'exchange sums to zero over the bundle); same for the bypass gaps; '
        'the geometric distances are stored symmetrically',
        'R4 (exact algebra) wire swirl: m_i cp times the swirl coefficient is '
        'cp rho d v_swirl, independent of the subchannel (edge and corner '
        'swirl velocities are one value), so the transport around the closed '
        'ring telescopes to zero; donor and receiver use the same cell index',
        'R5 (exact algebra) wall heat: m_i cp dT_i from the wall equals wetted '
        'wall length x h x dT, the quantity tallied as duct heat; sibling '
        'branches (convection approximation on/off) use the same wall length '
        'for the same wall',
        'R6 the state is advanced by += of the returned increment exactly '
        'once per step, duct first, parameter update after',
        'R7 a region change carries over the overall mixed-mean temperature; '
        'the mixed mean is the mass-flow weighted mean (weights = area share x '
        'flow split)',
        'R8 low-fidelity regions: single node dT = Q dz / (m cp); six-node '
        'exchange terms sum to zero',
        'R9 typestate of the coolant Material shared by bundle interior and '
        'bypass: it is back at the interior temperature at the end of '
        'calculate() / activate() on every path and wherever a method that '
        'reads self.coolant.<property> directly is called',
        'R10 the bounds at which an assembly switches its active region are '
        'the region objects\' own z values, unmodified (no rounding or '
        'arithmetic): the power object and the mesh use the same input '
        'numbers, so region and power zone switch on the same plane']
    ctx.not_decided += ['the numeric residual (round-off / first order in '
                        'dz)', 'symmetry of the run-time adjacency arrays '
                        '(C08)', 'that the flow-split factors make the '
                        'weights sum to the bundle flow (C12.R4 decides it '
                        'per correlation)']
    r1(ctx)
    r2_r5(ctx)
    r6(ctx)
    r7(ctx)
    r8(ctx)
    from . import _coolstate
    _coolstate.check(ctx, 'C01.R9')
    r10(ctx)
    ctx.min_instances('C01.R1', 4)
    ctx.min_instances('C01.R2', 2)
    ctx.min_instances('C01.R3', 12)
    ctx.min_instances('C01.R4', 3)
    ctx.min_instances('C01.R5', 5)
    ctx.min_instances('C01.R6', 5)
    ctx.min_instances('C01.R7', 4)
    ctx.min_instances('C01.R8', 3)


def _s(e):
    return ' '.join(src(e).split())


# ---------------------------------------------------------------------------

def r1(ctx):
    repo = ctx.repo
    for modn in ('region_rodded', 'assembly'):
        m = repo.mod(modn)
        qn = m.globals.get('q_p2sc')
        if qn is None:
            raise AnalysisError('%s.q_p2sc vanished' % modn)
        v = qn
        if isinstance(v, ast.Call) and call_name(v) == 'np.array':
            v = v.args[0]
        q = U.literal_list(v)
        if isinstance(q, dict):
            q = [q[k] for k in sorted(q)]
        f = [Fraction(str(x)) for x in q]
        tol = Fraction(1, 10 ** 12)
        ok = len(f) == 3 and abs(6 * f[0] - 1) < tol and \
            abs(3 * f[0] + 2 * f[1] - 1) < tol and \
            abs(2 * f[0] + 2 * f[1] + f[2] - 1) < tol
        ctx.require(ok, 'C01.R1', '%s:%d' % (m.rel, qn.lineno), qn,
                    'pin heat fractions must partition each pin: interior pin '
                    '6 f0 = 1, edge pin 3 f0 + 2 f1 = 1, corner pin 2 f0 + '
                    '2 f1 + f2 = 1 (table %s)' % (q,),
                    key='dassh.%s | q_p2sc partition' % modn)
    rr = repo.cls('region_rodded', 'RoddedRegion')
    defs = []
    for mth in rr.methods.values():
        for t, st in U.stores(mth.node):
            if src(t) == 'self._q_p2sc':
                defs.append((mth, st))
    ok = len(defs) == 1 and _s(defs[0][1].value) == \
        "q_p2sc[self.subchannel.type[:self.subchannel.n_sc['coolant']" \
        "['total']]]"
    ctx.require(ok, 'C01.R1', defs[0][0] if defs else None,
                defs[0][1] if defs else None,
                'per-subchannel weights = q_p2sc[type of the subchannel]',
                key='dassh.region_rodded:RoddedRegion | _q_p2sc definition')
    ip = repo.func('region_rodded', 'RoddedRegion._calc_int_sc_power')
    h = find_all('q *= self._q_p2sc', ip.node, 'stmt')
    g = find_all('q = pin_power[self.subchannel.rev_pin_adj]', ip.node, 'stmt')
    s3 = find_all('q = q[:, 0] + q[:, 1] + q[:, 2]', ip.node, 'stmt')
    z = find_all('q[self.subchannel.rev_pin_adj < 0] = 0', ip.node, 'stmt')
    ok = len(h) == 1 and len(g) == 1 and len(s3) == 1 and len(z) == 1 and \
        g[0][0].lineno < z[0][0].lineno < s3[0][0].lineno < h[0][0].lineno
    ctx.require(ok, 'C01.R1', ip, h[0][0] if h else ip.node,
                'subchannel power = (sum of the up to three adjacent pin '
                'powers, missing neighbours zeroed) x the pin fraction of the '
                'subchannel type', key=ip.full + ' | pin->coolant')
    pt = repo.func('region_rodded', 'RoddedRegion.calculate_pin_temperatures')
    h2 = find_all("T_scaled = self.temp['coolant_int'] * self._q_p2sc",
                  pt.node, 'stmt')
    ctx.require(len(h2) == 1, 'C01.R1', pt, h2[0][0] if h2 else pt.node,
                'the same weights are used coolant->pin',
                key=pt.full + ' | coolant->pin')


# ---------------------------------------------------------------------------
# symbolic evaluation helpers

class _Sub(ast.NodeTransformer):
    def __init__(self, m):
        self.m = m

    def visit_Name(self, n):
        if n.id in self.m and isinstance(n.ctx, ast.Load):
            return ast.copy_location(ast.Constant(value=self.m[n.id]), n)
        return n


def _subst(e, m):
    e2 = ast.parse(src(e), mode='eval').body
    return ast.fix_missing_locations(_Sub(m).visit(e2))


def _select(stmts, env, target_pred):
    """Value expression assigned to the target on the path selected by the
    concrete environment (loops over the environment variables are not
    entered; only if-branches are resolved)."""
    found = None
    for st in stmts:
        if isinstance(st, ast.If):
            v = U.eval_test(st.test, env)
            if v is None:
                raise AnalysisError('cannot resolve branch %s under %s'
                                    % (src(st.test), env))
            r = _select(st.body if v else st.orelse, env, target_pred)
            if r is not None:
                found = r
        elif isinstance(st, ast.Assign) and target_pred(st.targets[0]):
            found = st.value
        elif isinstance(st, ast.Continue):
            return found
    return found


def _atoms(prefix):
    """Atom table for the heat-transfer constant expressions written on an
    object called `prefix` (rr / self)."""
    at = {"%s.bundle_params['area']" % prefix: 'Ab',
          '%s.int_flow_rate' % prefix: 'm',
          "%s.d['pin-pin']" % prefix: 'dpp',
          "%s.d['pin-wall']" % prefix: 'dpw',
          "%s.d['wcorner'][0, 1]" % prefix: 'wc'}
    for i in range(3):
        at["%s.params['area'][%d]" % (prefix, i)] = 'A%d' % i
    for i in range(3):
        for j in range(3):
            a, b = min(i, j), max(i, j)
            at["%s.L[%d][%d]" % (prefix, i, j)] = 'L%d%d' % (a, b)
    return at


def r2_r5(ctx):
    repo = ctx.repo
    # ---- geometry: L stored symmetrically (so L_ij == L_ji may be assumed)
    cg = repo.func('region_rodded', 'calculate_geometry')
    pairs = [((0, 1), (1, 0)), ((1, 2), (2, 1)), ((5, 6), (6, 5))]
    for (a, b), (c, d) in pairs:
        h = find_all('L[%d][%d] = L[%d][%d]' % (c, d, a, b), cg.node, 'stmt')
        ctx.require(len(h) == 1, 'C01.R3', cg, h[0][0] if h else cg.node,
                    'centroid distance L[%d][%d] must be stored as the mirror '
                    'of L[%d][%d]' % (c, d, a, b),
                    key='%s | L symmetric %d%d' % (cg.full, a, b))
    # ---- interior conduction constants for every type pair
    hc = repo.func('region_rodded', 'calculate_ht_constants')
    rr = hc.params[0]
    outer = [l for l in hc.node.body if isinstance(l, ast.For)
             and _s(l.iter) == 'range(3)']
    if not outer:
        raise AnalysisError('calculate_ht_constants: type loops')
    inner = [l for l in outer[0].body if isinstance(l, ast.For)]
    if not inner:
        raise AnalysisError('calculate_ht_constants: inner type loop')
    iv, jv = src(outer[0].target), src(inner[0].target)
    at = _atoms(rr)
    consts = {}
    for i in range(3):
        for j in range(3):
            if (i, j) in ((0, 2), (2, 0)):
                continue         # interior and corner cells never touch
            env = {iv: i, jv: j, '%s.n_pin' % rr: 19,
                   '%s.L[%s][%s]' % (rr, iv, jv): 1.0}
            e = _select(inner[0].body, env, lambda t: _s(t) ==
                        'ht_consts[%s][%s]' % (iv, jv))
            if e is None:
                raise AnalysisError('no conduction constant for types %d,%d'
                                    % (i, j))
            consts[(i, j)] = from_ast(_subst(e, {iv: i, jv: j}), at, auto=True)
    # ---- mass-flow weights and the division by m cp used by the update
    ci = repo.func('region_rodded', 'RoddedRegion._calc_coolant_int_temp')
    mcp = [a for a in U.assigns_of(ci.node, 'mCp') if isinstance(a,
                                                                 ast.Assign)]
    ok = len(mcp) == 2 and _s(mcp[0].value) == \
        "1 / (self.coolant.heat_capacity * self.coolant_int_params['fs'])" \
        and _s(mcp[1].value) == \
        "mCp[self.subchannel.type[:self.subchannel.n_sc['coolant']['total']]]"
    ctx.require(ok, 'C01.R2', ci, mcp[0] if mcp else ci.node,
                'every term is divided by cp x flow split of the '
                'subchannel\'s own type', key=ci.full + ' | mCp')
    sf = repo.func('region_rodded', 'RoddedRegion._setup_flowrate')
    mf = [st for t, st in U.stores(sf.node) if src(t) == 'self._mfrc']
    ok = len(mf) == 1 and _s(mf[0].value) == \
        "self.params['area'] * self.int_flow_rate / " \
        "self.bundle_params['area']"
    ctx.require(ok, 'C01.R2', sf, mf[0] if mf else sf.node,
                'mass-flow constant = area share x interior flow',
                key=sf.full + ' | _mfrc')
    cls = repo.cls('region_rodded', 'RoddedRegion')
    pm = repo.lookup_method(cls, 'sc_mfr')
    d0 = U.assigns_of(pm.node, 'mfr')
    ok = len(d0) == 2 and _s(d0[0].value) == \
        "self._mfrc * self.coolant_int_params['fs']"
    ctx.require(ok, 'C01.R2', pm, d0[0] if d0 else pm.node,
                'subchannel mass flow = area share x flow split',
                key=pm.full + ' | sc_mfr')
    m_, Ab, cp, keff = (Rat.sym(x) for x in ('m', 'Ab', 'cp', 'keff'))
    A = [Rat.sym('A%d' % i) for i in range(3)]
    fs = [Rat.sym('fs%d' % i) for i in range(3)]
    mi = [A[i] * m_ / Ab * fs[i] for i in range(3)]       # sc_mfr
    inv_mcp = [Rat.const(1) / (cp * fs[i]) for i in range(3)]
    # R2: heat source
    sh = repo.func('region_rodded', 'RoddedRegion._setup_ht_constants')
    iq = [st for t, st in U.stores(sh.node)
          if _s(t) == "self.ht['inv_q_denom']"]
    ok = len(iq) == 3 and _s(iq[0].value) == \
        "self.int_flow_rate * self.params['area'] / " \
        "self.bundle_params['area']" and \
        _s(iq[2].value) == "1 / self.ht['inv_q_denom']"
    ctx.require(ok, 'C01.R2', sh, iq[0] if iq else sh.node,
                'heat-source divisor = interior flow x area share',
                key=sh.full + ' | inv_q_denom')
    h = find_all("dT = q * self.ht['inv_q_denom']", ci.node, 'stmt')
    ctx.require(len(h) == 1, 'C01.R2', ci, h[0][0] if h else ci.node,
                'heat source enters as q / (flow x area share)',
                key=ci.full + ' | source term')
    q = Rat.sym('q')
    for i in range(3):
        inv_q = Rat.const(1) / (m_ * A[i] / Ab)
        lhs = mi[i] * cp * (q * inv_q * inv_mcp[i])
        ctx.require(lhs.equals(q), 'C01.R2', ci, None,
                    'type %d: m_i cp dT_i from the source must equal the '
                    'linear power q_i identically (is %r)' % (i, lhs),
                    key='%s | source identity type %d' % (ci.full, i))
    # R3: exchange symmetric
    kd = U.single_def(ci.node, 'keff')
    ok = kd is not None and _s(kd) == \
        "self.coolant_int_params['eddy'] * self.coolant.density * " \
        "self.coolant.heat_capacity + self._sf * " \
        "self.coolant.thermal_conductivity"
    ctx.require(ok, 'C01.R3', ci, kd if kd is not None else ci.node,
                'effective conductivity = eddy rho cp + shape factor x k '
                '(one value for the whole bundle)',
                key=ci.full + ' | keff')
    tm = find_all("tmp = self.ht['cond']['const'] * (self.temp['coolant_int']"
                  "[self.ht['cond']['adj']] - self.temp['coolant_int']"
                  "[:, np.newaxis])", ci.node, 'stmt')
    ad = find_all('dT += keff * (tmp[:, 0] + tmp[:, 1] + tmp[:, 2])', ci.node,
                  'stmt')
    ctx.require(len(tm) == 1 and len(ad) == 1, 'C01.R3', ci,
                tm[0][0] if tm else ci.node,
                'exchange term = keff x const_ij x (T_neighbour - T_self), '
                'all (up to three) neighbours added',
                key=ci.full + ' | exchange term')
    E = {}
    for (i, j), c in consts.items():
        E[(i, j)] = mi[i] * cp * keff * c * inv_mcp[i]
    for (i, j) in sorted(E):
        if i > j or (j, i) not in E:
            continue
        sym_ok = E[(i, j)].equals(E[(j, i)])
        ctx.require(sym_ok, 'C01.R3', hc, None,
                    'exchange between subchannel types %d and %d is not '
                    'antisymmetric: m_i cp dT_i gets %r (T_j - T_i) but '
                    'm_j cp dT_j gets %r (T_i - T_j); the pair does not '
                    'cancel in the bundle sum' % (i, j, E[(i, j)], E[(j, i)]),
                    key='%s | exchange symmetric %d%d' % (hc.full, i, j))
        # and it is keff d / L (no flow / area left)
        dd = Rat.sym('dpp') if (i == 0 or j == 0) else Rat.sym('dpw')
        want = keff * dd / Rat.sym('L%d%d' % (min(i, j), max(i, j)))
        ctx.require(E[(i, j)].equals(want), 'C01.R3', hc, None,
                    'exchange coefficient %d%d must reduce to keff d / L '
                    '(found %r)' % (i, j, E[(i, j)]),
                    key='%s | exchange reduces %d%d' % (hc.full, i, j))
    # constants are attached by (own type, neighbour type)
    sc = repo.func('region_rodded', '_setup_conduction_constants')
    h = find_all("_cond['const'][i, j] = hc[cool_type[i]][tmp[j]]", sc.node,
                 'stmt')
    h2 = find_all('hc = np.vstack([ht_consts[i][:3] for i in range(3)])',
                  sc.node, 'stmt')
    ctx.require(len(h) == 1 and len(h2) == 1, 'C01.R3', sc,
                h[0][0] if h else sc.node,
                'each neighbour slot gets the constant for (own type, '
                'neighbour type)', key=sc.full + ' | constant lookup')
    # bypass gap exchange constants
    byp = {}
    bat = {"%s.d['bypass'][i]" % rr: 'db',
           "%s.bypass_params['total area'][i]" % rr: 'At',
           '%s.byp_flow_rate[i]' % rr: 'mb',
           "%s.bypass_params['area'][i, 0]" % rr: 'a0',
           "%s.bypass_params['area'][i, 1]" % rr: 'a1',
           '%s.L[5][5][i]' % rr: 'L55', '%s.L[5][6][i]' % rr: 'L56',
           '%s.L[6][5][i]' % rr: 'L56', '%s.L[6][6][i]' % rr: 'L66'}
    for st in ast.walk(hc.node):
        if isinstance(st, ast.Assign):
            b = match('ht_consts[Q_a][Q_b][i]', st.targets[0])
            if b is not None and const(b['Q_a']) in (5, 6) and \
                    const(b['Q_b']) in (5, 6):
                try:
                    byp[(const(b['Q_a']), const(b['Q_b']))] = from_ast(
                        st.value, bat, auto=True)
                except NotPolynomial as e:
                    raise AnalysisError('bypass constant not algebraic: %s'
                                        % e)
    if sorted(byp) != [(5, 5), (5, 6), (6, 5), (6, 6)]:
        raise AnalysisError('calculate_ht_constants: bypass conduction '
                            'constants %s' % sorted(byp))
    bf = repo.func('region_rodded', 'RoddedRegion._calc_coolant_byp_temp')
    fr = U.assigns_of(bf.node, 'byp_fr_const')
    ok = len(fr) == 2 and _s(fr[0].value) == \
        "self.bypass_params['total area'][i] / self.byp_flow_rate[i] / " \
        "self.bypass_params['area'][i]"
    ctx.require(ok, 'C01.R3', bf, fr[0] if fr else bf.node,
                'bypass wall terms are divided by the cell mass flow '
                '(flow x area share)', key=bf.full + ' | byp_fr_const')
    At, mb, a0, a1, k = (Rat.sym(x) for x in ('At', 'mb', 'a0', 'a1', 'k'))
    mcell = {5: mb * a0 / At, 6: mb * a1 / At}
    for (a, b) in ((5, 6),):
        Eab = mcell[a] * k * byp[(a, b)]
        Eba = mcell[b] * k * byp[(b, a)]
        ctx.require(Eab.equals(Eba), 'C01.R3', hc, None,
                    'bypass edge<->corner exchange is not antisymmetric: %r '
                    'vs %r' % (Eab, Eba),
                    key=hc.full + ' | bypass exchange symmetric')
    # R4: swirl
    sw = [st for t, st in U.stores(sh.node) if _s(t) == "self.ht['swirl']"]
    ok = len(sw) == 1
    swr = None
    if ok:
        sat = {"self.d['pin-wall']": 'dpw',
               "self.bundle_params['area']": 'Ab',
               'self.int_flow_rate': 'm'}
        # per-type array: params['area'] -> A_t
        e_t = []
        for t_ in range(3):
            at2 = dict(sat)
            at2["self.params['area']"] = 'A%d' % t_
            e_t.append(from_ast(sw[0].value, at2, auto=True))
        swr = e_t
    ctx.require(ok, 'C01.R4', sh, sw[0] if sw else sh.node,
                'swirl constant defined once', key=sh.full + ' | swirl const')
    sc_def = U.assigns_of(ci.node, 'swirl_consts')
    ok = len(sc_def) == 2 and _s(sc_def[0].value) == \
        "self.ht['swirl'] * self.coolant.density * " \
        "self.coolant_int_params['swirl'] / self.coolant_int_params['fs']" \
        and _s(sc_def[1].value) == "swirl_consts[self.ht['conv']['type']]"
    ctx.require(ok, 'C01.R4', ci, sc_def[0] if sc_def else ci.node,
                'swirl coefficient = const x rho x v_swirl / flow split, by '
                'subchannel type', key=ci.full + ' | swirl coefficient')
    if swr is not None:
        rho, v = Rat.sym('rho'), Rat.sym('v')
        coef = [mi[t_] * cp * (swr[t_] * rho * v / fs[t_]) for t_ in (1, 2)]
        want = cp * rho * Rat.sym('dpw') * v
        ok = coef[0].equals(coef[1]) and coef[0].equals(want)
        ctx.require(ok, 'C01.R4', ci, None,
                    'm_i cp x swirl coefficient must be the same for edge and '
                    'corner cells (cp rho d v): %r vs %r' % (coef[0], coef[1]),
                    key=ci.full + ' | uniform ring coefficient')
    up = repo.func('region_rodded', 'RoddedRegion._update_coolant_int_params')
    s1 = find_all("self.coolant_int_params['swirl'][1] = Q_v", up.node, 'stmt')
    s2 = find_all("self.coolant_int_params['swirl'][2] = Q_v", up.node, 'stmt')
    ok = len(s1) == 1 and len(s2) == 1 and \
        _s(s1[0][1]['Q_v']) == _s(s2[0][1]['Q_v'])
    ctx.require(ok, 'C01.R4', up, s1[0][0] if s1 else up.node,
                'edge and corner swirl velocities must be one value (a closed '
                'ring carries one circulating flow)',
                key=up.full + ' | one swirl velocity')
    h = find_all("self.temp['coolant_int'][self.subchannel.sc_adj["
                 "self.ht['conv']['ind'], self._adj_sw]] - "
                 "self.temp['coolant_int'][self.ht['conv']['ind']]", ci.node)
    ctx.require(len(h) == 1, 'C01.R4', ci, h[0][0] if h else ci.node,
                'swirl term = coefficient x (T[donor of cell] - T[cell])',
                key=ci.full + ' | swirl difference')
    # the swirl term is added after the division by m cp (it carries its own)
    g = cfg_of(ci)
    div = g.find(lambda n: isinstance(n, ast.AugAssign) and _s(n) ==
                 'dT *= mCp')
    swn = [g.node_containing(h[0][0])] if h else []
    ok = len(div) == 1 and swn and g.dominates(div[0], swn[0])
    ctx.require(ok, 'C01.R4', ci, div[0].stmt if div else ci.node,
                'source, exchange and wall terms are divided by m cp once; '
                'the swirl term (which carries its own 1/m) comes after',
                key=ci.full + ' | division order')
    # R5: wall term
    cat = dict(at)
    c13 = None
    for st in ast.walk(hc.node):
        if isinstance(st, ast.Assign) and _s(st.targets[0]) in (
                'ht_consts[1][3]', 'ht_consts[2][4]'):
            v = from_ast(st.value, at, auto=True)
            t_ = 1 if '[1][3]' in _s(st.targets[0]) else 2
            wall = mi[t_] * cp * v * inv_mcp[t_]
            want = Rat.sym('L11') if t_ == 1 else Rat.const(2) * Rat.sym('wc')
            ctx.require(wall.equals(want), 'C01.R5', hc, st,
                        'wall heat into a type-%d cell must reduce to wetted '
                        'wall length x h x dT (m_i cp x const / (cp fs) = %r, '
                        'expected %r)' % (t_, wall, want),
                        key='%s | wall length type %d' % (hc.full, t_))
    cv = repo.func('region_rodded', '_setup_convection_constants')
    li = U.single_def(cv.node, 'Li')
    ok = li is not None and _s(li) == \
        "np.array([0.0, %s.pin_pitch, 2 * %s.d['wcorner'][0, 1]])" % (
            cv.params[0], cv.params[0])
    h = find_all('L[1][1] = P', cg.node, 'stmt')
    ctx.require(ok and len(h) == 1, 'C01.R5', cv,
                li if li is not None else cv.node,
                'the tallied wall lengths [0, pitch, 2 x corner] are the ones '
                'in the constants (L[1][1] is the pin pitch)',
                key=cv.full + ' | ebal wall lengths')
    cd = find_all('c = np.array([ht_consts[i][i + 2] for i in range(3)])',
                  cv.node, 'stmt')
    ctx.require(len(cd) == 1, 'C01.R5', cv, cd[0][0] if cd else cv.node,
                'convection constants: interior none, edge [1][3], corner '
                '[2][4]', key=cv.full + ' | conv const selection')
    qd = find_all("qduct = self.ht['conv']['ebal'] * dT_conv_over_R", ci.node,
                  'stmt')
    ad = find_all("dT[self.ht['conv']['ind']] += self.ht['conv']['const'] * "
                  "dT_conv_over_R", ci.node, 'stmt')
    ctx.require(len(qd) == 1 and len(ad) == 1, 'C01.R5', ci,
                ad[0][0] if ad else ci.node,
                'the wall flux added to the coolant and the flux tallied as '
                'duct heat are the same quantity (h dT or dT/R)',
                key=ci.full + ' | same flux tallied')
    # sibling branches of the bypass wall terms
    for q in ('RoddedRegion._calc_coolant_byp_temp',):
        f = repo.func('region_rodded', q)
        for nm, col in (('dT_in', 0), ('dT_out', 1)):
            cols = set()
            for a in U.assigns_of(f.node, nm):
                if not isinstance(a, ast.Assign):
                    continue
                for n in ast.walk(a.value):
                    b = match('byp_conv_const[:, Q_c]', n) if isinstance(
                        n, ast.Subscript) else None
                    if b is not None:
                        cols.add(const(b['Q_c']))
            ctx.require(cols == {col}, 'C01.R5', f, None,
                        '%s (heat from the %s wall of a bypass gap) must use '
                        'wall-length column %d in every branch; the branches '
                        'use %s: with the convection approximation on, corner '
                        'cells take the heat of the %s wall over the wrong '
                        'wall length' % (
                            nm, 'inner' if col == 0 else 'outer', col,
                            sorted(cols), 'outer' if col == 1 else 'inner'),
                        key='%s | %s wall length column' % (f.full, nm))


# ---------------------------------------------------------------------------

def r6(ctx):
    repo = ctx.repo
    for modn, q, inc, duct, upd in (
            ('region_rodded', 'RoddedRegion.calculate',
             '_calc_coolant_int_temp', '_calc_duct_temp',
             '_update_coolant_int_params'),
            ('region_unrodded', 'SingleNodeHomogeneous.calculate',
             '_calc_coolant_temp', '_calc_duct_temp',
             '_update_coolant_params'),
            ('region_unrodded', 'MultiNodeHomogeneous.calculate',
             '_calc_coolant_temp', '_calc_duct_temp', None)):
        fi = repo.func(modn, q)
        g = cfg_of(fi)
        adv = [st for t, st in U.stores(fi.node)
               if _s(t) == "self.temp['coolant_int']"]
        ok = len(adv) == 1 and isinstance(adv[0], ast.AugAssign) and \
            isinstance(adv[0].op, ast.Add) and isinstance(
                adv[0].value, ast.Call) and \
            call_name(adv[0].value) == 'self.' + inc and not U.guards(adv[0])
        if ok:
            dzp = fi.params[1]
            ok = src(adv[0].value.args[0]) == dzp
        ctx.require(ok, 'C01.R6', fi, adv[0] if adv else fi.node,
                    'coolant temperature must be advanced exactly once per '
                    'step by += %s(dz, ...)' % inc,
                    key=fi.full + ' | advance once')
        calls = U.attr_calls(fi.node, inc)
        ctx.require(len(calls) == 1, 'C01.R6', fi,
                    calls[0] if calls else fi.node,
                    'the increment must be evaluated once',
                    key=fi.full + ' | increment once')
        if adv:
            an = g.node_of(adv[0])
            dn = g.find(lambda n: isinstance(n, ast.Call) and
                        call_name(n) == 'self.' + duct)
            if 'Multi' not in q:
                ok = len(dn) == 1 and g.dominates(dn[0], an)
                what = 'duct temperatures first (they use the old coolant ' \
                       'level), then the coolant'
            else:
                ok = len(dn) == 1 and g.dominates(an, dn[0])
                what = 'six-node model: coolant first, then its wall (the ' \
                       'one-level lag C02 accounts for)'
            ctx.require(ok, 'C01.R6', fi, dn[0].stmt if dn else fi.node,
                        what, key=fi.full + ' | order duct/coolant')
            if upd:
                un = g.find(lambda n: isinstance(n, ast.Call) and
                            call_name(n) == 'self.' + upd)
                ok = len(un) == 1 and g.dominates(an, un[0]) and \
                    g.must_pass(an, {un[0]})
                ctx.require(ok, 'C01.R6', fi, un[0].stmt if un else fi.node,
                            'coolant properties and correlated parameters '
                            'are re-evaluated after the coolant is advanced, '
                            'on every path (the next explicit step must not '
                            'use the properties of an earlier level)',
                            key=fi.full + ' | parameter update after')
    # bypass
    fi = repo.func('region_rodded', 'RoddedRegion.calculate')
    adv = [st for t, st in U.stores(fi.node)
           if _s(t) == "self.temp['coolant_byp']"]
    ok = len(adv) == 2 and all(isinstance(a, ast.AugAssign) and isinstance(
        a.op, ast.Add) for a in adv)
    if ok:
        gs = [[(src(t), p) for t, p in U.guards(a)] for a in adv]
        # (one test on the bypass flow of the region -- the array reduced
        # with np.sum / np.any, see G7 -- selects the model)
        def _flowing(txt):
            try:
                e = ast.parse(txt, mode='eval').body
            except SyntaxError:
                return False
            return isinstance(e, ast.Compare) and len(e.ops) == 1 and \
                isinstance(e.ops[0], ast.Gt) and \
                const(e.comparators[0], None) in (0, 0.0) and \
                'self.byp_flow_rate' in src(e.left)
        ok = gs[0][0][0] == gs[1][0][0] and _flowing(gs[0][0][0]) and \
            gs[0][0][1] is True and gs[1][0][1] is False and \
            call_name(adv[0].value) == 'self._calc_coolant_byp_temp' and \
            call_name(adv[1].value) == \
            'self._calc_coolant_byp_temp_stagnant'
    ctx.require(ok, 'C01.R6', fi, adv[0] if adv else fi.node,
                'bypass gaps are advanced once, by the flowing or the '
                'stagnant model', key=fi.full + ' | bypass advance')
    # the increment returned carries dz exactly once
    for q in ('RoddedRegion._calc_coolant_int_temp',
              'RoddedRegion._calc_coolant_byp_temp'):
        f = repo.func('region_rodded', q)
        rets = [r for r in walk_no_nested(f.node) if isinstance(r, ast.Return)]
        ok = len(rets) == 1 and _s(rets[0].value) == 'dT * ' + f.params[1]
        dz_uses = [n for n in walk_no_nested(f.node) if isinstance(n, ast.Name)
                   and n.id == f.params[1] and isinstance(n.ctx, ast.Load)
                   and not any(isinstance(a, ast.Call) and 'update_ebal' in
                               src(a.func) for a in _anc(n))]
        ctx.require(ok and len(dz_uses) == 1, 'C01.R6', f,
                    rets[0] if rets else f.node,
                    'the returned increment is (sum of rate terms) x dz, dz '
                    'entering once', key=f.full + ' | dz once')


def _anc(n):
    p = parent(n)
    while p is not None:
        yield p
        p = parent(p)


# ---------------------------------------------------------------------------

def r7(ctx):
    repo = ctx.repo
    ab = repo.func('region', 'DASSH_Region._activate_base')
    d = U.single_def(ab.node, 'avg_cool_temp')
    ok = d is not None and _s(d) == 'previous_reg.avg_coolant_temp'
    h1 = find_all("self.temp['coolant_int'] *= avg_cool_temp", ab.node, 'stmt')
    h2 = find_all("self.temp['coolant_byp'] *= avg_cool_temp", ab.node, 'stmt')
    ctx.require(ok and len(h1) == 1 and len(h2) == 1, 'C01.R7', ab,
                h1[0][0] if h1 else ab.node,
                'a new region starts interior and bypass coolant at the '
                'previous region\'s overall mixed-mean temperature',
                key=ab.full + ' | carry-over')
    asrt = [n for n in walk_no_nested(ab.node) if isinstance(n, ast.Assert)
            and "self.temp['coolant_int'], 1" in src(n)]
    ctx.require(len(asrt) == 1, 'C01.R7', ab, asrt[0] if asrt else ab.node,
                'activation multiplies arrays of ones (checked by assert)',
                key=ab.full + ' | ones')
    rr = repo.cls('region_rodded', 'RoddedRegion')
    pf, pe = None, None
    m = repo.lookup_method(rr, 'avg_coolant_int_temp')
    rets = [r for r in walk_no_nested(m.node) if isinstance(r, ast.Return)]
    ok = any(_s(r.value) == "np.dot(self.sc_mfr, self.temp['coolant_int']) / "
             "self.int_flow_rate" for r in rets)
    ctx.require(ok, 'C01.R7', m, rets[-1] if rets else m.node,
                'interior mixed mean = sum(m_i T_i) / interior flow',
                key=m.full + ' | mixed mean')
    m2 = repo.lookup_method(rr, 'avg_coolant_temp')
    h = find_all('tot += self.avg_coolant_int_temp * self.int_flow_rate',
                 m2.node, 'stmt')
    h3 = find_all('avg = tot / self.total_flow_rate', m2.node, 'stmt')
    h4 = find_all("tot *= self.byp_flow_rate / "
                  "self.total_area['coolant_byp']", m2.node, 'stmt')
    ctx.require(len(h) == 1 and len(h3) == 1 and len(h4) == 1, 'C01.R7', m2,
                h[0][0] if h else m2.node,
                'overall mixed mean = (bypass flow-weighted sum + interior '
                'mean x interior flow) / total flow',
                key=m2.full + ' | overall mixed mean')
    # flow bookkeeping: int + bypass = total
    sf = repo.func('region_rodded', 'RoddedRegion._setup_flowrate')
    h = find_all('self.int_flow_rate = flowrate * (1 - self._byp_ff)',
                 sf.node, 'stmt')
    h2 = find_all('self.byp_flow_rate = np.ones(self.n_bypass) * flowrate * '
                  'self._byp_ff / self.n_bypass', sf.node, 'stmt')
    ctx.require(len(h) == 1 and len(h2) == 1, 'C01.R7', sf,
                h[0][0] if h else sf.node,
                'interior + bypass flow = assembly flow',
                key=sf.full + ' | flow partition')


# ---------------------------------------------------------------------------

def _coolant_atoms(fn_node):
    """Atom / env tables for the uniform-temperature reading of a low-fidelity
    coolant update: every element of temp['coolant_int'] is T, a neighbour
    sum np.sum(temp['coolant_int'][...], axis=1) is kept as S."""
    atoms = {}
    for n in ast.walk(fn_node):
        s = _s(n)
        if isinstance(n, ast.Subscript) and \
                s.startswith("self.temp['coolant_int']"):
            up = parent(n)
            if not (isinstance(up, ast.Subscript) and up.value is n):
                atoms[s] = 'T'
        elif isinstance(n, ast.Call) and call_name(n) in ('np.sum', 'sum') \
                and n.args and _s(n.args[0]).startswith(
                    "self.temp['coolant_int'][") and n.keywords:
            atoms[s] = 'S'
    return atoms


def r8(ctx):
    """Low-fidelity regions, decided on the algebra of the update itself
    (D_poly over the straight-line evaluation of _calc_coolant_temp): the
    returned increment x node flow x cp equals exactly what is tallied
    (power share + wall heat) plus a ring exchange that vanishes for uniform
    temperatures and is linear in (neighbour sum, own temperature)."""
    from ..algeval import run_function
    from ..poly import Rat
    repo = ctx.repo
    cp = Rat.sym("<self.coolant.heat_capacity>")
    SUM = Rat.sym('<SUM>')
    for q, flow, nnode in (
            ('SingleNodeHomogeneous._calc_coolant_temp', 'self.flow_rate', 1),
            ('MultiNodeHomogeneous._calc_coolant_temp', 'self._scfr', 6)):
        f = repo.func('region_unrodded', q)
        atoms = _coolant_atoms(f.node)
        for approx in (False, True):
            flags = {'adiabatic': False, 'ebal': True,
                     'self._conv_approx': approx,
                     "power['refl'] is None": False}
            r = run_function(f, flags, atoms)
            eb = r.call('update_ebal')
            tag = '%s | conv_approx=%s' % (f.full, approx)
            if r.ret is None or len(eb) != 1 or len(eb[0][1]) != 2 or \
                    None in eb[0][1]:
                ctx.violation('C01.R8', f, f.node, 'the coolant update must '
                              'return its increment and tally power and wall '
                              'heat once (update_ebal) on the non-adiabatic '
                              'path', key=tag + ' | shape')
                continue
            q_in, q_wall = eb[0][1]
            m = Rat.sym('<%s>' % flow)
            if nnode == 1:
                # one coolant node fed by all wall cells: sum over the walls
                D = r.ret * m * cp - (q_in + SUM * q_wall)
            else:
                D = r.ret * m * cp - (q_in / Rat.const(nnode) + q_wall)
            # uniform coolant temperature: neighbour sum = 2 T
            Du = D.subs('S', Rat.sym('T') * Rat.const(2))
            ctx.require(
                Du.is_zero(), 'C01.R8', f, r.ret_node,
                'enthalpy rise of a node (increment x %s x cp) must equal '
                'the tallied power share plus the tallied wall heat; residual '
                'for uniform coolant temperature: %s' % (flow, str(Du)[:200]),
                note='conv_approx=%s' % approx, key=tag + ' | tally = rise')
            if nnode == 1:
                continue
            # exchange part: a x (S - 2T), a free of S and T
            ok = D.d.degree_in('S') == 0 and D.d.degree_in('T') == 0 and \
                D.n.degree_in('S') <= 1 and all(
                    sum(e for sy, e in k if sy in ('S', 'T')) <= 1
                    for k in D.n.t)
            ctx.require(
                ok and not D.is_zero(), 'C01.R8', f, r.ret_node,
                'six-node exchange must be linear: coefficient x (sum of '
                'the two neighbours - 2 x self), so that it cancels over '
                'the closed ring', note='conv_approx=%s' % approx,
                key=tag + ' | ring exchange')
        # adiabatic path: nothing from the wall reaches the coolant or the
        # tally
        r = run_function(f, {'adiabatic': True, 'ebal': True,
                             'self._conv_approx': False,
                             "power['refl'] is None": False}, atoms)
        eb = r.call('update_ebal')
        ok = r.ret is not None and len(eb) == 1 and len(eb[0][1]) == 2 and \
            eb[0][1][1] is not None and eb[0][1][1].is_zero()
        if ok:
            m = Rat.sym('<%s>' % flow)
            D = (r.ret * m * cp - eb[0][1][0] / Rat.const(nnode)).subs(
                'S', Rat.sym('T') * Rat.const(2))
            ok = D.is_zero()
        ctx.require(ok, 'C01.R8', f, r.ret_node or f.node,
                    'adiabatic wall: increment x flow x cp = power share, '
                    'zero wall tally', key=f.full + ' | adiabatic')
    g = repo.func('region_unrodded',
                  'MultiNodeHomogeneous._calc_coolant_temp')
    sh = repo.func('region_unrodded', 'MultiNodeHomogeneous._setup_ht_consts')
    adj = None
    for t, st in U.stores(sh.node):
        if _s(t) == "self._cond['adj']" and isinstance(st.value, ast.Call):
            adj = U.literal_list(st.value.args[0])
    ok = adj is not None and len(adj) == 6 and all(
        sorted(adj[i]) == sorted([(i - 1) % 6, (i + 1) % 6])
        for i in range(6))
    ctx.require(ok, 'C01.R8', sh, sh.node,
                'six-node adjacency must be the closed ring (each node: its '
                'two neighbours; symmetric)', key=sh.full + ' | ring adjacency')
    from ..poly import from_ast
    init = repo.func('region_unrodded', 'MultiNodeHomogeneous.__init__')
    st = [x for t, x in U.stores(init.node) if _s(t) == 'self._scfr']
    ok = len(st) == 1 and isinstance(st[0], ast.Assign)
    if ok:
        v = from_ast(st[0].value, {'self.flow_rate': 'F', 'flow_rate': 'F'},
                     auto=True)
        ok = v.equals(Rat.sym('F') / Rat.const(6))
    lowfid_wall_flux(ctx, 'C01.R8')
    ctx.require(ok, 'C01.R8', init, st[0] if st else init.node,
                'node flow = total / 6',
                key='dassh.region_unrodded:MultiNodeHomogeneous | node flow')


def lowfid_wall_flux(ctx, rule):
    """Low-fidelity regions: the heat a coolant node receives from its wall
    is the inner-surface flux of the wall solution times the wall length --
    dz x (perimeter / 6) x htc x (T_surface - T) with the film branch, dz x
    (perimeter / 6) x (T_midwall - T) / (t / 2k + 1 / htc) with the convection
    approximation.  The convection factor is part of coolant_params['htc'],
    which the duct-wall solution uses as well: any further factor on the
    coolant side makes coolant and wall disagree about the heat exchanged."""
    from ..algeval import run_function
    from ..poly import Rat
    repo = ctx.repo
    S_ = Rat.sym
    dz, htc, per = S_('<dz>'), S_("<self.coolant_params['htc']>"), \
        S_('<self.duct_perim_over_6>')
    T = S_('T')
    ts, tm = S_("<self.temp['duct_surf'][0, 0]>"), \
        S_("<self.temp['duct_mw'][0]>")
    k, th = S_('<self.duct.thermal_conductivity>'), \
        S_('<self.duct_thickness>')
    n = 0
    for q in ('SingleNodeHomogeneous._calc_coolant_temp',
              'MultiNodeHomogeneous._calc_coolant_temp'):
        f = repo.func('region_unrodded', q)
        atoms = _coolant_atoms(f.node)
        for approx in (False, True):
            r = run_function(f, {'adiabatic': False, 'ebal': True,
                                 'self._conv_approx': approx,
                                 "power['refl'] is None": False}, atoms)
            eb = r.call('update_ebal')
            if len(eb) != 1 or len(eb[0][1]) != 2 or eb[0][1][1] is None:
                raise AnalysisError('%s: wall heat handed to update_ebal not '
                                    'found' % f.full)
            got = eb[0][1][1]
            if approx:
                want = dz * per * (tm - T) / (
                    th / Rat.const(2) / k + Rat.const(1) / htc)
            else:
                want = dz * per * htc * (ts - T)
            ratio = got / want
            n += 1
            ctx.require(
                got.equals(want), rule, f, eb[0][0] if hasattr(
                    eb[0][0], 'lineno') else f.node,
                'the wall heat a coolant node receives must be the inner-'
                'surface flux of the wall solution x wall length (%s); the '
                'update uses %s times that -- coolant and duct wall disagree '
                'about the heat exchanged whenever the factor is not 1'
                % ('dz x perim/6 x (T_mw - T)/(t/2k + 1/htc)' if approx
                   else 'dz x perim/6 x htc x (T_surf - T)',
                   str(ratio)[:80]),
                note='conv_approx=%s' % approx,
                key='%s | wall heat = wall flux | conv_approx=%s'
                % (f.full, approx))
    return n


def r10(ctx):
    """Assembly.region_bnd holds unmodified region bounds."""
    fi = ctx.repo.func('assembly', 'Assembly.__init__')
    apps = [c for c in ast.walk(fi.node) if isinstance(c, ast.Call)
            and call_name(c) == 'self.region_bnd.append' and c.args]
    if not apps:
        raise AnalysisError('Assembly.__init__: region_bnd.append vanished')

    def plain_bound(e):
        """0.0 or <region expr>.z[k] with no call / arithmetic around."""
        if isinstance(const(e), (int, float)):
            return True
        return isinstance(e, ast.Subscript) and isinstance(
            e.value, ast.Attribute) and e.value.attr == 'z' and not any(
                isinstance(x, (ast.Call, ast.BinOp)) for x in ast.walk(e))
    n = 0
    for c in apps:
        arg = c.args[0]
        vals = [arg]
        if isinstance(arg, ast.Name):
            vals = [a.value for a in U.assigns_of(fi.node, arg.id)
                    if isinstance(a, ast.Assign)]
            # comparisons that select the region whose lower bound it is
            for cmp_ in ast.walk(fi.node):
                if isinstance(cmp_, ast.Compare) and len(cmp_.ops) == 1 and \
                        any(isinstance(x, ast.Name) and x.id == arg.id
                            for x in [cmp_.left] + cmp_.comparators):
                    other = [x for x in [cmp_.left] + cmp_.comparators
                             if not (isinstance(x, ast.Name)
                                     and x.id == arg.id)]
                    vals += other
        for v in vals:
            n += 1
            ctx.require(plain_bound(v), 'C01.R10', fi, v,
                        'the region switching bounds must be the regions\' '
                        'own z values as given (got `%s`): a rounded or '
                        'shifted bound makes the assembly switch region on a '
                        'different plane than the power zones, and the step '
                        'in between deposits no heat' % _s(v),
                        key='%s | region bound %s' % (fi.full, _s(v)))
    if n < 3:
        raise AnalysisError('Assembly.__init__: region bound rule matched '
                            'only %d values' % n)
    ia = ctx.repo.func('assembly', 'Assembly._identify_active_region')
    ok = any(isinstance(c, ast.Call) and call_name(c) == 'bisect.bisect_left'
             and [_s(a) for a in c.args] == ['self.region_bnd',
                                             ia.params[1]]
             for c in ast.walk(ia.node))
    ctx.require(ok, 'C01.R10', ia, ia.node,
                'the active region is found by bisect_left of the plane in '
                'the unmodified bounds', key=ia.full + ' | bisect')
