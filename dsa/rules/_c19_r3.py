"""C19.R3 decided on values (called from rules/c19.py:r3).

(a) `_get_peak_dt(reactor, assembly type, location)`.  Clause: the row of
    every assembly of the requested type is [inlet, peak coolant] for the
    coolant location and [inlet] + columns 3 .. PIN_COL[K] of the radial
    profile stored with the nominal peak of the *requested* location K
    otherwise; the result holds the successive differences (outer minus inner)
    of each row, rows in the order of `reactor.assemblies`; a pin model is
    needed only for pin locations.

    Decision: the function (with its nested helpers and the module-level
    helpers it calls) is evaluated by the checker's own finite-domain
    evaluator on *model reactors* whose temperatures are pairwise distinct
    symbols (exact polynomials, dsa/poly.py): five assemblies of three types,
    every (type, location) pair, a reactor whose third type has no pin model
    and a reactor without any pin model (coolant only).  The returned array
    is compared cell by cell with the expected polynomial.  Loops, append
    chains, comprehensions, nested helper functions with early returns,
    renamed / inlined temporaries are all the same value.  Nothing of /repo is
    imported or executed.

(b) the wiring of `analyze`: symbolic expansion over the CFG (the reaching-
    definition expansion of C19.R8, rules/_f_c19.py) of the arguments of
    `calculate_temps` and `_read_hcf_table`, and a CFG condition for the crop.
"""
import ast
from fractions import Fraction

from ..core import AnalysisError, src, call_name, walk_no_nested
from .. import finite as F
from ..poly import Poly
from ._f_c19_2 import TableEval, Arr
from ._f_c19 import Flow, _plain, _bind

RULE = 'C19.R3'


def _s(n):
    return ' '.join(src(n).split())


# ---------------------------------------------------------------------------
# (a) model reactors

class Obj:
    """An object of the model: attribute look-ups only."""
    def __init__(self, kind, **fields):
        self.kind, self.fields = kind, fields

    def __repr__(self):
        return '<model %s>' % self.kind


class Closure:
    """A nested `def` with the environment it was written in (free variables
    are read at the call, as in the language)."""
    def __init__(self, node, env):
        self.node, self.env = node, env


def _is_num(v):
    return isinstance(v, (int, float, Fraction)) and not isinstance(v, bool)


def _poly(v):
    if isinstance(v, Poly):
        return v
    if _is_num(v):
        return Poly.const(Fraction(v))
    return None


class PeakEval(TableEval):
    """TableEval + model objects, nested functions, arithmetic on symbolic
    temperatures (exact polynomials) and element-wise array arithmetic with
    NumPy broadcasting."""

    def __init__(self, defs, literals):
        TableEval.__init__(self, defs, '', literals)

    @staticmethod
    def truth(v):
        if isinstance(v, Poly) or isinstance(v, Arr):
            raise F.Unsupported('decision depends on a temperature of the '
                                'model')
        return F.Evaluator.truth(v)

    def ev(self, n, env):
        if isinstance(n, ast.Attribute):
            base = self.ev(n.value, env)
            if isinstance(base, Obj):
                if n.attr not in base.fields:
                    raise F.Unsupported('attribute %s of the model %s'
                                        % (n.attr, base.kind))
                return base.fields[n.attr]
        if isinstance(n, (ast.List, ast.Tuple)) and any(
                isinstance(e, ast.Starred) for e in n.elts):
            out = []
            for e in n.elts:
                if isinstance(e, ast.Starred):
                    v = self.ev(e.value, env)
                    if v is F.OPAQUE or not isinstance(v, (list, tuple)):
                        raise F.Unsupported('unpacking of %s'
                                            % ast.unparse(e.value))
                    out.extend(v)
                else:
                    out.append(self.ev(e, env))
            return tuple(out) if isinstance(n, ast.Tuple) else out
        if isinstance(n, ast.UnaryOp) and isinstance(n.op, (ast.USub,
                                                            ast.UAdd)):
            v = self.ev(n.operand, env)
            if isinstance(v, (Poly, Arr)):
                if isinstance(n.op, ast.UAdd):
                    return v
                return self._binop(ast.BinOp(left=n.operand, op=ast.Sub(),
                                             right=n.operand), 0, v, env)
        return TableEval.ev(self, n, env)

    def _index(self, n, seq, k):
        if seq is F.OPAQUE or not isinstance(seq, (list, tuple, str)):
            raise F.Unsupported('index into %r: %s' % (seq, ast.unparse(n)))
        return TableEval._index(self, n, seq, k)

    # -- arithmetic ----------------------------------------------------------
    def _num_op(self, n, a, b):
        if a is F.OPAQUE or b is F.OPAQUE:
            return F.OPAQUE
        pa, pb = _poly(a), _poly(b)
        if pa is None or pb is None:
            raise F.Unsupported('arithmetic on %r and %r: %s'
                                % (a, b, ast.unparse(n)))
        op = n.op
        if isinstance(op, ast.Add):
            return pa + pb
        if isinstance(op, ast.Sub):
            return pa - pb
        if isinstance(op, ast.Mult):
            return pa * pb
        if isinstance(op, ast.Div) and _is_num(b):
            if b == 0:
                raise F.Raised(n)
            return pa * Poly.const(1 / Fraction(b))
        if isinstance(op, ast.Pow) and isinstance(b, int) and \
                not isinstance(b, bool) and 0 <= b <= 4:
            return pa ** b
        raise F.Unsupported('arithmetic %s' % ast.unparse(n))

    def _arr_op(self, n, a, b):
        def rank(v):
            r = 0
            while isinstance(v, (list, tuple)):
                if not v:
                    raise F.Unsupported('empty array in %s' % ast.unparse(n))
                r, v = r + 1, v[0]
            return r

        def bro(x, y):
            lx, ly = isinstance(x, (list, tuple)), isinstance(y, (list, tuple))
            if lx and ly:
                if len(x) == len(y):
                    return Arr(bro(p, q) for p, q in zip(x, y))
                if len(x) == 1:
                    return Arr(bro(x[0], q) for q in y)
                if len(y) == 1:
                    return Arr(bro(p, y[0]) for p in x)
                raise F.Raised(n)       # shapes cannot be broadcast
            if lx:
                return Arr(bro(p, y) for p in x)
            if ly:
                return Arr(bro(x, q) for q in y)
            return self._num_op(n, x, y)
        ra, rb = rank(a), rank(b)
        for _ in range(rb - ra):
            a = [a]
        for _ in range(ra - rb):
            b = [b]
        return bro(a, b)

    def _binop(self, n, a, b, env):
        if isinstance(a, Arr) or isinstance(b, Arr):
            if a is F.OPAQUE or b is F.OPAQUE:
                return F.OPAQUE
            return self._arr_op(n, a, b)
        if isinstance(a, Poly) or isinstance(b, Poly):
            return self._num_op(n, a, b)
        return TableEval._binop(self, n, a, b, env)

    # -- calls ---------------------------------------------------------------
    def call(self, n, env):
        f = n.func
        if isinstance(f, ast.Name) and isinstance(env.get(f.id), Closure):
            return self._call_closure(env[f.id], n, env)
        fname = ast.unparse(f)
        if fname in ('float', 'np.float64', 'numpy.float64') and \
                len(n.args) == 1 and not n.keywords:
            v = self.ev(n.args[0], env)
            if isinstance(v, Poly):
                return v
        if fname in ('np.diff', 'numpy.diff') and n.args:
            return self._np_diff(n, env)
        if fname in ('np.subtract', 'numpy.subtract') and len(n.args) == 2 \
                and not n.keywords:
            return self._binop(ast.BinOp(left=n.args[0], op=ast.Sub(),
                                         right=n.args[1]),
                               self.ev(n.args[0], env),
                               self.ev(n.args[1], env), env)
        return TableEval.call(self, n, env)

    def _np_diff(self, n, env):
        x = self.ev(n.args[0], env)
        order = self.ev(n.args[1], env) if len(n.args) > 1 else 1
        axis = self.ev(n.args[2], env) if len(n.args) > 2 else -1
        for k in n.keywords:
            if k.arg == 'n':
                order = self.ev(k.value, env)
            elif k.arg == 'axis':
                axis = self.ev(k.value, env)
            else:
                raise F.Unsupported(ast.unparse(n))
        if x is F.OPAQUE or not isinstance(x, Arr) or order != 1:
            raise F.Unsupported('np.diff: %s' % ast.unparse(n))
        shape = self._shape(x)
        if axis not in (-1, len(shape) - 1):
            raise F.Unsupported('np.diff along axis %r' % (axis,))
        sub = ast.BinOp(left=n.args[0], op=ast.Sub(), right=n.args[0])

        def d1(row):
            return Arr(self._num_op(sub, q, p) for p, q in zip(row, row[1:]))
        return d1(x) if len(shape) == 1 else Arr(d1(r) for r in x)

    def _call_closure(self, clo, n, env):
        a = clo.node.args
        if a.vararg or a.kwarg or a.kwonlyargs or a.posonlyargs or any(
                isinstance(x, ast.Starred) for x in n.args) or any(
                    k.arg is None for k in n.keywords):
            raise F.Unsupported('signature / call of the nested function %s'
                                % clo.node.name)
        params = [x.arg for x in a.args]
        args = [self.ev(x, env) for x in n.args]
        if len(args) > len(params):
            raise F.Unsupported('too many arguments for %s' % clo.node.name)
        e2 = dict(clo.env)
        for p in params:
            e2.pop(p, None)
        bound = dict(zip(params, args))
        for k in n.keywords:
            if k.arg not in params or k.arg in bound:
                raise F.Unsupported('keyword %s of %s' % (k.arg,
                                                          clo.node.name))
            bound[k.arg] = self.ev(k.value, env)
        for p, d in zip(params[len(params) - len(a.defaults):], a.defaults):
            if p not in bound:
                bound[p] = self.ev(d, clo.env)
        if set(params) - set(bound):
            raise F.Unsupported('missing arguments for %s' % clo.node.name)
        e2.update(bound)
        self.fns.append(clo.node)
        depth = len(self.stmts)
        try:
            self.run_block(clo.node.body, e2)
        except F._Return as r:
            return r.value
        finally:
            self.fns.pop()
            del self.stmts[depth:]
        return None

    # -- statements ----------------------------------------------------------
    def run(self, st, env):
        if isinstance(st, ast.FunctionDef):
            if st.decorator_list:
                raise F.Unsupported('decorated nested function %s' % st.name)
            for x in ast.walk(st):
                if isinstance(x, (ast.Nonlocal, ast.Global, ast.Yield,
                                  ast.YieldFrom)):
                    raise F.Unsupported('nested function %s: %s' % (
                        st.name, type(x).__name__))
            env[st.name] = Closure(st, env)
            return
        TableEval.run(self, st, env)


PROFILE_WIDTH = 9       # columns of a pin_temps row (C15.R3 / C19.R1)


class Reactor:
    """A model reactor: assemblies (type name, has a pin model)."""

    def __init__(self, label, asms, pin_col):
        self.label, self.asms, self.pin_col = label, asms, pin_col
        self.T_in = Poly.sym('T_in')
        self.cool, self.prof = [], []
        objs = []
        for i, (name, pin) in enumerate(asms):
            c = Poly.sym('cool%d' % i)
            peak = {'cool': (c, Poly.sym('z%d' % i)),
                    'duct': [(Poly.sym('duct%d' % i), Poly.sym('zd%d' % i))]}
            prof = {}
            if pin:
                peak['pin'] = {}
                for k, col in pin_col.items():
                    prof[k] = [Poly.sym('pin%d.%s[%d]' % (i, k, j))
                               for j in range(PROFILE_WIDTH)]
                    peak['pin'][k] = [Poly.sym('max%d.%s' % (i, k)), col,
                                      list(prof[k])]
            self.cool.append(c)
            self.prof.append(prof)
            objs.append(Obj('assembly', name=name, id=10 + i, _peak=peak))
        self.obj = Obj('reactor', inlet_temp=self.T_in, assemblies=objs)

    def expected(self, name, loc):
        rows = []
        for i, (nm, pin) in enumerate(self.asms):
            if nm != name:
                continue
            if loc == 'coolant':
                t = [self.T_in, self.cool[i]]
            else:
                t = [self.T_in] + self.prof[i][loc][3:self.pin_col[loc] + 1]
            rows.append([b - a for a, b in zip(t, t[1:])])
        return rows


def _scenarios(pin_col):
    locs = ['coolant'] + list(pin_col)
    full = Reactor('five assemblies of three types, all with a pin model',
                   [('x', True), ('y', True), ('x', True), ('z', True),
                    ('y', True)], pin_col)
    part = Reactor('five assemblies of three types, type z without a pin '
                   'model', [('x', True), ('y', True), ('x', True),
                             ('z', False), ('y', True)], pin_col)
    bare = Reactor('assemblies without a pin model',
                   [('x', False), ('y', False), ('x', False)], pin_col)
    out = []
    for nm in ('x', 'y', 'z'):
        for loc in locs:
            out.append((full, nm, loc, 'value'))
    for nm in ('x', 'y'):
        for loc in locs:
            out.append((part, nm, loc, 'value'))
    out.append((part, 'z', 'coolant', 'nopin'))
    for nm in ('x', 'y'):
        out.append((bare, nm, 'coolant', 'nopin'))
    return out


def _cells(v):
    """2-D list of polynomials, or a description of what it is instead."""
    if v is F.OPAQUE or not isinstance(v, list):
        return None, 'is not an array (%r)' % (v,)
    rows = []
    for r in v:
        if not isinstance(r, list):
            return None, 'is not a two-dimensional array (%r)' % (v,)
        row = []
        for c in r:
            if c is F.OPAQUE:
                return None, 'contains a quantity that is not built from ' \
                    'the temperatures of the model by + - * (row %r)' % (r,)
            p = _poly(c)
            if p is None:
                return None, 'holds %r' % (c,)
            row.append(p)
        rows.append(row)
    return rows, None


def peak_rises(ctx, gp, pin_col):
    mod = gp.mod
    defs = {f.name: f.node for f in mod.funcs.values()
            if f.cls is None and f.outer is None}
    literals, _ = F.module_literals(mod.tree)
    a = gp.node.args
    if len(gp.params) != 3 or a.vararg or a.kwarg or a.kwonlyargs:
        raise AnalysisError('%s: %s no longer takes (reactor, assembly type, '
                            'location)' % (RULE, gp.full))
    ret_default = gp.node.body[-1]
    bad = {}        # clause -> (node, text)   first (smallest) scenario
    n_run = 0
    for rx, name, loc, kind in _scenarios(pin_col):
        what = 'for %s, type %r, location %r' % (rx.label, name, loc)
        ev = PeakEval(defs, literals)
        try:
            k, val, node = ev.call_function(gp.node, [rx.obj, name, loc])
        except F.Unsupported as e:
            raise AnalysisError('%s: %s cannot be evaluated on the model '
                                'reactor (%s): %s' % (RULE, gp.full, what, e))
        except F.Raised as e:
            k, val, node = 'raise', None, e.node
        except (F._Break, F._Continue):
            raise AnalysisError('%s: stray break/continue in %s'
                                % (RULE, gp.full))
        n_run += 1
        site = node if isinstance(node, ast.AST) and hasattr(
            node, 'lineno') else ret_default
        if k == 'raise':
            if kind == 'nopin':
                bad.setdefault('assert', (site, what))
            else:
                bad.setdefault('temps', (
                    site, '%s the evaluation ends in an exception at `%s`'
                    % (what, _s(node)[:80])))
            continue
        want = rx.expected(name, loc)
        got, why = _cells(val)
        if got is None:
            bad.setdefault('temps', (site, '%s the result %s' % (what, why)))
            continue
        if [len(r) for r in got] != [len(r) for r in want]:
            bad.setdefault('temps', (
                site, '%s the result has rows of %s rises, expected %s (one '
                'row per assembly of the type, one rise per temperature '
                'after the inlet)' % (what, [len(r) for r in got],
                                      [len(r) for r in want])))
            continue
        for i, (rg, rw) in enumerate(zip(got, want)):
            for j, (g, w) in enumerate(zip(rg, rw)):
                if g == w:
                    continue
                if g.symbols() != w.symbols():
                    bad.setdefault('temps', (
                        site, '%s rise %d of row %d is built from %s, '
                        'expected %s' % (what, j, i,
                                         sorted(g.symbols()) or g,
                                         sorted(w.symbols()))))
                else:
                    bad.setdefault('diff', (
                        site, '%s rise %d of row %d is %r, expected %r'
                        % (what, j, i, g, w)))
    note = '%d model evaluations' % n_run
    t = bad.get('temps')
    ctx.require(t is None, RULE, gp, t[0] if t else ret_default,
                'temperatures = [inlet] + peak coolant, or [inlet] + the '
                'profile stored with the peak of the requested key '
                '(columns 3 .. idx)' + (': ' + t[1] if t else ''),
                note=note, key=gp.full + ' | temperatures')
    d = bad.get('diff')
    if t is None or d is not None:
        ctx.require(d is None, RULE, gp, d[0] if d else ret_default,
                    'rises are successive differences (outer minus inner)'
                    + (': ' + d[1] if d else ''), note=note,
                    key=gp.full + ' | differences')
    s = bad.get('assert')
    ctx.require(s is None, RULE, gp, s[0] if s else ret_default,
                'a pin model is asserted even for the coolant '
                'hot-spot calculation, which _setup_postprocess '
                'allows without one: the run ends in AssertionError'
                + (' (%s)' % s[1] if s else ''), note=note,
                key=gp.full + ' | pin assert only for pin locations')
    ctx.trusted.append(
        'C19.R3: model reactors (Assembly.name / .id / ._peak with the '
        'layout written by Assembly.__init__ and _update_peak_*; '
        'Reactor.inlet_temp / .assemblies) and the NumPy models (np.array, '
        '2-D slicing, element-wise arithmetic with broadcasting, np.diff) '
        'in dsa/rules/_c19_r3.py and _f_c19_2.py')


# ---------------------------------------------------------------------------
# (b) wiring of analyze

def _full(x):
    return (isinstance(x, ast.Slice) and x.lower is None and x.upper is None
            and x.step is None)


def _crop_bound(sl):
    """U of a slice `[:, :, :U]` / `[..., :U]` else None."""
    if not isinstance(sl, ast.Tuple):
        return None
    e = sl.elts
    if len(e) == 3 and _full(e[0]) and _full(e[1]):
        last = e[2]
    elif len(e) == 2 and isinstance(e[0], ast.Constant) and \
            e[0].value is Ellipsis:
        last = e[1]
    else:
        return None
    if isinstance(last, ast.Slice) and last.lower is None and \
            last.step is None and last.upper is not None:
        return last.upper
    return None


def _rise_count_of(bound):
    """R of `R.shape[1]` else None."""
    if isinstance(bound, ast.Subscript) and isinstance(
            bound.value, ast.Attribute) and bound.value.attr == 'shape' \
            and isinstance(bound.slice, ast.Constant) and \
            bound.slice.value == 1 and not isinstance(bound.slice.value,
                                                      bool):
        return bound.value.value
    return None


def _items_call(it):
    return isinstance(it, ast.Call) and isinstance(it.func, ast.Attribute) \
        and it.func.attr == 'items' and not it.args and not it.keywords


def _keys_of(it):
    """X of an iterable `X` / `X.keys()`."""
    if isinstance(it, ast.Call) and isinstance(it.func, ast.Attribute) and \
            it.func.attr == 'keys' and not it.args and not it.keywords:
        return it.func.value
    return it


def _crop_of_entry(key, value, target, it):
    """The crop bound U when (key -> value) over `for target in it` maps every
    entry of the iterated dictionary to `entry[:, :, :U]`; -> (U, dict)."""
    if isinstance(target, ast.Tuple) and len(target.elts) == 2 and all(
            isinstance(e, ast.Name) for e in target.elts) and \
            _items_call(it):
        kn, vn = target.elts[0].id, target.elts[1].id
        if kn != vn and isinstance(key, ast.Name) and key.id == kn and \
                isinstance(value, ast.Subscript) and isinstance(
                    value.value, ast.Name) and value.value.id == vn:
            return _crop_bound(value.slice), it.func.value
        return None, None
    if isinstance(target, ast.Name) and not _items_call(it):
        base = _keys_of(it)
        if isinstance(key, ast.Name) and key.id == target.id and \
                isinstance(value, ast.Subscript) and isinstance(
                    value.value, ast.Subscript) and isinstance(
                        value.value.slice, ast.Name) and \
                value.value.slice.id == target.id and \
                _s(value.value.value) == _s(base):
            return _crop_bound(value.slice), base
    return None, None


def _reads_name(e, names):
    return any(isinstance(x, ast.Name) and x.id in names for x in ast.walk(e))


def _cropped(flow, call, node, hcf, rises):
    """The dictionary handed to calculate_temps has every entry cropped to the
    rise count of the rises handed to the same call.  -> (ok, why)"""
    # (i) a fresh dictionary {t: v[:, :, :R.shape[1]] for t, v in S.items()}
    alts = flow.resolve(hcf, node)
    if alts and all(isinstance(v.expr, ast.DictComp) for v in alts):
        for v in alts:
            dc = v.expr
            g = dc.generators[0]
            if len(dc.generators) != 1 or g.ifs or g.is_async:
                return False, 'filtered crop'
            bound, _d = _crop_of_entry(dc.key, dc.value, g.target, g.iter)
            r = _rise_count_of(bound) if bound is not None else None
            if r is None or _s(r) not in rises:
                return False, 'the entries are not `entry[:, :, :%s.shape[1]]`' \
                    % '/'.join(sorted(_plain(x) for x in rises))
        return True, ''
    # (ii) in place: for t in S: S[t] = S[t][:, :, :R.shape[1]] after the last
    # binding of S, on every path to the call
    if not isinstance(hcf, ast.Name):
        return False, 'the subfactors are not a cropped dictionary'
    S = hcf.id
    defs = flow.reaching(S, node)
    if not defs or any(d is None or carried for d, carried in defs):
        return False, '`%s` is not bound in the pass of the call' % S
    g = flow.g
    for lp in walk_no_nested(flow.fi.node):
        if not isinstance(lp, ast.For) or lp.orelse or len(lp.body) != 1:
            continue
        st = lp.body[0]
        if not (isinstance(st, ast.Assign) and len(st.targets) == 1 and
                isinstance(st.targets[0], ast.Subscript)):
            continue
        tg = st.targets[0]
        bound, d = _crop_of_entry(tg.slice, st.value, lp.target, lp.iter)
        if bound is None or not (isinstance(d, ast.Name) and d.id == S
                                 and isinstance(tg.value, ast.Name)
                                 and tg.value.id == S):
            continue
        r = _rise_count_of(bound)
        if r is None:
            continue
        rv = flow.resolve(r, flow.node_of(st))
        if not rv or any(x.text not in rises for x in rv):
            continue
        H = g.node_of(lp)
        if H is None:
            continue
        if all(not g.path_exists(dn, node, avoid=[H]) for dn, _ in defs) \
                and g.path_exists(H, node):
            return True, ''
    return False, 'no crop `%s[t] = %s[t][:, :, :%s.shape[1]]` lies on every ' \
        'path from the binding of `%s` to the call' % (
            S, S, '/'.join(sorted(_plain(x) for x in rises)), S)


def _keyed(e, word):
    """B of `B['word']` else None."""
    if isinstance(e, ast.Subscript) and isinstance(e.slice, ast.Constant) \
            and e.slice.value == word:
        return e.value
    return None


def wiring(ctx, an, calc):
    flow = Flow(an)
    cp = calc.params
    if len(cp) < 5 or not an.params:
        raise AnalysisError('hotspot: signature of calculate_temps / analyze '
                            'changed')
    reactor = '%s@p' % an.params[0]
    calls = [c for c in walk_no_nested(an.node) if isinstance(c, ast.Call)
             and call_name(c) == calc.name]
    why = '' if calls else 'no call of calculate_temps'
    bases = {}          # text of options[A][K] -> text of K
    first = calls[0] if calls else an.node
    for c in calls:
        if why:
            break
        node = flow.node_of(c)
        b = _bind(c, cp)
        if b is None or any(p not in b for p in cp[:5]):
            why, first = 'the five arguments are not all passed explicitly', c
            break
        tin = flow.resolve(b[cp[0]], node)
        if not tin or any(v.text != reactor + '.inlet_temp' for v in tin):
            why, first = 'T_in is not %s.inlet_temp' % an.params[0], c
            break
        rises = {v.text for v in flow.resolve(b[cp[1]], node)}
        base = set()
        for p, word in ((cp[3], 'input_sigma'), (cp[4], 'output_sigma')):
            for v in flow.resolve(b[p], node):
                bb = _keyed(v.expr, word)
                if bb is None:
                    why = '%s is %s, not <options of the location>[%r]' % (
                        p, _plain(v.text), word)
                    break
                base.add(_s(bb))
                K = _s(bb.slice) if isinstance(bb, ast.Subscript) and \
                    not isinstance(bb.slice, (ast.Slice, ast.Tuple)) else ''
                if '@L' not in K:
                    # (a loop variable of analyze: tagged by its binder)
                    why = 'the options %s are not selected by the location ' \
                        'of the pass' % _plain(_s(bb))
                    break
                bases[_s(bb)] = K
            if why:
                break
        if not why and len(base) != 1:
            why = 'input and output sigma are read from different options'
        if not why:
            ok, w = _cropped(flow, c, node, b[cp[2]], rises)
            if not ok:
                why = w
        if why:
            first = c
    ctx.require(not why, RULE, an, first,
                'analysis must use the rises of the same key, crop the '
                'subfactors to the rise count and pass the input/output '
                'sigma in their own slots' + (': ' + why if why else ''),
                key=an.full + ' | wiring')
    # the subfactor table of the same options, read with the column count of
    # the same location
    reads = [c for c in walk_no_nested(an.node) if isinstance(c, ast.Call)
             and call_name(c) == '_read_hcf_table']
    rwhy = '' if reads else 'no call of _read_hcf_table'
    rfirst = reads[0] if reads else an.node
    for c in reads:
        node = flow.node_of(c)
        if len(c.args) < 2 or c.keywords or any(
                isinstance(x, ast.Starred) for x in c.args):
            rwhy, rfirst = 'path and column count are not both passed', c
            break
        for v in flow.resolve(c.args[0], node):
            bb = _keyed(v.expr, 'subfactors')
            if bb is None or (bases and _s(bb) not in bases):
                rwhy = 'the table path is %s, not <options of the ' \
                    'location>[\'subfactors\']' % _plain(v.text)
                break
            K = bases.get(_s(bb)) or (_s(bb.slice) if isinstance(
                bb, ast.Subscript) and '@L' in _s(bb.slice) else None)
            for w in flow.resolve(c.args[1], node):
                if K is None or w.text != '_COLS_NEEDED[%s]' % K:
                    rwhy = 'the column count is %s for the options %s' % (
                        _plain(w.text), _plain(_s(bb)))
                    break
            if rwhy:
                break
        if rwhy:
            rfirst = c
            break
    ctx.require(not rwhy, RULE, an, rfirst,
                'subfactor table read with the column count of the same key'
                + (': ' + rwhy if rwhy else ''),
                key=an.full + ' | table of key')
