"""C18 -- impossible inputs are rejected before any calculation."""
import ast

from ..core import (AnalysisError, access_path, const, find_all, match, short,
                    src, walk_no_nested, parent, call_name, ancestors)
from ..cfg import cfg_of
from .. import util as U
from .. import schema as S
from .. import inputpaths as IP
from .. import dataflow

LEVELS = {'debug', 'info', 'info_file', 'warning', 'error', 'critical'}

# R1d: module-level error logs that deliberately continue (one line each)
MODULE_ERROR_CONTINUES = {
    ('dassh.power', '_check_asm_indexing'):
        'auto-corrects base-0 assembly ids and logs at level 40 on purpose',
}

# R2: check_* methods of DASSH_Input not wired into __init__ (reason each)
UNWIRED_OK = {
    'check_bypass_pressure_drop_params': 'stub without any check (loop body '
                                         'is a bare continue)',
    'check_plot_input': 'plot inputs are validated by DASSHPlot_Input.'
                        '__init__ -> _load -> check_dasshplot_input',
}

# R2b: input keys that must influence a rejection (error) decision in the
# named guard function; from the impossible-input classes the property names
REQUIRED_GUARD_KEYS = {
    'DASSH_Input.check_pin': {
        'pin_pitch', 'pin_diameter', 'clad_thickness', 'wire_diameter',
        'num_rings', 'duct_ftf'},
    'DASSH_Input.check_duct': {'duct_ftf', 'assembly_pitch'},
    'DASSH_Input.check_unrodded_regions': {
        'z_lo', 'z_hi', 'hydraulic_diameter', 'epsilon', 'length',
        'convection_factor'},
    'DASSH_Input.check_core_specifications': {'length', 'assembly_pitch',
                                              'gap_model'},
    'DASSH_Input.check_assignment_boundary_conditions': {'ByPosition'},
    'DASSH_Input.check_spacergrid': {'axial_positions', 'corr_coeff',
                                     'pin_pitch', 'pin_diameter'},
    'DASSH_Input.check_correlations': {'corr_mixing', 'corr_friction',
                                       'corr_flowsplit'},
    'DASSH_Input.check_axial_plane_req': {'axial_plane'},
    'DASSH_Input.check_fuel_model': {'clad_material', 'gap_material'},
    'DASSH_Input.check_pin_model': {'clad_material', 'pin_material'},
    'DASSH_Input.check_orificing': {'bulk_coolant_temp', 'value_to_optimize',
                                    'assemblies_to_group'},
}

# R2c: relations between keys that one single rejection decision must
# examine together (one line per impossible-input class of the property)
REQUIRED_GUARD_RELATIONS = {
    'DASSH_Input.check_pin': [
        {'pin_pitch', 'pin_diameter'},                 # pitch < diameter
        {'pin_diameter', 'clad_thickness'},            # clad > radius
        {'wire_diameter', 'pin_pitch', 'pin_diameter'},  # wire > pin gap
        {'duct_ftf', 'num_rings', 'pin_pitch', 'pin_diameter',
         'wire_diameter'},                             # pins fit in duct
    ],
    'DASSH_Input.check_duct': [
        {'duct_ftf', 'assembly_pitch'},                # duct >= pitch
    ],
    'DASSH_Input.check_unrodded_regions': [
        {'z_lo', 'z_hi'},                              # inverted / overlap
    ],
}

# keys a relation's decision may additionally depend on (with the reason)
RELATION_MAY_ALSO_DEPEND_ON = {
    # the bundle-fits-in-duct test needs the pin lattice, which a
    # low-fidelity assembly does not build
    ('DASSH_Input.check_pin', frozenset(
        {'duct_ftf', 'num_rings', 'pin_pitch', 'pin_diameter',
         'wire_diameter'})): {'use_low_fidelity_model'},
}

# R3: definite-assignment reports that are infeasible paths (one line each)
DA_INFEASIBLE = {
    ('dassh.__main__:run_dassh', 'workers'):
        'check_parallel() clears Setup/parallel when there is one time point',
    ('dassh.__main__:run_dassh', 'pool'): 'same as workers',
    ('dassh.mesh_functions:interpolate_quad', 'idx'):
        'deliberate try/except UnboundLocalError recompute idiom',
    ('dassh.orificing:Orificing.run_parametric', 'data'):
        'flag `found`: the early return covers the found branch',
    ('dassh.orificing:Orificing.run_dassh_perfect', 'results'):
        'flag `found` is False exactly when results is unassigned',
    ('dassh.orificing:Orificing.run_dassh_orifice', 'results'):
        'flag `found` is False exactly when results is unassigned',
    ('dassh.read_input:DASSH_Input.check_assignment_boundary_conditions',
     'bc'): 'nkwarg == 0 terminates in log(error) before the use',
    ('dassh.power:_from_file', 'dim3'):
        'assembly ids are taken from the rows themselves, so at least one '
        'component block is non-empty',
    ('dassh.core:Core._calculate_gap_xpts', 'adj'):
        'dead code: the method has no call site in the package',
    ('dassh.reactor:match_rodded_finemesh_bnds_dif3d', 'ck_rod_bnds'):
        "check_unrodded_regions always creates AxialRegion['rods']",
}
DA_SCOPE = ('dassh.read_input', 'dassh.reactor', 'dassh.power',
            'dassh.hotspot', 'dassh.orificing', 'dassh.__main__',
            'dassh.assembly', 'dassh.core', 'dassh.region_rodded',
            'dassh.region_unrodded', 'dassh.region', 'dassh.material',
            'dassh.pin_model', 'dassh.subchannel', 'dassh.pin',
            'dassh.mesh_functions', 'dassh.utils', 'dassh.table',
            'dassh.logged_class')


def run(ctx):
    ctx.decided += [
        'R1 LoggedClass.log exits on error/critical; every X.log call has a '
        'literal accepted level and a message; every module-level error log '
        'is followed by exit/raise on all paths',
        'R2 every check_* of DASSH_Input is reachable from __init__; the '
        'power-file checks are wired into _from_file; the input keys of each '
        'impossible-input class still influence an error decision',
        'R3 no local is read on a path where it is unassigned (all functions '
        'of the solver modules)',
        'R4 every constant key read from the parsed input exists in the '
        'schema at that depth or is created by read_input; every option() '
        'list agrees with the dispatch that consumes it']
    ctx.decided += [
        'R5 (sign domain) the axial-region consistency predicate counts a '
        'mismatch between consecutive regions whether it is a gap (positive) '
        'or an overlap (negative): its filter is evaluated on the sign '
        'representatives -1, 0, +1 and must select exactly the non-zero ones; '
        'the caller turns a failed predicate into an error']
    ctx.decided += [
        'R6 (= C05.R1) a step request the reader accepts cannot hang the '
        'set-up: a terminating guard rejects a non-positive step after the '
        'last store of req_dz on every path']
    ctx.not_decided += [
        'that each numeric guard rejects every member of its class',
        'that all accepted inputs sweep without exception']
    r1(ctx)
    r2(ctx)
    r3(ctx)
    r4(ctx)
    r5(ctx)
    ctx.min_instances('C18.R5', 3)
    # an accepted input must not hang the mesh construction: termination
    # rules of the mesh builder (shared with C05.R1)
    from . import c05
    c05.r1(ctx.alias({'C05.R1': 'C18.R6'}))
    ctx.min_instances('C18.R6', 6)
    ctx.min_instances('C18.R1', 230)
    ctx.min_instances('C18.R2', 40)
    ctx.min_instances('C18.R3', 400)
    ctx.min_instances('C18.R4', 150)
    ctx.trusted.append('exception tables MODULE_ERROR_CONTINUES, UNWIRED_OK, '
                       'DA_INFEASIBLE and REQUIRED_GUARD_KEYS in '
                       'dsa/rules/c18.py')


# ---------------------------------------------------------------------------

def _is_logged_class(repo, ci):
    return any(c.name == 'LoggedClass' for c in repo.mro(ci))


def r1(ctx):
    repo = ctx.repo
    # (a) LoggedClass.log
    lg = repo.func('logged_class', 'LoggedClass.log')
    exits = [c for c in ast.walk(lg.node) if isinstance(c, ast.Call)
             and call_name(c) in ('sys.exit', 'exit')]
    raises = [n for n in ast.walk(lg.node) if isinstance(n, ast.Raise)]
    lvl = lg.params[1]
    ok = False
    for e in exits + raises:
        gs = U.guards(e)
        good = bool(gs)
        for test, pol in gs:
            cp = U.compare_parts(test)
            lst = U.literal_list(cp[2]) if cp else None
            nm = src(cp[0]) if cp else ''
            derived = nm == lvl or (
                isinstance(cp[0], ast.Name) and lvl in src(
                    U.single_def(lg.node, nm) or ast.Constant(value=0))) \
                if cp else False
            if not (cp and cp[1] is ast.In and pol and derived and lst and
                    {'error', 'critical'} <= set(lst)):
                good = False
        # exit must come after the message is emitted
        if good:
            emit = [c for c in ast.walk(lg.node) if isinstance(c, ast.Call)
                    and isinstance(c.func, ast.Name) and c.func.id == 'func']
            good = any(c.lineno < e.lineno for c in emit)
            if isinstance(e, ast.Call) and e.args and const(e.args[0]) == 0:
                good = False
        ok = ok or good
    ctx.require(ok, 'C18.R1', lg, exits[0] if exits else lg.node,
                'LoggedClass.log must terminate (sys.exit / raise) after '
                'emitting a message of level error or critical',
                key=lg.full + ' | exit on error')
    # (b) call discipline
    for fi in repo.all_funcs():
        for c in walk_no_nested(fi.node):
            if not (isinstance(c, ast.Call) and isinstance(c.func,
                                                           ast.Attribute)
                    and c.func.attr == 'log'):
                continue
            recv = src(c.func.value)
            if recv in ('np', 'numpy', 'math'):
                continue
            first = c.args[0] if c.args else None
            fc = const(first) if first is not None else None
            is_self_logged = recv == 'self' and fi.cls is not None and \
                _is_logged_class(repo, fi.cls)
            if isinstance(fc, int) and not isinstance(fc, bool):
                continue     # logging.Logger.log(level:int, msg) -- see (d)
            if not is_self_logged and not isinstance(fc, str):
                if 'logger' in recv.lower():
                    continue
                # unknown receiver with non-literal level: only LoggedClass
                # instances are in scope
                continue
            nargs = len(c.args) + sum(1 for k in c.keywords
                                      if k.arg == 'message')
            ok = isinstance(fc, str) and fc.lower() in LEVELS and nargs >= 2
            ctx.require(ok, 'C18.R1', fi, c,
                        'LoggedClass.log(level, message) called with %s: '
                        'raises %s instead of reporting the error'
                        % ('a missing message' if isinstance(fc, str)
                           else 'a message in the level slot',
                           'TypeError' if nargs < 2 else 'ValueError'),
                        key='%s | %s' % (fi.full, src(c)[:80]))
    # (c) truncated messages: `msg = '...'` followed by `+ '...'` statements
    for fi in repo.all_funcs():
        for st in walk_no_nested(fi.node):
            if isinstance(st, ast.Expr) and isinstance(st.value, ast.UnaryOp) \
                    and isinstance(st.value.op, ast.UAdd) and \
                    isinstance(st.value.operand, (ast.Constant,
                                                  ast.JoinedStr)):
                ctx.violation(
                    'C18.R1', fi, st, 'statement applies unary + to a string '
                    '(a message continuation line without parentheses): '
                    'raises TypeError on the path that should report an '
                    'input error', key='%s | unary plus on str %s'
                    % (fi.full, src(st)[:50]))
    # (d) module-level error logs
    for fi in repo.all_funcs():
        g = None
        for c in walk_no_nested(fi.node):
            if not isinstance(c, ast.Call):
                continue
            nm = call_name(c) or ''
            is_err = False
            if nm.endswith('logger.error') or nm.endswith('logger.critical'):
                is_err = True
            elif nm.endswith('logger.log') and c.args and \
                    isinstance(const(c.args[0]), int) and \
                    const(c.args[0]) >= 40:
                is_err = True
            if not is_err or fi.mod.name.startswith('dassh.plot'):
                continue
            g = g or cfg_of(fi)
            n = g.node_containing(c)
            falls = n is not None and g.path_exists(n, g.exit)
            if (fi.mod.name, fi.qual) in MODULE_ERROR_CONTINUES:
                ctx.ok('C18.R1', fi, c, 'frozen exception: '
                       + MODULE_ERROR_CONTINUES[(fi.mod.name, fi.qual)])
                continue
            ctx.require(not falls, 'C18.R1', fi, c,
                        'an error is logged but execution continues: the '
                        'rejection is not enforced (no sys.exit / raise on '
                        'some path after it)',
                        key='%s | error log falls through' % fi.full)


# ---------------------------------------------------------------------------

def _self_calls(fi):
    out = []
    for c in walk_no_nested(fi.node):
        if isinstance(c, ast.Call):
            n = call_name(c) or ''
            if n.startswith('self.') and n.count('.') == 1:
                out.append((n[5:], c))
    return out


def _error_helpers(repo, ci):
    """Methods of the class (MRO) that can reach log('error') themselves ->
    the parameter names that decide it (read by the guards of the error log,
    through locals).  The message text a caller passes is not a decision."""
    out = {}
    for c in repo.mro(ci):
        for nm, m in c.methods.items():
            for call in walk_no_nested(m.node):
                if isinstance(call, ast.Call) and call_name(call) == \
                        'self.log' and call.args and \
                        const(call.args[0]) in ('error', 'critical'):
                    deciding = out.setdefault(nm, set())
                    seen = set()
                    work = list(_guard_exprs(call))
                    while work:
                        e = work.pop()
                        for n in ast.walk(e):
                            if isinstance(n, ast.Name) and n.id not in seen:
                                seen.add(n.id)
                                if n.id in m.params:
                                    deciding.add(n.id)
                                for d in U.assigns_of(m.node, n.id):
                                    v = getattr(d, 'value', None) or \
                                        getattr(d, 'iter', None)
                                    if v is not None:
                                        work.append(v)
    return out


def _deciding_args(repo, ci, helpers, name, call):
    """Arguments of a helper call bound to its deciding parameters."""
    m = repo.lookup_method(ci, name)
    params = [p for p in m.params if p != 'self']
    out = []
    for i, a in enumerate(call.args):
        if i < len(params) and params[i] in helpers[name]:
            out.append(a)
        elif i >= len(params) or isinstance(a, ast.Starred):
            out.append(a)
    for k in call.keywords:
        if k.arg is None or k.arg in helpers[name]:
            out.append(k.value)
    return out


def _is_int(node):
    try:
        return isinstance(U.const_eval(node), int)
    except ValueError:
        return False


def _one_member(n):
    """n is used only through a fixed element or a proper slice."""
    up = parent(n)
    return isinstance(up, ast.Subscript) and up.value is n and (
        _is_int(up.slice) or (isinstance(up.slice, ast.Slice) and (
            up.slice.lower is not None or up.slice.upper is not None)))


def _influence_keys(fi, exprs, bind=None):
    """Constant string keys read (through locals) by the expressions.
    bind: {loop variable: value} fixes a literal-list loop variable.
    A key of which only a fixed element / proper slice is examined (directly
    or through a local alias of the list) is reported as K[#]: the decision
    looks at one member, not at the collection."""
    bind = bind or {}
    keys = set()
    seen = set()
    work = [(e, False) for e in exprs]
    while work:
        e, elem = work.pop()
        if e is None:
            continue
        for n in ast.walk(e):
            if isinstance(n, ast.Subscript):
                c = const(n.slice)
                if isinstance(c, str):
                    one = _one_member(n) or (elem and n is e)
                    keys.add(c + '[#]' if one else c)
                elif isinstance(n.slice, ast.Name) and n.slice.id in bind:
                    keys.add(bind[n.slice.id])
                elif isinstance(n.slice, ast.Name):
                    vals = IP._loop_values(fi.node, n.slice.id,
                                           getattr(n, 'lineno', 0))
                    for v in vals or []:
                        if isinstance(v, str):
                            keys.add(v)
            elif isinstance(n, ast.Call) and isinstance(n.func, ast.Attribute)\
                    and n.func.attr == 'get' and n.args:
                c = const(n.args[0])
                if isinstance(c, str):
                    keys.add(c)
            elif isinstance(n, ast.Name) and isinstance(n.ctx, ast.Load) \
                    and (n.id, _one_member(n)) not in seen:
                one = _one_member(n)
                seen.add((n.id, one))
                for d in U.assigns_of(fi.node, n.id):
                    if isinstance(d, ast.Assign):
                        work.append((d.value, one))
                    elif isinstance(d, ast.AugAssign):
                        work.append((d.value, False))
                    elif isinstance(d, ast.For):
                        work.append((d.iter, False))
    return keys


def _guard_exprs(node):
    out = [t for t, pol in U.guards(node)]
    for lp in U.enclosing_loops(node):
        if isinstance(lp, ast.For):
            out.append(lp.iter)
    return out


def r2(ctx):
    repo = ctx.repo
    ci = repo.cls('read_input', 'DASSH_Input')
    init = repo.func('read_input', 'DASSH_Input.__init__')
    # reachable self-calls from __init__ (within the class MRO)
    reach, work = set(), ['__init__']
    while work:
        nm = work.pop()
        if nm in reach:
            continue
        reach.add(nm)
        m = repo.lookup_method(ci, nm)
        if m is None:
            continue
        for callee, c in _self_calls(m):
            work.append(callee)
        # DASSHPlot_Input.__init__(self, ...) style
        for c in walk_no_nested(m.node):
            if isinstance(c, ast.Call) and (call_name(c) or '').endswith(
                    '.__init__'):
                bc = repo.resolve_class(m.mod, call_name(c)[:-9])
                if bc is not None and '__init__' in bc.methods:
                    for callee, cc in _self_calls(bc.methods['__init__']):
                        work.append(callee)
    own_checks = sorted(n for n in ci.methods if n.startswith('check_'))
    for nm in own_checks:
        m = repo.lookup_method(ci, nm)
        if nm in UNWIRED_OK and nm not in reach:
            ctx.ok('C18.R2', m, None, 'not wired (frozen): ' + UNWIRED_OK[nm])
            continue
        ctx.require(nm in reach, 'C18.R2', m, m.node,
                    'input check %s() is never called while the input is '
                    'read: the inputs it rejects are accepted' % nm,
                    key='dassh.read_input:DASSH_Input | unwired %s' % nm)
    # the calls in __init__ are unconditional or conditioned only on the
    # power source / power_only flags
    allowed_conds = {'self._cccc_power', 'not empty4c', 'self._user_power',
                     'not power_only', 'not self._cccc_power'}
    for callee, c in _self_calls(init):
        if not callee.startswith('check_'):
            continue
        bad = [src(t) for t, pol in U.guards(c)
               if src(t) not in allowed_conds]
        ctx.require(not bad, 'C18.R2', init, c,
                    'input check is skipped under condition %s' % bad,
                    key='%s | conditional %s' % (init.full, callee))
    # each check that the property names keeps its error exits and still
    # examines its keys
    helpers = _error_helpers(repo, ci)
    for qual, need in sorted(REQUIRED_GUARD_KEYS.items()):
        fi = repo.func('read_input', qual)
        sinks = []
        for c in walk_no_nested(fi.node):
            if not isinstance(c, ast.Call):
                continue
            nm = call_name(c) or ''
            if nm == 'self.log' and c.args and const(c.args[0]) in (
                    'error', 'critical'):
                sinks.append((c, _guard_exprs(c)))
            elif nm.startswith('self.') and nm[5:] in helpers and \
                    nm[5:] != fi.name:
                sinks.append((c, _guard_exprs(c) + _deciding_args(
                    repo, ci, helpers, nm[5:], c)))
        g = cfg_of(fi)
        live = [(c, ex) for c, ex in sinks
                if g.node_containing(c) is not None and
                g.is_reachable(g.node_containing(c))]
        if not live:
            ctx.violation('C18.R2', fi, fi.node, 'guard function has no '
                          'reachable error exit any more',
                          key=fi.full + ' | no error exit')
            continue
        got = set()
        per_sink = []
        for c, ex in live:
            ks = _influence_keys(fi, ex)
            got |= {k[:-3] if k.endswith('[#]') else k for k in ks}
            # one decision per value of an enclosing literal-list loop
            lits = [(src(l.target), U.literal_list(l.iter))
                    for l in U.enclosing_loops(c) if isinstance(l, ast.For)
                    and isinstance(l.target, ast.Name)
                    and isinstance(U.literal_list(l.iter), (list, tuple))]
            if lits:
                nm, vals = lits[0]
                for v in vals:
                    per_sink.append(_influence_keys(fi, ex, {nm: v}))
            else:
                per_sink.append(ks)
        ctx.extra.setdefault('guard_decisions', {})[qual] = [
            sorted(ks) for ks in per_sink]
        for rel in REQUIRED_GUARD_RELATIONS.get(qual, []):
            ctx.require(any(rel <= ks for ks in per_sink), 'C18.R2', fi,
                        fi.node, 'no single rejection decision in %s examines '
                        '%s together any more (the comparison between them '
                        'was removed or rewired)' % (qual, sorted(rel)),
                        key='%s | relation %s' % (fi.full,
                                                  ','.join(sorted(rel))))
            # ... and that decision is not made to depend on further input
            # keys (an option that switches the rejection off for some
            # assemblies), beyond the ones frozen for it
            allowed = RELATION_MAY_ALSO_DEPEND_ON.get(
                (qual, frozenset(rel)), set())
            cands = [ks for ks in per_sink if rel <= ks]
            if cands:
                extra = min(({k for k in ks if not k[:1].isupper()} - rel
                             - allowed for ks in cands), key=len)
                ctx.require(not extra, 'C18.R2', fi, fi.node,
                            'the rejection decision of %s on %s now also '
                            'depends on %s: inputs violating the relation are '
                            'accepted whenever that key switches the check '
                            'off' % (qual, sorted(rel), sorted(extra)),
                            key='%s | relation %s unconditional'
                            % (fi.full, ','.join(sorted(rel))))
        missing = sorted(need - got)
        ctx.require(not missing, 'C18.R2', fi, fi.node,
                    'input key(s) %s no longer influence any error decision '
                    'in %s (a guard was removed or no longer reads them)'
                    % (missing, qual), note='%d error exits; keys examined: %s'
                    % (len(live), sorted(got)),
                    key='%s | guard keys %s' % (fi.full, ','.join(missing)))
    # power-file checks
    ff = repo.func('power', '_from_file')
    pm = repo.mod('power')
    used_by_reactor = {c.func.attr for f in repo.mod('reactor').funcs.values()
                       for c in ast.walk(f.node) if isinstance(c, ast.Call)
                       and isinstance(c.func, ast.Attribute)}
    pchecks = sorted(q for q, f in pm.funcs.items()
                     if q.startswith('_check_') and f.cls is None
                     and q not in used_by_reactor)
    called = set()
    work = [ff]
    seenf = set()
    while work:
        f = work.pop()
        if f.full in seenf:
            continue
        seenf.add(f.full)
        for c in walk_no_nested(f.node):
            if isinstance(c, ast.Call) and isinstance(c.func, ast.Name) and \
                    c.func.id in pm.funcs:
                called.add(c.func.id)
                work.append(pm.funcs[c.func.id])
    for q in pchecks:
        ctx.require(q in called, 'C18.R2', pm.funcs[q], pm.funcs[q].node,
                    'power-file check %s() is not reached from _from_file'
                    % q, key='dassh.power | unwired %s' % q)
        # and it can reject (exit) or is the frozen auto-correcting one
        f = pm.funcs[q]
        has_exit = any(isinstance(n, ast.Raise) or (
            isinstance(n, ast.Call) and call_name(n) in ('sys.exit',))
            for n in ast.walk(f.node))
        if (pm.name, q) in MODULE_ERROR_CONTINUES:
            continue
        ctx.require(has_exit, 'C18.R2', f, f.node,
                    'power-file check cannot reject (no exit/raise left)',
                    key='%s | can reject' % f.full)
    # Reactor._setup_asm turns failed (False, msg) checks into errors
    sa = repo.func('reactor', 'Reactor._setup_asm')
    for chk in ('_check_core_len', '_check_assembly'):
        calls = [c for c in ast.walk(sa.node) if isinstance(c, ast.Call)
                 and (call_name(c) or '').endswith(chk)]
        ok = False
        for c in calls:
            st = c
            while not isinstance(st, ast.stmt):
                st = parent(st)
            tg = [t.id for t in ast.walk(st) if isinstance(t, ast.Name)
                  and isinstance(t.ctx, ast.Store)]
            # an error log guarded by the returned flag
            for e in ast.walk(sa.node):
                if isinstance(e, ast.Call) and call_name(e) == 'self.log' \
                        and e.args and const(e.args[0]) == 'error' and \
                        e.lineno > c.lineno:
                    if any(set(tg) & {x.id for x in ast.walk(t)
                                      if isinstance(x, ast.Name)}
                           for t, pol in U.guards(e)):
                        ok = True
        if not calls:
            # the helper may have been renamed; anchors are module-level
            raise AnalysisError('Reactor._setup_asm no longer calls %s' % chk)
        ctx.require(ok, 'C18.R2', sa, calls[0],
                    'a failed %s() must end in log(\'error\')' % chk,
                    key='%s | %s enforced' % (sa.full, chk))
    # RoddedRegion keeps its own pins-fit-in-duct check
    rr = repo.func('region_rodded', 'RoddedRegion.__init__')
    errs = [c for c in ast.walk(rr.node) if isinstance(c, ast.Call)
            and call_name(c) == 'self.log' and c.args
            and const(c.args[0]) == 'error']
    ctx.require(bool(errs), 'C18.R2', rr, errs[0] if errs else rr.node,
                'RoddedRegion.__init__ must keep a rejecting geometry check',
                key=rr.full + ' | geometry check')


# ---------------------------------------------------------------------------

def _norm_guard(test, pol):
    while isinstance(test, ast.UnaryOp) and isinstance(test.op, ast.Not):
        test, pol = test.operand, not pol
    return (src(test), pol)


def r3(ctx):
    repo = ctx.repo
    n = 0
    for fi in repo.all_funcs():
        if fi.mod.name not in DA_SCOPE and not fi.mod.name.startswith(
                'dassh.correlations'):
            continue
        issues = dataflow.definite_assignment(fi)
        n += 1
        reported = set()
        for name, node, cn in issues:
            if name in reported:
                continue
            # path-sensitive refinement: re-run with the use's own guards
            # assumed (tests over names that are never re-assigned in the
            # function), pruning the contradicting branches
            assume = set()
            for t, p in U.guards(node):
                tested = {x.id for x in ast.walk(t) if isinstance(x, ast.Name)}
                ng = dataflow.norm_guard(t, p)
                first = min([i.lineno for i in walk_no_nested(fi.node)
                             if isinstance(i, ast.If) and
                             dataflow.norm_guard(i.test, True)[0] == ng[0]]
                            or [t.lineno])
                if all(a.lineno < first for v in tested
                       for a in U.assigns_of(fi.node, v)):
                    assume.add(ng)
            if assume:
                again = dataflow.definite_assignment(fi, assume)
                if not any(nm == name and nd is node for nm, nd, _ in again):
                    continue
            reported.add(name)
            if (fi.full, name) in DA_INFEASIBLE:
                ctx.ok('C18.R3', fi, node, 'infeasible (frozen): '
                       + DA_INFEASIBLE[(fi.full, name)])
                continue
            ctx.violation('C18.R3', fi, node,
                          'local %r can be read before assignment on a path '
                          'through %s (UnboundLocalError instead of a clean '
                          'rejection)' % (name, fi.qual),
                          key='%s | unassigned %s' % (fi.full, name))
        ctx.ok('C18.R3', fi, None, 'definite assignment analysed')
    ctx.extra['functions_definite_assignment'] = n


# ---------------------------------------------------------------------------

INPUT_ROOTS = {'self.data', 'inp.data', 'dassh_input.data', 'dassh_inp.data',
               'input_obj.data', 'inp_obj.data', 'dassh_input_obj.data',
               'input_data', 'data'}


def _created_keys(repo):
    """Keys created by stores anywhere in read_input.py (constant last
    component), e.g. AxialRegion['rods'], ['outlet_temp']."""
    out = set()
    m = repo.mod('read_input')
    for fi in m.funcs.values():
        for t, st in U.stores(fi.node):
            if isinstance(t, ast.Subscript):
                c = const(t.slice)
                if isinstance(c, str):
                    out.add(c)
                elif isinstance(t.slice, ast.Name):
                    for v in IP._loop_values(fi.node, t.slice.id,
                                             t.lineno) or []:
                        if isinstance(v, str):
                            out.add(v)
        # dict displays stored into the input
        for n in ast.walk(fi.node):
            if isinstance(n, ast.Dict):
                for k in n.keys:
                    if isinstance(k, ast.Constant) and isinstance(k.value,
                                                                  str):
                        out.add(k.value)
    return out


def r4(ctx):
    repo = ctx.repo
    keys, sections = S.parse_template(repo.template_text)
    created = _created_keys(repo)
    ri = repo.mod('read_input')
    n = 0
    from ..resolve import Resolver
    bound = IP.propagate_params(repo, Resolver(repo))
    ctx.extra['input_bound_parameters'] = sum(len(v) for v in bound.values())
    for fi in repo.all_funcs():
        if fi.mod.name.startswith('dassh.plot') or \
                fi.mod.name.startswith('dassh.py4c'):
            continue
        roots = IP.roots_for(fi)
        aliases = IP.local_aliases_with(fi.node, roots,
                                        bound.get(fi.full, {}))
        for node in walk_no_nested(fi.node):
            if not isinstance(node, (ast.Subscript, ast.Call)):
                continue
            par = parent(node)
            if isinstance(par, ast.Subscript) and par.value is node:
                continue      # not maximal
            if isinstance(par, ast.Attribute) and par.attr in (
                    'get', 'keys', 'values', 'items') and par.value is node:
                continue
            if isinstance(node, ast.Call) and not (
                    isinstance(node.func, ast.Attribute)
                    and node.func.attr == 'get'):
                continue
            if isinstance(getattr(node, 'ctx', None), (ast.Store, ast.Del)):
                continue
            paths = IP.resolve(fi.node, node, roots, aliases)
            if not paths:
                continue
            for p in paths:
                if not p or p[0] in ('Assignment', 'Plot'):
                    continue
                kind, obj = IP.match_schema(p, keys, sections)
                n += 1
                if kind != 'unknown':
                    ctx.ok('C18.R4', fi, node, IP.fmt(p))
                    continue
                bad = p[obj]
                if bad == IP.STAR or bad in created:
                    ctx.ok('C18.R4', fi, node, IP.fmt(p) + ' (created by '
                           'read_input)')
                    continue
                guarded = False
                for t, pol in U.guards(node):
                    cp = U.compare_parts(t)
                    if cp and pol and cp[1] is ast.In and const(cp[0]) == bad:
                        guarded = True
                if guarded:
                    ctx.ok('C18.R4', fi, node, 'read guarded by `%r in ...` '
                           '(key not in schema: branch is dead)' % bad)
                    continue
                if isinstance(node, ast.Call):      # .get(): no KeyError
                    ctx.advisory('C18.R4', fi, node, 'reads input key %r with '
                                 '.get() at %s but the schema defines no such '
                                 'key there: the value is always None'
                                 % (bad, IP.fmt(p[:obj])))
                    continue
                ctx.violation(
                    'C18.R4', fi, node, 'reads input key %r at %s which the '
                    'schema does not define at that depth (KeyError for every '
                    'input that reaches this line)' % (bad, IP.fmt(p[:obj])),
                    key='%s | unknown key %s' % (fi.full, IP.fmt(p)))
    # schema keys never read anywhere (silently ignored options)
    used = set()
    for fi in repo.all_funcs():
        for node in ast.walk(fi.node):
            if isinstance(node, ast.Constant) and isinstance(node.value, str):
                used.add(node.value)
    for p, k in sorted(keys.items()):
        if p[0] == 'Plot':
            continue
        if p[-1] not in used:
            ctx.advisory('C18.R4', 'dassh/input_template.txt:%d' % k.lineno,
                         None, 'schema key %s is never read by the package '
                         '(the option is silently ignored)' % IP.fmt(p))
    # option lists vs dispatch tables
    _options(ctx, keys)


def _str_compares(fi, var_pred):
    """String literals a function compares (==, in) against."""
    out = set()
    for n in ast.walk(fi.node):
        if isinstance(n, ast.Compare):
            for l, op, r in zip([n.left] + n.comparators[:-1], n.ops,
                                n.comparators):
                for a, b in ((l, r), (r, l)):
                    c = const(b)
                    if isinstance(c, str) and isinstance(op, (ast.Eq, ast.In,
                                                              ast.NotEq)):
                        out.add(c)
                    lst = U.literal_list(b)
                    if isinstance(lst, (list, tuple)) and isinstance(
                            op, (ast.In, ast.NotIn)):
                        out |= {x for x in lst if isinstance(x, str)}
    return out


def _options(ctx, keys):
    repo = ctx.repo
    A = ('Assembly', '__many__')
    table = [
        (A + ('corr_friction',), 'region_rodded', '_import_friction_correlation'),
        (A + ('corr_flowsplit',), 'region_rodded',
         '_import_flowsplit_correlation'),
        (A + ('corr_mixing',), 'region_rodded', '_import_mixing_correlation'),
        (A + ('corr_shapefactor',), 'region_rodded',
         '_import_shapefactor_correlation'),
        (A + ('SpacerGrid', 'corr'), 'region_rodded',
         'RoddedRegion._setup_spacer_grid'),
    ]
    for path, modn, fn in table:
        k = keys.get(path)
        if k is None or k.options is None:
            raise AnalysisError('schema option %s vanished' % IP.fmt(path))
        fi = repo.func(modn, fn)
        if fn.startswith('_import_'):
            # decided over the finite set of names by the finite-domain
            # evaluator (whatever the spelling of the dispatch)
            from .c12 import importer_table
            accepted = {s.lower() for s in importer_table(repo, fi)}
        else:
            accepted = {s.lower() for s in _str_compares(fi, None)}
        opts = [o for o in k.options if o not in ('None',)]
        missing = [o for o in opts if o.lower() not in accepted and
                   o.lower().replace('-', '') not in
                   {a.replace('-', '') for a in accepted}]
        ctx.require(not missing, 'C18.R4', fi, fi.node,
                    'schema accepts %s = %s but %s() has no branch for it'
                    % (IP.fmt(path), missing, fn),
                    key='%s | options %s' % (fi.full, IP.fmt(path)))
    # gap model: Core.__init__ / Reactor dispatch
    k = keys.get(('Core', 'gap_model'))
    core_mod = repo.mod('core')
    acc = set()
    for fi in core_mod.funcs.values():
        acc |= _str_compares(fi, None)
    for fi in repo.mod('reactor').funcs.values():
        acc |= _str_compares(fi, None)
    missing = [o for o in k.options if o not in acc and o != 'none']
    ctx.require(not missing, 'C18.R4', 'dassh/input_template.txt:%d'
                % k.lineno, None, 'gap_model options %s have no dispatch '
                'branch in core.py/reactor.py' % missing,
                key='dassh.core | gap_model options')


# ---------------------------------------------------------------------------
# R5: the region-mismatch predicate is two-sided

def r5(ctx):
    repo = ctx.repo
    fi = repo.func('read_input', '_check_reg_bnds')
    p = fi.params[0]
    filt = []
    for n in ast.walk(fi.node):
        if isinstance(n, (ast.ListComp, ast.GeneratorExp, ast.SetComp)) and \
                len(n.generators) == 1 and src(n.generators[0].iter) == p:
            g = n.generators[0]
            if isinstance(g.target, ast.Name):
                filt.append((n, g.target.id, g.ifs))
    cnz = [c for c in ast.walk(fi.node) if isinstance(c, ast.Call)
           and call_name(c) in ('np.count_nonzero',) and c.args
           and src(c.args[0]).startswith(p)]
    if not filt and not cnz:
        raise AnalysisError('_check_reg_bnds: counting construct not '
                            'recognised')
    for n, v, ifs in filt:
        sel = {}
        for rep in (-1.0, 0.0, 1.0):
            r = True
            for t in ifs:
                e = U.eval_test(t, {v: rep})
                if e is None:
                    raise AnalysisError('_check_reg_bnds: filter %s'
                                        % src(t))
                r = r and e
            sel[rep] = r
        ctx.require(sel == {-1.0: True, 0.0: False, 1.0: True}, 'C18.R5', fi,
                    n, 'the mismatch filter must select gaps and overlaps '
                    'alike (v = -1, 0, +1 -> %s): an overlap of two axial '
                    'regions would not be counted and the input accepted'
                    % [sel[k] for k in (-1.0, 0.0, 1.0)],
                    key=fi.full + ' | two-sided mismatch')
    for c in cnz:
        ctx.ok('C18.R5', fi, c, 'count_nonzero counts both signs')
    # more than one -> reject
    rets = [r for r in walk_no_nested(fi.node) if isinstance(r, ast.Return)]
    tests = [n for n in walk_no_nested(fi.node) if isinstance(n, ast.If)]
    ok = len(tests) == 1 and isinstance(tests[0].test, ast.Compare) and \
        isinstance(tests[0].test.ops[0], (ast.Gt, ast.GtE)) and \
        const(tests[0].test.comparators[0]) == (
            1 if isinstance(tests[0].test.ops[0], ast.Gt) else 2)
    if ok:
        rb = [const(r.value) for r in tests[0].body
              if isinstance(r, ast.Return)]
        ok = rb == [False]
    ctx.require(ok, 'C18.R5', fi, tests[0] if tests else fi.node,
                'more than one mismatch must make the predicate fail',
                key=fi.full + ' | more than one')
    # caller: failed predicate -> error
    ck = repo.func('read_input', 'DASSH_Input.check_unrodded_regions')
    calls = [c for c in walk_no_nested(ck.node) if isinstance(c, ast.Call)
             and call_name(c) == '_check_reg_bnds']
    ok = False
    for c in calls:
        up = parent(c)
        if isinstance(up, ast.UnaryOp) and isinstance(up.op, ast.Not):
            iff = parent(up)
            if isinstance(iff, ast.If) and any(
                    isinstance(x, ast.Call) and call_name(x) == 'self.log'
                    and x.args and const(x.args[0]) == 'error'
                    for s_ in iff.body for x in ast.walk(s_)):
                ok = True
    ctx.require(ok, 'C18.R5', ck, calls[0] if calls else ck.node,
                'a failed region-bounds predicate must end in log(error)',
                key=ck.full + ' | predicate wired to error')
