"""C01.R12 -- the subchannel mass flows are constant along the march of a region.

Clause.  The balance of a step is formed with the mass-flow weights of the
region: `sc_mfr` (area share x interior flow x flow split), the bypass and
total flow of the mixed mean, the node flow the low-fidelity update divides
by.  sum_i m_i cp dT_i equals the heat of the step only while the m_i of level
j+1 are the m_i of level j: if a weight is replaced between two steps, coolant
is moved between subchannels without its enthalpy and the enthalpy flow jumps
by cp sum_i dm_i (T_i - T_mean) -- heat from no source, of a size that is not
tied to dz.  Necessary condition decided here:

    no code that runs per axial step (the `calculate` methods of the three
    region classes, `Assembly.calculate`, `Reactor.axial_step`, and everything
    they reach) writes into the state the mass-flow weights are
    computed from; that state is written by set-up code only (constructor,
    `_setup_flowrate`, `_init_static_correlated_params`, `clone`, region
    activation -- where the coolant temperature is uniform, so a change of
    the weights moves no enthalpy).

How.  (1) The *weight state* W of a region class is derived from the source,
not listed: every access path on the region object that the weight
definitions read -- the properties `sc_mfr`, `avg_coolant_int_temp`,
`avg_coolant_temp`, `avg_coolant_byp_temp` (followed through further
properties and helper methods; `temp`, the quantity being averaged, excluded) plus everything the
returned increment of the explicit update is divided by (flow-sensitive
expansion of the return value; the coolant Material, whose properties lag by
design, excluded).  (2) An effect analysis over the call graph from the
per-step entry points: the region object is tracked through `self`, through
`<assembly>.active_region` / `.region[i]`, through parameters it (or a
container holding weights) is passed to, and through local aliases; calls are
followed with constant arguments bound (a branch decided by a constant
parameter -- `use_mat_tracker=False` is the activation path -- is pruned).
Every store form is recognised: assignment / augmented assignment / `del` of a
path that overlaps W (the container, the weight, an element of it), the same
through a local alias, dict/array mutator methods, `np.copyto`-like calls,
`out=`, `setattr`.  (3) A reached write is a violation that quotes the
statement and the call chain.

Trusted: attribute look-ups denote the same object along a call chain
(`self.active_region` is not re-bound inside a step); callables stored in
`<region>.corr[...]` are functions of `dassh.correlations.*`.
Fail closed: anchors, a W without the flow split / the node flows, a
traversal that no longer reaches the update methods, a detector that does not
see the set-up stores of the real tree or the synthetic forms -> exit 2.
"""
import ast

from ..core import (AnalysisError, call_name, const, parent, path_str,
                    set_parents, stmt_targets, walk_no_nested)
from ..resolve import Resolver, bind_args
from .. import util as U

PROPS = ('C01',)
RULE = 'C01.R12'

REGIONS = (('region_rodded', 'RoddedRegion', '_calc_coolant_int_temp'),
           ('region_unrodded', 'SingleNodeHomogeneous', '_calc_coolant_temp'),
           ('region_unrodded', 'MultiNodeHomogeneous', '_calc_coolant_temp'))
# the definitions of the weights (properties, looked up along the MRO)
WEIGHT_PROPS = ('sc_mfr', 'avg_coolant_int_temp', 'avg_coolant_temp',
                'avg_coolant_byp_temp')
AVERAGED = ('temp',)         # what the weights are applied to
LAGGING = ('coolant',)       # Material: properties lag one step by design
# at least these must come out of the derivation (confirmed by reading)
MUST_HAVE = {
    'RoddedRegion': [('coolant_int_params', "'fs'"), ('int_flow_rate',)],
    'SingleNodeHomogeneous': [('flow_rate',)],
    'MultiNodeHomogeneous': [('_scfr',)]}
# set-up code whose stores into W the detector must see (positive control)
SETUP = {
    'RoddedRegion': [('_setup_flowrate', ('_mfrc',)),
                     ('_setup_flowrate', ('int_flow_rate',)),
                     ('_init_static_correlated_params',
                      ('coolant_int_params', "'fs'"))],
    'SingleNodeHomogeneous': [('__init__', ('flow_rate',))],
    'MultiNodeHomogeneous': [('__init__', ('_scfr',))]}
# methods the traversal from <cls>.calculate must reach
MUST_REACH = {
    'RoddedRegion': ['_update_coolant_int_params', '_calc_coolant_int_temp',
                     '_update_coolant_byp_params', '_update_coolant'],
    'SingleNodeHomogeneous': ['_update_coolant_params', '_calc_coolant_temp'],
    'MultiNodeHomogeneous': ['_calc_coolant_temp', '_calc_duct_temp']}

MUTATORS = {'update', 'setdefault', 'pop', 'popitem', 'clear', 'fill', 'sort',
            'resize', 'put', 'itemset', 'partition', '__setitem__',
            '__delitem__', '__iadd__', '__imul__', 'append', 'extend',
            'insert', 'remove', 'reverse', 'setflags', 'byteswap'}
NP_INPLACE = {'copyto', 'put', 'place', 'putmask', 'fill_diagonal',
              'put_along_axis'}


# ---------------------------------------------------------------------------
# access paths relative to the region object

def _show(r):
    return path_str(('<region>',) + tuple(r))


def _is_sub(c):
    return c == '[*]' or c[:1] in '\'"' or c.lstrip('-').isdigit()


def _comp_ov(a, b):
    if a == b:
        return True
    if '[*]' in (a, b):
        return _is_sub(a) and _is_sub(b)
    if '.*' in (a, b):
        return not _is_sub(a) and not _is_sub(b)
    return False


def overlap(p, w):
    """Store path p touches weight path w: one is a prefix of the other
    (the container is re-bound, the weight is re-bound, an element of the
    weight is written)."""
    return all(_comp_ov(p[i], w[i]) for i in range(min(len(p), len(w))))


def _chain(expr):
    """[(component, slice node or None)] root first; None if not a path."""
    parts = []
    n = expr
    while True:
        if isinstance(n, ast.Attribute):
            parts.append((n.attr, None))
            n = n.value
        elif isinstance(n, ast.Subscript):
            c = const(n.slice, _NO)
            if c is not _NO and isinstance(c, (str, int)) and \
                    not isinstance(c, bool):
                parts.append((repr(c), None))
            else:
                parts.append(('[*]', n.slice))
            n = n.value
        elif isinstance(n, ast.Name):
            parts.append((n.id, None))
            return list(reversed(parts))
        else:
            return None


_NO = object()


def _literal_domain(name_node):
    """Values of a Name that is the target of an enclosing `for` over a
    display of constants; None if unknown."""
    if not isinstance(name_node, ast.Name):
        return None
    a = parent(name_node)
    while a is not None and not isinstance(a, (ast.FunctionDef, ast.Lambda)):
        if isinstance(a, ast.For) and isinstance(a.target, ast.Name) and \
                a.target.id == name_node.id:
            v = U.literal_list(a.iter)
            if isinstance(v, (list, tuple, set)) and all(
                    isinstance(x, (str, int)) for x in v):
                return {repr(x) for x in v}
            return None
        a = parent(a)
    return None


class _Scope:
    """One function seen with a set of aliases of the region object:
    {path prefix (tuple of components) -> path relative to the region}."""

    def __init__(self, fn_node, aliases, W):
        self.fn = fn_node
        self.W = W
        self.al = dict(aliases)
        self._locals()

    def holds_weight(self, r):
        """r is the region, a container of weights, a weight or below."""
        return any(overlap(r, w) for w in self.W)

    def rel(self, expr):
        """(relative path, [slice nodes aligned with it]) or None."""
        ch = _chain(expr)
        if ch is None:
            return None
        comps = tuple(c for c, _ in ch)
        best = None
        for k, r in self.al.items():
            if comps[:len(k)] == k and (best is None or len(k) > best[0]):
                best = (len(k), r)
        if best is None:
            return None
        n, r = best
        return (tuple(r) + comps[n:],
                [None] * len(r) + [s for _, s in ch[n:]])

    def _locals(self):
        """May-aliases: a local bound (anywhere in the function) to a pure
        path expression that denotes the region or something holding
        weights."""
        for _ in range(3):
            changed = False
            for st in walk_no_nested(self.fn):
                pairs = []
                if isinstance(st, ast.Assign):
                    for t in st.targets:
                        if isinstance(t, ast.Name):
                            pairs.append((t.id, st.value))
                        elif isinstance(t, (ast.Tuple, ast.List)) and \
                                isinstance(st.value, (ast.Tuple, ast.List)) \
                                and len(t.elts) == len(st.value.elts):
                            pairs += [(a.id, b) for a, b in zip(
                                t.elts, st.value.elts)
                                if isinstance(a, ast.Name)]
                elif isinstance(st, ast.AnnAssign) and st.value is not None \
                        and isinstance(st.target, ast.Name):
                    pairs.append((st.target.id, st.value))
                elif isinstance(st, ast.NamedExpr) and isinstance(
                        st.target, ast.Name):
                    pairs.append((st.target.id, st.value))
                for name, v in pairs:
                    if (name,) in self.al:
                        continue
                    if isinstance(v, ast.Call) and call_name(v) == 'getattr' \
                            and len(v.args) >= 2 and isinstance(
                                const(v.args[1]), str):
                        v = ast.Attribute(value=v.args[0],
                                          attr=const(v.args[1]),
                                          ctx=ast.Load())
                    r = self.rel(v)
                    if r is not None and self.holds_weight(r[0]):
                        self.al[(name,)] = r[0]
                        changed = True
            if not changed:
                break

    # -- which weights a path touches, with literal key domains resolved --
    def touched(self, r, slices=None):
        out = []
        for w in self.W:
            if not r or not overlap(r, w):
                continue
            ok = True
            for i in range(min(len(r), len(w))):
                if r[i] == '[*]' and w[i] != '[*]' and slices and \
                        i < len(slices) and slices[i] is not None:
                    dom = _literal_domain(slices[i])
                    if dom is not None and w[i] not in dom:
                        ok = False
            if ok:
                out.append(w)
        return out


def _live(stmts, env):
    """(statement, [header expressions]) of the statements that can run when
    the names in env have the given constant values: an `if` whose test is
    decided by env contributes the live branch only."""
    for st in stmts:
        if isinstance(st, (ast.FunctionDef, ast.AsyncFunctionDef,
                           ast.ClassDef)):
            continue
        if isinstance(st, ast.If):
            v = U.eval_test(st.test, env) if env else None
            yield st, [st.test]
            if v is not False:
                for x in _live(st.body, env):
                    yield x
            if v is not True:
                for x in _live(st.orelse, env):
                    yield x
            continue
        heads, blocks = [], []
        for f, val in ast.iter_fields(st):
            if isinstance(val, list) and val and isinstance(val[0], ast.stmt):
                blocks.append(val)
            elif isinstance(val, list):
                for x in val:
                    if isinstance(x, ast.ExceptHandler):
                        if x.type is not None:
                            heads.append(x.type)
                        blocks.append(x.body)
                    elif isinstance(x, ast.withitem):
                        heads.append(x.context_expr)
                        if x.optional_vars is not None:
                            heads.append(x.optional_vars)
                    elif isinstance(x, ast.AST):
                        heads.append(x)
            elif isinstance(val, ast.AST):
                heads.append(val)
        yield st, heads
        for b in blocks:
            for x in _live(b, env):
                yield x


def _walk_expr(e):
    """Sub-expressions, not entering lambdas."""
    stack = [e]
    while stack:
        n = stack.pop()
        yield n
        if isinstance(n, ast.Lambda):
            continue
        stack.extend(ast.iter_child_nodes(n))


def effects(scope, env=None):
    """Writes into the weight state performed by the function itself:
    [(node, relative path, [weights touched], form)]; and the calls /
    property reads to follow: [(node)]."""
    hits, calls, reads = [], [], []
    for st, heads in _live(scope.fn.body, env or {}):
        # stores
        tg = stmt_targets(st) if not isinstance(st, ast.If) else []
        for t in tg:
            if isinstance(t, ast.Name):
                # x op= e on a local alias of a weight mutates the array
                if isinstance(st, ast.AugAssign) and (t.id,) in scope.al:
                    r = tuple(scope.al[(t.id,)])
                    tw = [w for w in scope.touched(r) if len(r) >= len(w)]
                    if tw:
                        hits.append((st, r, tw, 'in-place update through '
                                     'the local alias `%s`' % t.id))
                continue
            rr = scope.rel(t)
            if rr is None:
                continue
            r, sl = rr
            tw = scope.touched(r, sl)
            if tw:
                form = 'del' if isinstance(st, ast.Delete) else (
                    'augmented assignment' if isinstance(st, ast.AugAssign)
                    else 'assignment')
                hits.append((st, r, tw, form))
        for h in heads:
            for n in _walk_expr(h):
                if isinstance(n, ast.NamedExpr):
                    continue
                if isinstance(n, ast.Call):
                    hit = _mutating_call(scope, n)
                    if hit is not None:
                        hits.append(hit)
                    else:
                        calls.append(n)
                elif isinstance(n, ast.Attribute) and isinstance(
                        n.ctx, ast.Load):
                    reads.append(n)
    return hits, calls, reads


def _mutating_call(scope, c):
    f = c.func
    cn = call_name(c) or ''
    # out=<weight>
    for k in c.keywords:
        if k.arg == 'out':
            rr = scope.rel(k.value)
            if rr is not None:
                tw = scope.touched(*rr)
                if tw:
                    return (c, rr[0], tw, 'out= argument')
    # np.copyto(<weight>, ...)
    if cn.split('.')[0] in ('np', 'numpy') and cn.split('.')[-1] in \
            NP_INPLACE and c.args:
        rr = scope.rel(c.args[0])
        if rr is not None:
            tw = scope.touched(*rr)
            if tw:
                return (c, rr[0], tw, '%s writes its first argument' % cn)
    # setattr(<region or container>, name, value) / delattr
    if cn in ('setattr', 'delattr') and len(c.args) >= 2:
        rr = scope.rel(c.args[0])
        if rr is not None:
            nm = const(c.args[1])
            if isinstance(nm, str):
                comps = [nm]
            else:
                dom = _literal_domain(c.args[1])
                comps = sorted(ast.literal_eval(x) for x in dom) \
                    if dom is not None \
                    else ['.*']
            for comp in comps:
                r = rr[0] + (comp,)
                tw = scope.touched(r)
                if tw:
                    return (c, r, tw, cn)
        return None
    # <weight or container>.mutator(...)
    if isinstance(f, ast.Attribute) and f.attr in MUTATORS:
        rr = scope.rel(f.value)
        if rr is not None and rr[0]:
            r, sl = rr
            keys = None
            if f.attr == 'update':
                keys = []
                for a in c.args:
                    if isinstance(a, ast.Dict) and all(
                            k is not None and isinstance(const(k), (str, int))
                            for k in a.keys):
                        keys += [repr(const(k)) for k in a.keys]
                    else:
                        keys = None
                        break
                if keys is not None:
                    if any(k.arg is None for k in c.keywords):
                        keys = None
                    else:
                        keys += [repr(k.arg) for k in c.keywords]
            elif f.attr in ('setdefault', 'pop', '__setitem__',
                            '__delitem__') and c.args and isinstance(
                                const(c.args[0]), (str, int)):
                keys = [repr(const(c.args[0]))]
            cands = [r + (k,) for k in keys] if keys is not None else [r]
            for p in cands:
                tw = scope.touched(p, sl)
                # a mutator on a container above the weight with unknown
                # keys may hit the weight; on the weight itself it does
                if tw:
                    return (c, p, tw, 'mutator method .%s()' % f.attr)
    return None


# ---------------------------------------------------------------------------
# W: the weight state of a region class, derived from the weight definitions

def _self_reads(fn_node):
    out = []
    for n, p in U.reads_of_path(fn_node, ('self',)):
        if len(p) > 1:
            out.append((n, p[1:]))
    return out


def _cut(p):
    """Path up to (not including) the first non-constant subscript."""
    out = []
    for c in p:
        if c == '[*]':
            break
        out.append(c)
    return tuple(out)


def weight_state(repo, ci, inc_name):
    W = {}
    done = set()

    def from_property(name, via, depth=0, method_ok=False):
        fi = repo.lookup_method(ci, name)
        if fi is None or fi.is_setter or depth > 6 or not (
                fi.is_property or method_ok):
            return False
        if (name, fi.full) in done:
            return True
        done.add((name, fi.full))
        for n, p in _self_reads(fi.node):
            if p[0] in AVERAGED:
                continue
            sub = repo.lookup_method(ci, p[0])
            if sub is not None:
                # a further property, or a helper method the definition
                # was factored into (LoggedClass.log reads nothing)
                from_property(p[0], via + [name], depth + 1, True)
                continue
            q = _cut(p)
            if q:
                W.setdefault(q, 'read by the weight definition %s.%s'
                             % (ci.name, '.'.join(via + [name])))
        return True

    found = [nm for nm in WEIGHT_PROPS if from_property(nm, [])]
    if 'avg_coolant_temp' not in found or 'avg_coolant_int_temp' not in found:
        raise AnalysisError('%s: mixed-mean properties vanished (%s)'
                            % (ci.full, found))
    # what the returned increment is divided by
    inc = repo.lookup_method(ci, inc_name)
    if inc is None:
        raise AnalysisError('anchor %s.%s vanished' % (ci.full, inc_name))
    rets = [r for r in walk_no_nested(inc.node) if isinstance(r, ast.Return)
            and r.value is not None]
    if not rets:
        raise AnalysisError('%s: no returned increment' % inc.full)
    ndiv = 0
    for r in rets:
        e = U.value_at(inc.node, r.value, r.lineno)
        set_parents(e)
        for n in ast.walk(e):
            dens = []
            if isinstance(n, ast.BinOp) and isinstance(n.op, ast.Div):
                dens.append(n.right)
            elif isinstance(n, ast.Call) and (call_name(n) or '') in (
                    'np.divide', 'np.true_divide') and len(n.args) >= 2:
                dens.append(n.args[1])
            for d in dens:
                for x, p in U.reads_of_path(d, ('self',), nested=True):
                    if len(p) < 2 or p[1] in LAGGING or p[1] in AVERAGED:
                        continue
                    sub = repo.lookup_method(ci, p[1])
                    if sub is not None:
                        from_property(p[1], ['<divisor>'], 0, True)
                        continue
                    q = _cut(p[1:])
                    if q:
                        ndiv += 1
                        W.setdefault(q, 'divisor of the increment returned '
                                     'by %s' % inc.qual)
    missing = [w for w in MUST_HAVE[ci.name]
               if not any(overlap(w, x) and len(x) <= len(w) for x in W)]
    if missing:
        raise AnalysisError(
            '%s: derived weight state lacks %s (weight definitions changed '
            'shape)' % (ci.full, [_show(m) for m in missing]))
    return W


# ---------------------------------------------------------------------------
# traversal

class _Walk:
    def __init__(self, repo, res, ci, W):
        self.repo, self.res, self.ci, self.W = repo, res, ci, W
        self.seen = set()
        self.hits = {}          # id(node) -> record
        self.reached = set()
        self.n_stores = 0
        self.n_funcs = 0
        self.barriers = 0

    def run(self, fi, aliases, env, chain):
        key = (fi.full, tuple(sorted(aliases.items())),
               tuple(sorted(env.items())))
        if key in self.seen or len(chain) > 14:
            return
        self.seen.add(key)
        self.n_funcs += 1
        self.reached.add(fi.qual)
        env = {k: v for k, v in env.items()
               if not U.assigns_of(fi.node, k)}
        sc = _Scope(fi.node, aliases, self.W)
        hits, calls, reads = effects(sc, env)
        self.n_stores += sum(
            1 for st, _ in _live(fi.node.body, env)
            for t in (stmt_targets(st) if not isinstance(st, ast.If) else [])
            if sc.rel(t) is not None)
        here = chain + [fi.qual]
        for node, r, tw, form in hits:
            self.hits.setdefault(id(node), (fi, node, r, tw, form, here))
        for n in reads:
            rr = sc.rel(n)
            if rr is not None and len(rr[0]) == 1:
                m = self.repo.lookup_method(self.ci, rr[0][0])
                if m is not None and m.is_property and not m.is_setter:
                    self.run(m, {('self',): ()}, {}, here)
        for c in calls:
            self._call(fi, sc, c, here)

    def _arg_aliases(self, sc, call, callee):
        """({parameter -> relative path} for arguments that denote the region,
        a container of weights or a weight; {parameter -> constant})."""
        out, env = {}, {}
        b = bind_args(call, callee)
        a = callee.node.args
        pos = a.posonlyargs + a.args
        opaque = any(isinstance(x, ast.Starred) for x in call.args) or \
            any(k.arg is None for k in call.keywords)
        if not opaque:
            for p_, d_ in zip(pos[len(pos) - len(a.defaults):], a.defaults):
                if p_.arg not in b:
                    b[p_.arg] = d_
            for p_, d_ in zip(a.kwonlyargs, a.kw_defaults):
                if d_ is not None and p_.arg not in b:
                    b[p_.arg] = d_
        for p_, e in b.items():
            c = const(e, _NO)
            if c is not _NO and (c is None or isinstance(
                    c, (bool, int, float, str))):
                env[p_] = c
                continue
            rr = sc.rel(e)
            if rr is not None and sc.holds_weight(rr[0]):
                out[(p_,)] = rr[0]
            # an object through which the region is reached
            # (<assembly>.active_region): the parameter reaches it too
            ch = _chain(e)
            if ch is not None:
                comps = tuple(x for x, _ in ch)
                for k, r in sc.al.items():
                    if len(k) > len(comps) and k[:len(comps)] == comps:
                        out[(p_,) + k[len(comps):]] = r
        return out, env

    def _call(self, fi, sc, c, here):
        f = c.func
        repo = self.repo
        # <region>.corr[...](<region>, ...): a correlation function
        if isinstance(f, ast.Subscript):
            rr = sc.rel(f.value)
            if rr is not None and rr[0][:1] == ('corr',):
                for m in repo.modules.values():
                    if not m.name.startswith('dassh.correlations.'):
                        continue
                    for cand in m.funcs.values():
                        if cand.cls is not None or cand.outer is not None \
                                or cand.name.startswith('_'):
                            continue
                        al = {}
                        for p_, e in zip(cand.params, c.args):
                            r2 = sc.rel(e)
                            if r2 is not None and sc.holds_weight(r2[0]):
                                al[(p_,)] = r2[0]
                        if al:
                            self.run(cand, al, {}, here + ['corr[...]'])
            return
        recv = f.value if isinstance(f, ast.Attribute) else None
        rr = sc.rel(recv) if recv is not None else None
        if rr is not None and rr[0] == ():
            # a method of the region object itself
            m = repo.lookup_method(self.ci, f.attr)
            if m is None:
                return
            if f.attr in ACTIVATION:
                self.barriers += 1
                return
            al, env = self._arg_aliases(sc, c, m)
            al[('self',)] = ()
            self.run(m, al, env, here)
            return
        if rr is not None and any(len(w) <= len(rr[0])
                                  for w in sc.touched(rr[0])):
            return      # a method of a weight value (ndarray / float)
        cs, how = self.res.callees(fi, c)
        if how == 'by-name' and not (rr is not None and rr[0]):
            cs = [x for x in cs if x.cls is not None and len(cs) <= 3]
        for m in cs:
            al, env = self._arg_aliases(sc, c, m)
            if recv is not None and m.cls is not None and \
                    m.params[:1] == ['self']:
                ch = _chain(recv)
                if ch is not None:
                    comps = tuple(x for x, _ in ch)
                    if rr is not None and sc.holds_weight(rr[0]):
                        al[('self',)] = rr[0]
                    for k, r in sc.al.items():
                        if len(k) > len(comps) and k[:len(comps)] == comps:
                            al[('self',) + k[len(comps):]] = r
            if how == 'nested':
                for k, r in sc.al.items():
                    if k[0] not in m.params:
                        al.setdefault(k, r)
            if al:
                self.run(m, al, env, here)


# per-step drivers above the region (region object reached through ...)
ENTRIES = (
    ('assembly', 'Assembly.calculate',
     {('self', 'active_region'): (), ('self', 'region', '[*]'): ()}),
    ('reactor', 'Reactor.axial_step',
     {('self', 'assemblies', '[*]', 'active_region'): (),
      ('self', 'assemblies', '[*]', 'region', '[*]'): ()}),
)
# Region activation is set-up of the new region, not a step of it: the
# coolant of the activated region is uniform (C01.R7: arrays of ones times
# the mixed mean), so a change of its weights there moves no enthalpy.
ACTIVATION = ('activate',)


SYNTHETIC = '''
class R:
    def pos_store(self):
        self.coolant_int_params['fs'] = self.corr['fs'](self)
    def pos_elem(self):
        self.coolant_int_params['fs'][1] = 0.0
    def pos_aug(self):
        self._mfrc *= 1.01
    def pos_alias(self):
        p = self.coolant_int_params
        p['fs'] = 1
    def pos_alias_inplace(self):
        w = self.coolant_int_params['fs']
        w *= 2.0
    def pos_update(self):
        self.coolant_int_params.update(fs=self.corr['fs'](self))
    def pos_copyto(self):
        np.copyto(self.coolant_int_params['fs'], 1.0)
    def pos_setattr(self):
        setattr(self, '_mfrc', 0)
    def pos_loopkey(self):
        for k in ('vel', 'fs'):
            self.coolant_int_params[k] = 0
    def pos_rebind(self):
        self.coolant_int_params = {}
    def neg_other_key(self):
        self.coolant_int_params['vel'] = 1
        self.coolant_int_params['Re_sc'][0] = 1
        self.coolant_int_params.update(vel=2)
        for k in ('vel', 'Re'):
            self.coolant_int_params[k] = 0
    def neg_local(self):
        w = self.coolant_int_params['fs']
        w = w * 2.0
        m = self._mfrc * w
        return m
    def neg_pruned(self, flag=True):
        if not flag:
            self._mfrc = 0
'''


def _selfcheck():
    tree = ast.parse(SYNTHETIC)
    set_parents(tree)
    W = {('coolant_int_params', "'fs'"): '', ('_mfrc',): ''}
    for fn in tree.body[0].body:
        sc = _Scope(fn, {('self',): ()}, W)
        env = {'flag': True} if fn.name == 'neg_pruned' else {}
        hits = effects(sc, env)[0]
        if fn.name.startswith('pos') != bool(hits):
            raise AnalysisError('%s: store detector self-check failed on '
                                'synthetic form %s (%d hits)'
                                % (RULE, fn.name, len(hits)))
    return len(tree.body[0].body)


def run(ctx):
    repo = ctx.repo
    res = Resolver(repo)
    n_syn = _selfcheck()
    reported = set()
    summary = {}
    for modn, cname, inc in REGIONS:
        ci = repo.cls(modn, cname)
        W = weight_state(repo, ci, inc)
        # positive control on the real tree: the set-up stores are seen
        for meth, w in SETUP[cname]:
            m = repo.lookup_method(ci, meth)
            if m is None:
                raise AnalysisError('anchor %s.%s vanished' % (ci.full, meth))
            sc = _Scope(m.node, {('self',): ()}, {w: 'control'})
            if not any(overlap(r, w) for _, r, _, _ in effects(sc)[0]):
                raise AnalysisError(
                    '%s: the store detector does not see the set-up store '
                    'of %s in %s (detector or anchor changed shape)'
                    % (RULE, _show(w), m.full))
        entries = [(repo.func(modn, cname + '.calculate'), {('self',): ()})]
        for em, eq, al in ENTRIES:
            entries.append((repo.func(em, eq), dict(al)))
        hits, n_funcs, n_stores, floor = {}, 0, 0, None
        for k, (efi, al) in enumerate(entries):
            wk = _Walk(repo, res, ci, W)
            wk.run(efi, al, {}, [])
            if k == 0:
                need = [cname + '.' + x for x in MUST_REACH[cname]]
                floor = wk.n_stores
            elif efi.qual == 'Assembly.calculate':
                need = [cname + '.calculate']
            else:
                need = ['Assembly.calculate', cname + '.calculate']
                if wk.barriers == 0:
                    need.append('<region>.activate')
            miss = [x for x in need if not any(
                q == x or q.endswith('.' + x.split('.')[-1]) and
                x.split('.')[0] == cname for q in wk.reached)]
            if miss:
                raise AnalysisError(
                    '%s: the per-step traversal from %s no longer reaches '
                    '%s' % (RULE, efi.full, miss))
            for i_, h in wk.hits.items():
                hits.setdefault(i_, h)
            n_funcs = max(n_funcs, wk.n_funcs)
            n_stores = max(n_stores, wk.n_stores)
        summary[cname] = {
            'weight_state': {_show(w): why
                             for w, why in sorted(W.items())},
            'functions_reached': n_funcs,
            'region_stores_examined': n_stores}
        bad = [h for h in hits.values() if id(h[1]) not in reported]
        for fi, node, r, tw, form, chain in sorted(
                bad, key=lambda h: (h[0].full, getattr(h[1], 'lineno', 0))):
            reported.add(id(node))
            ctx.violation(
                RULE, fi, node,
                'per-step code writes into the state the mass-flow weights '
                'of the region are computed from: %s of %s (touches %s -- %s)'
                ' is reached from the axial step via %s.  The weights of the '
                'balance (subchannel mass flows) must stay what they were at '
                'the previous level: replacing them between two steps moves '
                'coolant between subchannels without its enthalpy, '
                'cp sum_i dm_i (T_i - T_mean) appears from no source and does '
                'not shrink with dz.  Determine them in set-up code '
                '(_init_static_correlated_params / _setup_flowrate / clone / '
                'activation) only.' % (
                    form, _show(r),
                    ', '.join(_show(w) for w in tw[:3]),
                    W[tw[0]], ' -> '.join(chain)),
                key='%s | per-step write to %s' % (fi.full, _show(_cut(r))))
        if not bad:
            ctx.ok(RULE, entries[0][0], None,
                   '%s: %d weight paths; %d functions reached per step, %d '
                   'stores on the region examined, none into the weight '
                   'state' % (cname, len(W), n_funcs, n_stores))
        if floor < {'RoddedRegion': 20, 'SingleNodeHomogeneous': 8,
                    'MultiNodeHomogeneous': 8}[cname]:
            raise AnalysisError('%s: only %d per-step stores on the %s '
                                'object examined (traversal went blind)'
                                % (RULE, floor, cname))
    ctx.extra['c01_r12'] = summary
    ctx.extra['c01_r12']['synthetic_forms_checked'] = n_syn
    ctx.trusted.append('C01.R12: callables in <region>.corr[...] are '
                       'functions of dassh.correlations.*; attribute '
                       'look-ups denote one object along a call chain')
    ctx.decided.append(
        'R12 the subchannel mass flows are constant along the march of a '
        'region: nothing reachable from the per-step drivers (the regions\' '
        'calculate, Assembly.calculate, Reactor.axial_step) '
        'writes into the state the mass-flow weights are computed from '
        '(derived from sc_mfr / the mixed-mean properties / the divisor of '
        'the explicit update: flow split, _mfrc, interior / bypass / total / '
        'node flow, area shares); set-up code and region activation only')
