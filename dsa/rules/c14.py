"""C14 -- pressure drop non-negative, additive, step-size independent."""
import ast

from ..core import (AnalysisError, access_path, const, find_all, match, short,
                    src, walk_no_nested, parent, ancestors, call_name)
from ..cfg import cfg_of
from .. import util as U

REGION_CLASSES = [('region_rodded', 'RoddedRegion'),
                  ('region_unrodded', 'SingleNodeHomogeneous')]
COMPONENT_FN = {'friction': 'calculate_friction_pressure_drop',
                'spacer_grid': 'calculate_spacergrid_pressure_drop',
                'gravity': 'calculate_gravity_pressure_drop'}


def run(ctx):
    ctx.decided += [
        'R1 spacer-grid membership of a step is a half-open interval and the '
        'loss is multiplied by the number of grids in it',
        'R2 every component is accumulated with += from its own per-step '
        'function; friction/gravity increments are degree-1 in dz, the grid '
        'term degree-0; increments are products of non-negated factors',
        'R3 key sets of _pressure_drop, the pressure_drop property, '
        'calculate_pressure_drop and Assembly.write agree per region class',
        'R4 static ff/fs have one writer; Assembly adds a finished region '
        'exactly once under the region-change guard; the step call passes the '
        'new height',
        'R7 the grid positions are a user-ordered list (stored as given): '
        'no decision or value may depend on one fixed element or proper slice '
        'of it ([-1], [0], [1:]) -- that would assume an ordering nothing '
        'establishes -- unless the list is sorted where it is stored; the '
        'per-step accumulation of the grid loss is conditioned on nothing '
        'but the presence of grids']
    ctx.decided += [
        'R9 argument selection over the resolved call graph: no positional '
        'argument named like another parameter of its callee (the gravity / '
        'geometry flags of the region factories are same-typed booleans)']
    ctx.not_decided += ['equality with the closed forms as numbers',
                        'dimension (Pa) -- see D_dim rule once armed']
    r1(ctx)
    r2(ctx)
    r3(ctx)
    r4(ctx)
    r6(ctx)
    r7(ctx)
    ctx.min_instances('C14.R7', 2)
    r8(ctx)
    ctx.min_instances('C14.R8', 3)
    from . import _argswap
    _argswap.check(ctx, 'C14.R9', ('assembly', 'region', 'region_rodded',
                                   'region_unrodded', 'table'))
    ctx.min_instances('C14.R1', 2)
    ctx.min_instances('C14.R2', 8)
    ctx.min_instances('C14.R3', 6)
    ctx.min_instances('C14.R4', 5)


# ---------------------------------------------------------------------------

def _flatten_compare(c):
    """[(left, op, right)] for a (possibly chained) comparison."""
    out = []
    l = c.left
    for op, r in zip(c.ops, c.comparators):
        out.append((l, type(op), r))
        l = r
    return out


def r1(ctx):
    fi = ctx.repo.func('region_rodded',
                       'RoddedRegion.calculate_spacergrid_pressure_drop')
    params = fi.params
    if len(params) < 3:
        raise AnalysisError('calculate_spacergrid_pressure_drop signature')
    zname, dzname = params[1], params[2]
    # element variables: comprehension targets iterating over the grid list,
    # or names bound to (an array of) the grid list
    elem = set()
    for n in ast.walk(fi.node):
        if isinstance(n, ast.comprehension) and "['grid']['z']" in src(n.iter):
            elem |= {x.id for x in ast.walk(n.target)
                     if isinstance(x, ast.Name)}
        if isinstance(n, ast.For) and "['grid']['z']" in src(n.iter):
            elem |= {x.id for x in ast.walk(n.target)
                     if isinstance(x, ast.Name)}
        if isinstance(n, ast.Assign):
            v = n.value
            while isinstance(v, ast.Call) and src(v.func) in (
                    'np.array', 'np.asarray', 'list', 'tuple') and v.args:
                v = v.args[0]
            if src(v).endswith("['grid']['z']"):
                elem |= {t.id for t in n.targets if isinstance(t, ast.Name)}
    if not elem:
        raise AnalysisError('spacer-grid positions are no longer compared in '
                            'calculate_spacergrid_pressure_drop')
    lower = []   # comparator kinds for  (z - dz) ? g
    upper = []   # comparator kinds for  g ? z
    for n in ast.walk(fi.node):
        if not isinstance(n, ast.Compare):
            continue
        for l, op, r in _flatten_compare(n):
            ls, rs = src(l), src(r)
            le = isinstance(l, ast.Name) and l.id in elem
            re_ = isinstance(r, ast.Name) and r.id in elem
            if le == re_:
                continue
            other = r if le else l
            strict = op in (ast.Lt, ast.Gt)
            if op not in (ast.Lt, ast.Gt, ast.LtE, ast.GtE):
                continue
            o = src(other)
            # orientation: is elem on the greater side?
            elem_greater = (le and op in (ast.Gt, ast.GtE)) or \
                           (re_ and op in (ast.Lt, ast.LtE))
            if o == '%s - %s' % (zname, dzname) and elem_greater:
                lower.append((strict, n))
            elif o == zname and not elem_greater:
                upper.append((strict, n))
            else:
                ctx.violation('C14.R1', fi, n, 'unrecognised grid-position '
                              'comparison (expected z - dz ? g and g ? z)')
    ok_shape = len(lower) == 1 and len(upper) == 1
    node = (lower or upper or [(None, fi.node)])[0][1]
    if not ok_shape:
        ctx.violation('C14.R1', fi, node, 'a grid must be tested against both '
                      'ends of the step exactly once',
                      key=fi.full + ' | interval shape')
    else:
        half_open = lower[0][0] != upper[0][0]
        ctx.require(half_open, 'C14.R1', fi, node,
                    'grid membership uses %s comparisons on both ends of the '
                    'step: a grid lying on an axial plane is %s'
                    % (('strict', 'never counted') if lower[0][0]
                       else ('non-strict', 'counted twice')),
                    key=fi.full + ' | half-open interval')
    # the loss must scale with the number of grids in the step
    anys = [c for c in U.attr_calls(fi.node, 'any', nested=True)]
    counts = [c for c in ast.walk(fi.node) if isinstance(c, ast.Call) and (
        src(c.func) in ('sum', 'len', 'np.sum', 'np.count_nonzero'))]
    uses_count = False
    for c in counts:
        if any(isinstance(x, ast.Name) and x.id in elem for x in ast.walk(c)):
            uses_count = True
    ctx.require(uses_count and not anys, 'C14.R1', fi,
                anys[0] if anys else fi.node,
                'the grid loss is applied once if *any* grid lies in the step;'
                ' two grids inside one step are counted as one',
                key=fi.full + ' | count grids')


# ---------------------------------------------------------------------------

def _product_factors(e):
    """(numerator factors, denominator factors) of a * / chain, or None."""
    num, den = [], []

    def rec(n, inv):
        if isinstance(n, ast.BinOp) and isinstance(n.op, ast.Mult):
            return rec(n.left, inv) and rec(n.right, inv)
        if isinstance(n, ast.BinOp) and isinstance(n.op, ast.Div):
            return rec(n.left, inv) and rec(n.right, not inv)
        if isinstance(n, ast.BinOp) and isinstance(n.op, (ast.Add, ast.Sub)):
            return False
        if isinstance(n, ast.UnaryOp) and isinstance(n.op, ast.USub):
            return False
        (den if inv else num).append(n)
        return True
    return (num, den) if rec(e, False) else None


def _degree_in(name, fi):
    """Degree of homogeneity in parameter `name` of the returned value when
    every return is a */ chain; None if not decidable.  Follows one level of
    local single definitions."""
    degs = set()
    for r in [n for n in walk_no_nested(fi.node) if isinstance(n, ast.Return)]:
        if r.value is None:
            return None
        e = U.expand_locals(fi.node, r.value, before=r.lineno)
        pf = _product_factors(e)
        if pf is None:
            # `count * (...)`, or constant 0.0
            if const(e) in (0, 0.0):
                continue
            return None
        num, den = pf
        d = 0
        for f in num:
            d += _deg_factor(f, name)
        for f in den:
            d -= _deg_factor(f, name)
        degs.add(d)
    if len(degs) == 1:
        return degs.pop()
    return None


def _deg_factor(f, name):
    if isinstance(f, ast.Name) and f.id == name:
        return 1
    if isinstance(f, ast.BinOp) and isinstance(f.op, ast.Pow) and \
            isinstance(f.left, ast.Name) and f.left.id == name:
        return const(f.right, 99)
    if any(isinstance(x, ast.Name) and x.id == name for x in ast.walk(f)):
        return 99
    return 0


def r2(ctx):
    repo = ctx.repo
    for modn, clsn in REGION_CLASSES:
        cls = repo.cls(modn, clsn)
        fi = repo.func(modn, clsn + '.calculate_pressure_drop')
        sts = U.stores_to_path(fi.node, ('self', '_pressure_drop'))
        seen = set()
        for t, st, p in sts:
            k = p[2].strip("'") if len(p) > 2 else None
            want = COMPONENT_FN.get(k)
            ok = isinstance(st, ast.AugAssign) and isinstance(st.op, ast.Add) \
                and want is not None and isinstance(st.value, ast.Call) \
                and src(st.value.func) == 'self.' + want
            ctx.require(ok, 'C14.R2', fi, st,
                        'component %r must be accumulated with += from %s()'
                        % (k, want), key='%s | accumulate %s' % (fi.full, k))
            if ok:
                seen.add(k)
                # dz passed through
                dzp = fi.params[2]
                ctx.require(any(src(a) == dzp for a in st.value.args),
                            'C14.R2', fi, st, 'the step size must be passed '
                            'to the increment function',
                            key='%s | dz passed %s' % (fi.full, k))
        if 'friction' not in seen:
            ctx.violation('C14.R2', fi, fi.node, 'friction not accumulated',
                          key=fi.full + ' | friction accumulated')
        # the friction increment is unconditional
        for t, st, p in sts:
            if p[2] == "'friction'":
                ctx.require(not U.guards(st), 'C14.R2', fi, st,
                            'friction must be accumulated on every step',
                            key=fi.full + ' | friction unconditional')
        # homogeneity of the increments
        for k, fn in COMPONENT_FN.items():
            m = repo.lookup_method(cls, fn)
            if m is None:
                if k == 'spacer_grid' and clsn != 'RoddedRegion':
                    continue
                raise AnalysisError('%s.%s vanished' % (clsn, fn))
            dzname = m.params[-1]
            want = 0 if k == 'spacer_grid' else 1
            deg = _degree_in(dzname, m)
            if deg is None and k == 'spacer_grid':
                # count * loss: dz may appear only inside comparisons
                uses = [n for n in ast.walk(m.node) if isinstance(n, ast.Name)
                        and n.id == dzname and not any(
                            isinstance(a, ast.Compare) for a in ancestors(n))]
                deg = 0 if not uses else None
            ctx.require(deg == want, 'C14.R2', m, m.node,
                        '%s increment must be homogeneous of degree %d in the '
                        'step size (found %s)' % (k, want, deg),
                        key='%s | degree in dz' % m.full)


# ---------------------------------------------------------------------------

def _dict_keys(node):
    if isinstance(node, ast.Dict) and all(isinstance(k, ast.Constant)
                                          for k in node.keys):
        return [k.value for k in node.keys]
    return None


def r3(ctx):
    repo = ctx.repo
    union = set()
    for modn, clsn in REGION_CLASSES:
        init = repo.func(modn, clsn + '.__init__')
        ks = None
        for t, st in U.stores(init.node):
            if src(t) == 'self._pressure_drop' and isinstance(st, ast.Assign):
                ks = _dict_keys(st.value)
                kst = st
        if ks is None:
            raise AnalysisError('%s.__init__: _pressure_drop literal vanished'
                                % clsn)
        union |= set(ks)
        cls = repo.cls(modn, clsn)
        pfi, pe = U.property_return(repo, cls, 'pressure_drop')
        if pe is None:
            raise AnalysisError('%s.pressure_drop property shape' % clsn)
        terms = U.linear_terms(pe)
        pk = []
        okp = True
        for sgn, t in terms:
            b = match("self._pressure_drop[Q_k]", ast.parse(t, mode='eval').body)
            if b is None or sgn < 0 or const(b['Q_k']) is None:
                okp = False
            else:
                pk.append(const(b['Q_k']))
        ctx.require(okp and sorted(pk) == sorted(ks), 'C14.R3', pfi, pe,
                    'region pressure_drop must be the plain sum of all '
                    'components %s (found %s)' % (sorted(ks), sorted(pk)),
                    key=pfi.full + ' | sum of components')
        cfi = repo.func(modn, clsn + '.calculate_pressure_drop')
        ck = sorted({p[2].strip("'") for t, st, p in
                     U.stores_to_path(cfi.node, ('self', '_pressure_drop'))})
        ctx.require(ck == sorted(ks), 'C14.R3', cfi, cfi.node,
                    'calculate_pressure_drop must update every component %s '
                    '(updates %s)' % (sorted(ks), ck),
                    key=cfi.full + ' | components updated')
        # clones own their dict (deepcopy / fresh) -- C06 checks ownership
    # Assembly.write sums every key of every region
    wr = repo.func('assembly', 'Assembly.write')
    dp = U.single_def(wr.node, '_dp')
    dk = _dict_keys(dp) if dp is not None else None
    ctx.require(dk is not None and set(dk) >= union, 'C14.R3', wr,
                dp if dp is not None else wr.node,
                'Assembly.write._dp must have a slot for every component %s'
                % sorted(union), key=wr.full + ' | _dp keys')
    h = find_all('_dp[Q_k] += Q_r._pressure_drop[Q_k]', wr.node, 'stmt')
    ctx.require(bool(h), 'C14.R3', wr, h[0][0] if h else wr.node,
                'dump must add each region component into its own slot',
                key=wr.full + ' | _dp accumulate')
    # Assembly.pressure_drop = finished regions + active region
    cls = repo.cls('assembly', 'Assembly')
    pfi, pe = U.property_return(repo, cls, 'pressure_drop')
    ctx.require(pe is not None and sorted(t for s, t in U.linear_terms(pe))
                == ['self._pressure_drop', 'self.active_region.pressure_drop']
                and all(s > 0 for s, t in U.linear_terms(pe)),
                'C14.R3', pfi, pe if pe is not None else pfi.node,
                'assembly pressure drop = finished regions + active region',
                key=pfi.full + ' | total')
    # table: friction / gravity summed over all regions, spacer from rodded
    tb = repo.func('table', 'PressureDropTable.make')
    for k in ('gravity', 'friction'):
        d = U.single_def(tb.node, k)
        ctx.require(d is not None and src(d) ==
                    "sum((x._pressure_drop['%s'] for x in a.region))" % k,
                    'C14.R3', tb, d if d is not None else tb.node,
                    'table %s must be summed over all regions' % k,
                    key='%s | %s sum' % (tb.full, k))


# ---------------------------------------------------------------------------

def r4(ctx):
    repo = ctx.repo
    # writers of coolant_int_params['ff'|'fs']
    n = 0
    allowed = {'RoddedRegion._init_static_correlated_params',
               'RoddedRegion.__init__', 'RoddedRegion._setup_region'}
    for fi in repo.all_funcs():
        for t, st in U.stores(fi.node):
            p = access_path(t)
            if p is None or 'coolant_int_params' not in p:
                continue
            i = p.index('coolant_int_params')
            if len(p) > i + 1 and p[i + 1] in ("'ff'", "'fs'"):
                n += 1
                ctx.require(fi.qual in allowed, 'C14.R4', fi, st,
                            'static friction factor / flow split written '
                            'outside _init_static_correlated_params: the '
                            'pressure drop becomes step-size dependent',
                            key='%s | %s' % (fi.full, src(t)))
    if n == 0:
        raise AnalysisError("no writer of coolant_int_params['ff'|'fs']")
    # Assembly.update_region adds the old region's drop once, guarded
    ur = repo.func('assembly', 'Assembly.update_region')
    adds = [st for t, st in U.stores(ur.node) if src(t) == 'self._pressure_drop']
    ok = len(adds) == 1 and isinstance(adds[0], ast.AugAssign) and \
        isinstance(adds[0].op, ast.Add) and \
        src(adds[0].value) == 'self.region[old_region_id].pressure_drop'
    gs = U.guards(adds[0]) if adds else []
    ok = ok and len(gs) == 1 and gs[0][1] and \
        src(gs[0][0]) == 'old_region_id != active_region_id' and \
        src(U.single_def(ur.node, 'old_region_id')) == 'self.active_region_idx'
    # old_region_id must be read before the index is advanced
    if ok:
        idx_store = [st for t, st in U.stores(ur.node)
                     if src(t) == 'self._active_region_idx']
        od = U.assigns_of(ur.node, 'old_region_id')[0]
        ok = all(od.lineno < s.lineno for s in idx_store)
    ctx.require(ok, 'C14.R4', ur, adds[0] if adds else ur.node,
                'the finished region\'s pressure drop must be added exactly '
                'once, under the region-change guard, for the *old* region',
                key=ur.full + ' | add finished region')
    # no other writer of Assembly._pressure_drop besides __init__
    for fi in repo.all_funcs():
        if fi.cls is None or fi.cls.name != 'Assembly':
            continue
        for t, st in U.stores(fi.node):
            if src(t) == 'self._pressure_drop' and fi.qual not in (
                    'Assembly.__init__', 'Assembly.update_region'):
                ctx.violation('C14.R4', fi, st, 'unexpected writer of the '
                              'assembly pressure-drop accumulator')
    ctx.ok('C14.R4', repo.func('assembly', 'Assembly.__init__'), None,
           'writers of Assembly._pressure_drop: __init__, update_region')
    # Assembly.calculate: pressure-drop step uses the new height and dz
    ac = repo.func('assembly', 'Assembly.calculate')
    g = cfg_of(ac)
    calls = U.attr_calls(ac.node, 'calculate_pressure_drop')
    if len(calls) != 1:
        ctx.violation('C14.R4', ac, ac.node, 'calculate_pressure_drop must be '
                      'called exactly once per step',
                      key=ac.full + ' | one pressure-drop call')
        return
    c = calls[0]
    dzp = ac.params[1]
    okc = len(c.args) == 2 and src(c.args[0]) in ('self.z', 'self._z') and \
        src(c.args[1]) == dzp and not U.guards(c)
    zn = [g.node_of(st) for t, st in U.stores(ac.node) if src(t) == 'self._z']
    cn = g.node_containing(c)
    okc = okc and zn and not g.path_exists(g.entry, cn, avoid=zn) \
        and g.must_pass(g.entry, [cn])
    ctx.require(okc, 'C14.R4', ac, c, 'the per-step pressure drop must be '
                'evaluated unconditionally with (new height, dz) after the '
                'height is advanced', key=ac.full + ' | step call')
    # the region steps before its pressure drop is evaluated? (order-free)
    rr = repo.func('region_rodded',
                   'RoddedRegion._init_static_correlated_params')
    # temperature restored after the static evaluation
    h = find_all('self.coolant.temperature = t_inlet', rr.node, 'stmt')
    ctx.ok('C14.R4', rr, h[0][0] if h else rr.node,
           'static parameters evaluated at the bundle-average temperature')


def r6(ctx):
    """One-sided tolerance comparisons (advisory)."""
    for fi in ctx.repo.all_funcs():
        if fi.mod.name != 'dassh.table':
            continue
        for n in walk_no_nested(fi.node):
            if isinstance(n, ast.Assert) and isinstance(n.test, ast.Compare):
                cp = U.compare_parts(n.test)
                if cp and cp[1] in (ast.Lt, ast.LtE) and \
                        isinstance(cp[0], ast.BinOp) and \
                        isinstance(cp[0].op, ast.Sub) and \
                        const(cp[2]) is not None:
                    ctx.advisory('C14.R6', fi, n, 'tolerance assertion on a '
                                 'difference without abs(): only one sign of '
                                 'the error is caught')


# ---------------------------------------------------------------------------
# R7: no ordering assumption on the grid positions

def r7(ctx):
    repo = ctx.repo
    GZ = "corr_constants['grid']['z']"
    stores = []
    for fi in repo.all_funcs():
        for t, st in U.stores(fi.node):
            if ' '.join(src(t).split()).endswith(GZ) and isinstance(
                    st, ast.Assign):
                stores.append((fi, st))
    if not stores:
        raise AnalysisError("no store to corr_constants['grid']['z']")
    sorted_at_store = all(
        isinstance(st.value, ast.Call) and (call_name(st.value) or '') in (
            'sorted', 'np.sort', 'np.unique') for _, st in stores)
    ctx.ok('C14.R7', stores[0][0], stores[0][1],
           'grid positions stored %s' % ('sorted' if sorted_at_store
                                         else 'in user order'))
    n = 0
    for fi in repo.all_funcs():
        if fi.mod.name.startswith('dassh.plot'):
            continue
        for x in walk_no_nested(fi.node):
            if not (isinstance(x, ast.Subscript) and isinstance(
                    x.ctx, ast.Load) and ' '.join(src(x).split()).endswith(
                        GZ)):
                continue
            n += 1
            up = parent(x)
            one = isinstance(up, ast.Subscript) and up.value is x and (
                isinstance(up.slice, ast.Slice) or
                isinstance(up.slice, (ast.Constant, ast.UnaryOp)))
            ctx.require(not one or sorted_at_store, 'C14.R7', fi, up if one
                        else x, 'reads %s of the grid positions, which are '
                        'kept in the order the user listed them: grids '
                        'listed in another order are handled differently'
                        % (src(up) if one else ''),
                        key='%s | single grid position' % fi.full)
    # the accumulation site is conditioned only on the presence of grids
    for mod, cls in REGION_CLASSES:
        ci = repo.cls(mod, cls)
        m = ci.methods.get('calculate_pressure_drop')
        if m is None:
            continue
        for st in walk_no_nested(m.node):
            if isinstance(st, ast.AugAssign) and 'spacer_grid' in \
                    src(st.target):
                bad = [src(t) for t, p in U.guards(st)
                       if ' '.join(src(t).split()) not in (
                           "'grid' in self.corr_constants.keys()",
                           "'grid' in self.corr_constants")]
                ctx.require(not bad, 'C14.R7', m, st,
                            'the per-step grid loss is accumulated only '
                            'under %s: steps for which that is false lose '
                            'their grids' % bad,
                            key=m.full + ' | accumulation guard')


# ---------------------------------------------------------------------------
# R8: constructor chain does not undo argument-derived attributes

def ctor_stores(repo, ci, depth=0):
    """Ordered [(attr, value, func, stmt)] of `self.<attr> = ...` stores that
    ci.__init__ executes, following explicit Base.__init__(self, ...) calls
    in statement order."""
    out = []
    m = ci.methods.get('__init__')
    if m is None or depth > 4:
        return out
    events = []
    for n in ast.walk(m.node):
        if isinstance(n, ast.Assign):
            for t in n.targets:
                if isinstance(t, ast.Attribute) and isinstance(
                        t.value, ast.Name) and t.value.id == 'self':
                    events.append((n.lineno, 0, t.attr, n.value, n))
        elif isinstance(n, ast.Call) and (call_name(n) or '').endswith(
                '.__init__') and n.args and src(n.args[0]) == 'self':
            bc = repo.resolve_class(m.mod, call_name(n)[:-9])
            if bc is not None:
                events.append((n.lineno, 1, bc, None, n))
    events.sort(key=lambda e: e[0])
    for ln, kind, a, v, node in events:
        if kind == 0:
            out.append((a, v, m, node))
        else:
            out += ctor_stores(repo, a, depth + 1)
    return out


def r8(ctx):
    repo = ctx.repo
    n = 0
    for ci in repo.all_classes():
        if not ci.mod.name.startswith(('dassh.region', 'dassh.assembly')):
            continue
        if '__init__' not in ci.methods:
            continue
        first = {}
        bad = []
        for a, v, f, node in ctor_stores(repo, ci):
            names = {x.id for x in ast.walk(v) if isinstance(x, ast.Name)}
            from_arg = bool(names & (set(f.params) - {'self'}))
            if a in first and not from_arg and isinstance(v, ast.Constant):
                bad.append((a, first[a], f, node))
            if from_arg and a not in first:
                first[a] = '%s line %d' % (f.qual, node.lineno)
        n += 1
        for a, where, f, node in bad:
            ctx.violation('C14.R8', f, node,
                          'constructing a %s sets self.%s from a constructor '
                          'argument (%s) and then runs %s, which resets it to '
                          'the constant %s: the argument is silently ignored'
                          % (ci.name, a, where, f.qual, src(node.value)),
                          key='%s | %s reset by %s' % (ci.full, a, f.qual))
        if not bad:
            ctx.ok('C14.R8', ci.methods['__init__'], None,
                   '%d argument-derived attributes survive the constructor '
                   'chain' % len(first))
    if n < 3:
        raise AnalysisError('C14.R8: region classes not found')
