"""C15 -- reported peaks are maxima over the sweep (DESIGN 4.15)."""
import ast

from ..core import call_name as call_name  # noqa
from ..core import (AnalysisError, access_path, const, find_all, match, short,
                    src, walk_no_nested, parent, path_str)
from ..cfg import cfg_of
from .. import util as U

PIN_KEYS = ['clad_od', 'clad_mw', 'clad_id', 'fuel_od', 'fuel_cl']
# pin_temps column convention: 0 id, 1 z, 2 pin, 3 coolant, 4.. as PIN_KEYS
CONV = {'coolant': 3, 'clad_od': 4, 'clad_mw': 5, 'clad_id': 6,
        'fuel_od': 7, 'fuel_cl': 8}


def run(ctx):
    repo = ctx.repo
    ctx.decided += [
        'R1 peak updaters post-dominate the region calculation in '
        'Assembly.calculate', 'R2 each updater is a running max fold of the '
        'named field, storing the compared value, self.z and a copy of the '
        'arg-max pin row', 'R3 pin-temperature column convention identical '
        'in assembly/pin_model/region_rodded/hotspot/plot/table',
        'R4 readers of _peak[duct] index like the writer (right-aligned)',
        'R5 outlet/average table columns read final-plane fields, not _peak']
    ctx.decided += [
        'R6 (rank domain) the face averages of the outlet duct field shift '
        'cells along one axis only: np.roll / np.cumsum style reorderings of '
        'a selection that keeps two or more axes must name the axis (without '
        'it NumPy works on the flattened array and mixes ducts)']
    ctx.not_decided += ['numerical equality of table text and fields',
                        'duct temperatures recomputed at region activation']
    r1(ctx)
    r2(ctx)
    r3(ctx)
    r4(ctx)
    r5(ctx)
    r6(ctx)
    ctx.min_instances('C15.R6', 2)
    r7(ctx)
    ctx.min_instances('C15.R1', 3)
    ctx.min_instances('C15.R2', 9)
    ctx.min_instances('C15.R3', 7)
    ctx.min_instances('C15.R4', 2)
    ctx.min_instances('C15.R5', 4)


# ---------------------------------------------------------------------------

def r1(ctx):
    fi = ctx.repo.func('assembly', 'Assembly.calculate')
    g = cfg_of(fi)

    def nodes_calling(attr, recv_pred=None):
        out = []
        for n in g.nodes:
            for part in g.header_parts(n):
                for c in U.attr_calls(part, attr):
                    if recv_pred is None or recv_pred(c):
                        out.append(n)
        return out

    def not_power(c):
        return 'power' not in (src(c.func))
    calc = nodes_calling('calculate', not_power)
    if not calc:
        raise AnalysisError('Assembly.calculate no longer calls a region '
                            '.calculate()')
    for upd in ('_update_peak_coolant_temps', '_update_peak_duct_temps'):
        un = nodes_calling(upd)
        ok = bool(un) and all(g.must_pass(c, un) for c in calc) \
            and all(any(g.dominates(c, u) for c in calc) for u in un) \
            and not any(g.path_exists(u, c) for u in un for c in calc)
        ctx.require(ok, 'C15.R1', fi, (un[0].stmt if un else fi.node),
                    '%s() must run after the region calculation on every '
                    'path to the normal exit of Assembly.calculate' % upd,
                    key='%s | %s after region calculate' % (fi.full, upd))
    pins = nodes_calling('calculate_pin_temperatures')
    un = nodes_calling('_update_peak_pin_temps')
    if not pins:
        raise AnalysisError('Assembly.calculate: calculate_pin_temperatures '
                            'call vanished')
    ok = bool(un) and all(g.must_pass(p, un) for p in pins) \
        and all(any(g.dominates(p, u) for p in pins) for u in un)
    ctx.require(ok, 'C15.R1', fi, (un[0].stmt if un else pins[0].stmt),
                '_update_peak_pin_temps() must follow every '
                'calculate_pin_temperatures() call',
                key='%s | _update_peak_pin_temps after pin calc' % fi.full)
    # the updaters must also see the *new* state: nothing between the region
    # calculation and the updaters may be conditional on anything (covered by
    # must_pass) and the pin update must not precede the pin calculation.


# ---------------------------------------------------------------------------

def _prop_expr(ctx, cls, name):
    fi, e = U.property_return(ctx.repo, cls, name)
    if fi is None:
        raise AnalysisError('Assembly.%s property vanished' % name)
    return fi, e


def _resolve_self_prop(ctx, cls, expr, depth=3):
    """Expand self.<property> through single-return properties."""
    for _ in range(depth):
        if isinstance(expr, ast.Attribute) and isinstance(expr.value, ast.Name)\
                and expr.value.id == 'self':
            fi, e = U.property_return(ctx.repo, cls, expr.attr)
            if fi is not None and e is not None:
                expr = e
                continue
        break
    return expr


def _max_call(e):
    """(array_expr, axis) for np.max(x[, axis=k]) / np.amax / x.max()."""
    if U.is_np_call(e, ('max', 'amax', 'nanmax')) and e.args:
        ax = U.kwarg(e, 'axis')
        if ax is None and len(e.args) > 1:
            ax = e.args[1]
        return e.args[0], (const(ax) if ax is not None else None)
    if isinstance(e, ast.Call) and isinstance(e.func, ast.Attribute) \
            and e.func.attr == 'max':
        ax = U.kwarg(e, 'axis')
        if ax is None and e.args:
            ax = e.args[0]
        return e.func.value, (const(ax) if ax is not None else None)
    return None, None


def _is_self_z(e):
    return src(e) in ('self.z', 'self._z')


def _gt_guard(test, cand_src, stored_src):
    """test is `cand > stored` / `cand >= stored` / `stored < cand`."""
    cp = U.compare_parts(test)
    if cp is None:
        return False
    l, op, r = cp
    if op in (ast.Gt, ast.GtE):
        return src(l) == cand_src and src(r) == stored_src
    if op in (ast.Lt, ast.LtE):
        return src(r) == cand_src and src(l) == stored_src
    return False




def r2(ctx):
    repo = ctx.repo
    cls = repo.cls('assembly', 'Assembly')
    # ---- coolant
    fi = repo.func('assembly', 'Assembly._update_peak_coolant_temps')
    sts = U.stores_to_path(fi.node, ('self', '_peak', "'cool'"))
    if not sts:
        ctx.violation('C15.R2', fi, fi.node, "no store into self._peak['cool']",
                      key=fi.full + ' | store _peak[cool]')
    for t, st, p in sts:
        v = st.value if isinstance(st, ast.Assign) else None
        ok = isinstance(v, ast.Tuple) and len(v.elts) == 2
        cand = v.elts[0] if ok else None
        ctx.require(ok and _is_self_z(v.elts[1]), 'C15.R2', fi, st,
                    'peak coolant must be stored as (value, self.z)',
                    key=fi.full + ' | cool stored with self.z')
        if not ok:
            continue
        gs = U.guards(st)
        ctx.require(len(gs) == 1 and _gt_guard(gs[0][0], src(cand),
                                               "self._peak['cool'][0]")
                    and gs[0][1],
                    'C15.R2', fi, gs[0][0] if gs else st,
                    'store must be guarded by `candidate > stored maximum`',
                    key=fi.full + ' | cool guard')
        d = U.single_def(fi.node, cand.id) if isinstance(cand, ast.Name) \
            else cand
        arr, ax = _max_call(d) if d is not None else (None, None)
        arr = _resolve_self_prop(ctx, cls, arr) if arr is not None else None
        ctx.require(arr is not None and ax is None and
                    src(arr) == "self.active_region.temp['coolant_int']",
                    'C15.R2', fi, d if d is not None else st,
                    'candidate must be the max over all interior coolant '
                    'subchannels of the active region',
                    key=fi.full + ' | cool candidate field')
    # ---- duct
    fi = repo.func('assembly', 'Assembly._update_peak_duct_temps')
    sts = U.stores_to_path(fi.node, ('self', '_peak', "'duct'"))
    if not sts:
        ctx.violation('C15.R2', fi, fi.node, "no store into self._peak['duct']",
                      key=fi.full + ' | store _peak[duct]')
    writer_idx = []
    for t, st, p in sts:
        v = st.value if isinstance(st, ast.Assign) else None
        ok = isinstance(v, ast.Tuple) and len(v.elts) == 2 \
            and isinstance(t, ast.Subscript)
        if not ok:
            ctx.violation('C15.R2', fi, st, 'peak duct store must be '
                          '_peak[duct][idx] = (value, self.z)')
            continue
        cand = v.elts[0]
        idx = t.slice
        stored = "self._peak['duct'][%s][0]" % src(idx)
        gs = U.guards(st)
        ctx.require(_is_self_z(v.elts[1]) and gs and gs[0][1] and
                    _gt_guard(gs[0][0], src(cand), stored),
                    'C15.R2', fi, st,
                    'duct peak store must be guarded by `candidate > '
                    'stored[idx][0]` on the same idx and store self.z',
                    key=fi.full + ' | duct guard ' + src(cand))
        # candidate = <name>[i] where name = np.max(self.temp_duct_mw, axis=1)
        base = cand.value if isinstance(cand, ast.Subscript) else None
        d = U.single_def(fi.node, base.id) if isinstance(base, ast.Name) \
            else None
        arr, ax = _max_call(d) if d is not None else (None, None)
        arr = _resolve_self_prop(ctx, cls, arr) if arr is not None else None
        ctx.require(arr is not None and ax in (1, -1) and
                    src(arr) == "self.active_region.temp['duct_mw']",
                    'C15.R2', fi, d if d is not None else st,
                    'candidate must be the per-duct max (axis=1) of the '
                    'active region duct mid-wall temperatures',
                    key=fi.full + ' | duct candidate field ' + src(cand))
        writer_idx.append((idx, cand, st))
    # right-aligned index convention
    for idx, cand, st in writer_idx:
        s = src(idx)
        if const(idx) == -1:
            ok = True
        else:
            ok = False
            d = U.single_def(fi.node, idx.id) if isinstance(idx, ast.Name) \
                else idx
            ds = [x for x in U.defs_of(fi.node, idx.id)] \
                if isinstance(idx, ast.Name) else [idx]
            # the definition reaching this store: nearest preceding
            if isinstance(idx, ast.Name):
                cands = [a for a in U.assigns_of(fi.node, idx.id)
                         if a.lineno <= st.lineno]
                d = cands[-1].value if cands else None
            if d is not None and const(d) == -1:
                ok = True
            elif d is not None:
                ok = _right_aligned(d, cand)
            if not ok and not isinstance(idx, ast.Name):
                # an index expression over locals (e.g. a loop-invariant
                # offset hoisted out of the loop: first + i): decided on its
                # flow-sensitive expansion.  A local bound again at or after
                # the store could reach it around the loop: not expanded.
                keep = {x.id for x in ast.walk(cand)
                        if isinstance(x, ast.Name)}
                free = {x.id for x in ast.walk(idx)
                        if isinstance(x, ast.Name)} - keep
                if all(a.lineno < st.lineno for x in free
                       for a in U.assigns_of(fi.node, x)):
                    ex = U.value_at(fi.node, idx, st.lineno,
                                    keep=tuple(keep))
                    if _bound_before(fi.node, idx, st.lineno):
                        ex = _range_item(ex, cand)
                    ok = _right_aligned_terms(ex, cand)
        if not ok:
            # decided on the *value* of the index at the store (locals
            # expanded flow-sensitively)
            d2 = U.value_at(fi.node, idx, st.lineno, keep=tuple(
                x.id for x in ast.walk(cand) if isinstance(x, ast.Name)))
            if _bound_before(fi.node, idx, st.lineno):
                d2 = _range_item(d2, cand)
            ok = const(d2) == -1 or _right_aligned(d2, cand)
        ctx.require(ok, 'C15.R2', fi, st,
                    "writer must index _peak['duct'] right-aligned "
                    '(-1 or len(_peak[duct]) - n + i)',
                    key=fi.full + ' | duct writer index ' + src(cand))
    # ---- pins
    fi = repo.func('assembly', 'Assembly._update_peak_pin_temps')
    sts = U.stores_to_path(fi.node, ('self', '_peak', "'pin'"))
    val_st = [s for s in sts if s[2][-1] == '0']
    prof_st = [s for s in sts if s[2][-1] == '2']
    if not val_st or not prof_st:
        ctx.violation('C15.R2', fi, fi.node, 'pin peak updater must store '
                      'value [k][0] and profile [k][2]',
                      key=fi.full + ' | pin stores')
        return
    tp = None
    for t, st, p in val_st:
        v = st.value
        # v = T[idx, COL]
        okv = isinstance(v, ast.Subscript) and isinstance(v.slice, ast.Tuple) \
            and len(v.slice.elts) == 2
        if not okv:
            ctx.violation('C15.R2', fi, st, 'pin peak value must be '
                          't_pin[idx, col]')
            continue
        T, (ix, col) = v.value, v.slice.elts
        key = t.value.slice     # k in self._peak['pin'][k][0]
        colexp = "self._peak['pin'][%s][1]" % src(key)
        gs = U.guards(st)
        ctx.require(src(col) == colexp and gs and gs[0][1]
                    and _gt_guard(gs[0][0], src(v),
                                  "self._peak['pin'][%s][0]" % src(key)),
                    'C15.R2', fi, st,
                    'pin peak store must be guarded by `t_pin[idx, col] > '
                    'stored` with col = _peak[pin][k][1]',
                    key=fi.full + ' | pin guard')
        d = None
        if isinstance(ix, ast.Name):
            cands = [a for a in U.assigns_of(fi.node, ix.id)
                     if a.lineno <= st.lineno]
            d = cands[-1].value if cands else None
        okd = d is not None and U.is_np_call(d, ('argmax', 'nanargmax')) \
            and len(d.args) == 1 and U.kwarg(d, 'axis') is None \
            and src(d.args[0]) == '%s[:, %s]' % (src(T), colexp)
        ctx.require(okd, 'C15.R2', fi, d if d is not None else st,
                    'row index must be argmax of t_pin[:, col] for the same '
                    'column', key=fi.full + ' | pin argmax')
        tp = (T, ix)
        tp_st = st
        # T must be the full pin array with the height column filled
        Td = U.single_def(fi.node, T.id) if isinstance(T, ast.Name) else T
        ctx.require(Td is not None and src(Td) == 'self.pin_temp_array',
                    'C15.R2', fi, Td if Td is not None else st,
                    't_pin must be self.pin_temp_array (height column filled)',
                    key=fi.full + ' | pin array source')
    for t, st, p in prof_st:
        v = st.value
        T, ix = tp if tp else (None, None)
        copy_ok = False
        if isinstance(v, ast.Call) and len(v.args) >= 1:
            fn = src(v.func)
            inner = v.args[0]
            if fn in ('list', 'np.array', 'np.copy', 'copy.copy',
                      'copy.deepcopy', 'tuple') and T is not None \
                    and src(inner) in ('%s[%s]' % (src(T), src(ix)),
                                       '%s[%s, :]' % (src(T), src(ix))):
                copy_ok = True
        if isinstance(v, ast.Call) and isinstance(v.func, ast.Attribute) \
                and v.func.attr in ('copy', 'tolist') and T is not None \
                and src(v.func.value) in ('%s[%s]' % (src(T), src(ix)),
                                          '%s[%s, :]' % (src(T), src(ix))):
            copy_ok = True
        if copy_ok and any(
                min(tp_st.lineno, st.lineno) <= a.lineno
                <= max(tp_st.lineno, st.lineno)
                for x in list(ast.walk(T)) + list(ast.walk(ix))
                if isinstance(x, ast.Name)
                for a in U.assigns_of(fi.node, x.id)):
            # the same text, but one of its locals is bound again between the
            # value store and this store: not the same row
            copy_ok = False
        if not copy_ok and T is not None:
            # decided on values: the stored object is a fresh copy of some
            # expression (any of the copying forms above, or the list built
            # element by element from it), and that expression, with its
            # locals expanded at this store, is the row `T[ix]` the value
            # store read, with its locals expanded at the value store
            row = _copied(v)
            vst = tp_st
            want = ast.Subscript(value=U._clone(T), slice=U._clone(ix),
                                 ctx=ast.Load())
            if row is not None and _bound_before(fi.node, row, st.lineno) \
                    and _bound_before(fi.node, want, vst.lineno):
                copy_ok = src(U.value_at(fi.node, row, st.lineno)) == \
                    src(U.value_at(fi.node, want, vst.lineno))
        same_guard = [src(g[0]) for g in U.guards(st)] == \
            [src(g[0]) for g in U.guards(val_st[0][1])]
        ctx.require(copy_ok and same_guard, 'C15.R2', fi, st,
                    'the stored radial profile must be a *copy* of the '
                    'arg-max row, stored under the same guard as the value',
                    key=fi.full + ' | pin profile copy')
    # pin_temp_array fills column 1 with the height
    pfi = repo.lookup_method(cls, 'pin_temp_array')
    if pfi is None:
        raise AnalysisError('Assembly.pin_temp_array vanished')
    zs = [st for t, st in U.stores(pfi.node)
          if match('Q_p[:, 1]', t) is not None and _is_self_z(st.value)]
    ctx.require(bool(zs), 'C15.R2', pfi, zs[0] if zs else pfi.node,
                'pin_temp_array must write the current height into column 1',
                key=pfi.full + ' | height column')


def _right_aligned(d, cand):
    """d == len(self._peak['duct']) - <n> + <i> where cand == X[<i>] and
    <n> is X.shape[0] / len(X)."""
    if not isinstance(cand, ast.Subscript):
        return False
    X, i = src(cand.value), src(cand.slice)
    n_forms = {'%s.shape[0]' % X, 'len(%s)' % X}
    L = "len(self._peak['duct'])"
    terms = U.linear_terms(d)
    if terms is None:
        return False
    return any(sorted(terms) == sorted([(1, L), (1, i), (-1, n)])
               for n in n_forms)


def _right_aligned_terms(d, cand):
    """The same fact as _right_aligned decided on the signed terms of a
    +/- chain in any association: {+len(self._peak['duct']), +<i>, -<n>}."""
    if not isinstance(cand, ast.Subscript) or not isinstance(d, ast.BinOp):
        return False
    X, i = src(cand.value), src(cand.slice)
    terms = U.linear_terms(d)
    pos = sorted(t for sgn, t in terms if sgn > 0)
    neg = [t for sgn, t in terms if sgn < 0]
    return pos == sorted(["len(self._peak['duct'])", i]) and \
        neg in (['%s.shape[0]' % X], ['len(%s)' % X])


def _copied(v):
    """The expression E such that `v` evaluates to a fresh object holding the
    elements of E: list(E) / tuple(E) / np.array(E) / np.copy(E) /
    copy.copy(E) / copy.deepcopy(E), E.copy() / E.tolist(), or the identity
    comprehension `[x for x in E]` (one generator, no condition, the element
    is the bound name itself).  A full row `E[i, :]` is spelled `E[i]`.
    None for anything else (a bare look-up or a basic slice of an array is a
    view, not a copy)."""
    e = None
    if isinstance(v, ast.Call) and not v.keywords and len(v.args) == 1 and \
            not isinstance(v.args[0], ast.Starred) and src(v.func) in (
                'list', 'np.array', 'np.copy', 'copy.copy', 'copy.deepcopy',
                'tuple'):
        e = v.args[0]
    elif isinstance(v, ast.Call) and isinstance(v.func, ast.Attribute) and \
            v.func.attr in ('copy', 'tolist') and not v.args and \
            not v.keywords:
        e = v.func.value
    elif isinstance(v, ast.ListComp) and len(v.generators) == 1:
        g = v.generators[0]
        if not g.ifs and not g.is_async and isinstance(g.target, ast.Name) \
                and isinstance(v.elt, ast.Name) and v.elt.id == g.target.id:
            e = g.iter
    if isinstance(e, ast.Subscript) and isinstance(e.slice, ast.Tuple) and \
            len(e.slice.elts) == 2 and isinstance(e.slice.elts[1], ast.Slice) \
            and e.slice.elts[1].lower is None and e.slice.elts[1].upper is \
            None and e.slice.elts[1].step is None:
        e = ast.Subscript(value=e.value, slice=e.slice.elts[0],
                          ctx=ast.Load())
    return e


def _bound_before(fn, e, line, _seen=None):
    """Every local read by `e`, and every local its definitions read in turn,
    is bound only ahead of `line` (so no binding can reach `line` round a
    loop and the flow-sensitive expansion of `e` at `line` is its value)."""
    seen = set() if _seen is None else _seen
    for x in ast.walk(e):
        if not isinstance(x, ast.Name) or x.id in seen:
            continue
        seen.add(x.id)
        for a in U.assigns_of(fn, x.id):
            if a.lineno >= line:
                return False
            v = getattr(a, 'value', None)
            if isinstance(a, (ast.Assign, ast.AugAssign)) and v is not None \
                    and not _bound_before(fn, v, line, seen):
                return False
    return True


def _range_item(e, cand):
    """Value of an element look-up on a range object: `range(a, b)[j]` is
    `a + j` (builtin `range`, unit step).  Only for a range that has exactly
    one entry per row of the candidate array X (cand == X[<i>]): the signed
    terms of b - a cancel to X.shape[0] / len(X), so every row has its slot
    and a `zip` of the range with X drops no row.  Anything else is returned
    unchanged (and is then not a right-aligned index)."""
    if not (isinstance(e, ast.Subscript) and isinstance(e.value, ast.Call)
            and isinstance(e.value.func, ast.Name)
            and e.value.func.id == 'range' and not e.value.keywords
            and len(e.value.args) in (2, 3)
            and not isinstance(e.slice, (ast.Slice, ast.Tuple))
            and isinstance(cand, ast.Subscript)):
        return e
    args = e.value.args
    if any(isinstance(a, ast.Starred) for a in args) or \
            (len(args) == 3 and const(args[2]) != 1):
        return e
    a, b = args[0], args[1]
    terms = list(U.linear_terms(b)) + [(-s, t) for s, t in U.linear_terms(a)]
    for s, t in list(terms):
        if (s, t) in terms and (-s, t) in terms:
            terms.remove((s, t))
            terms.remove((-s, t))
    X = src(cand.value)
    if terms not in ([(1, '%s.shape[0]' % X)], [(1, 'len(%s)' % X)]):
        return e
    return ast.fix_missing_locations(ast.BinOp(
        left=U._clone(a), op=ast.Add(), right=U._clone(e.slice)))


# ---------------------------------------------------------------------------

def r3(ctx):
    repo = ctx.repo
    # (1) Assembly.__init__: _peak['pin'][keys[i]] = [0.0, i + OFF, []]
    fi = repo.func('assembly', 'Assembly.__init__')
    keys = None
    kd = U.single_def(fi.node, 'keys')
    if kd is not None:
        keys = U.literal_list(kd)
    hits = find_all("self._peak['pin'][keys[Q_i]] = [Q_v, Q_i + Q_off, Q_l]",
                    fi.node, 'stmt')
    if not hits or keys is None:
        raise AnalysisError("Assembly.__init__: _peak['pin'] table not in the "
                            'recognised form')
    off = const(hits[0][1]['Q_off'])
    tab = {k: i + off for i, k in enumerate(keys)}
    ctx.require(tab == {k: CONV[k] for k in PIN_KEYS}, 'C15.R3', fi,
                hits[0][0], 'peak pin column table must be %s, is %s'
                % ({k: CONV[k] for k in PIN_KEYS}, tab),
                key=fi.full + ' | peak pin column table')
    # (2) PinModel.calculate_temperatures: t[:, 0]=coolant ... and rr stores
    #     into pin_temps[:, 3:]
    pm = repo.func('pin_model', 'PinModel.calculate_temperatures')
    want = {0: 'T_cool', (1, 4): 'calc_clad_temps', 4: 'calc_fuel_surf_temp',
            5: 'calc_fuel_temps'}
    got = {}
    for t, st in U.stores(pm.node):
        b = match('t[:, Q_c]', t)
        if b is None or not isinstance(st, ast.Assign):
            continue
        c = b['Q_c']
        if isinstance(c, ast.Slice):
            k = (const(c.lower), const(c.upper))
        else:
            k = const(c)
        v = st.value
        got[k] = v.func.attr if isinstance(v, ast.Call) and \
            isinstance(v.func, ast.Attribute) else src(v)
    ctx.require(got == want, 'C15.R3', pm, pm.node,
                'pin temperature array layout must be [coolant, clad OD/MW/'
                'ID, fuel OD, fuel CL]; found %s' % got,
                key=pm.full + ' | layout')
    # clad temps column order: calc_clad_temps returns fliplr-ed [OD, MW, ID]
    rr = repo.func('region_rodded', 'RoddedRegion.calculate_pin_temperatures')
    hits = find_all('self.pin_temps[:, Q_a:] = '
                    'self.pin_model.calculate_temperatures(QQ_x)',
                    rr.node, 'stmt')
    ctx.require(bool(hits) and const(hits[0][1]['Q_a']) == CONV['coolant'],
                'C15.R3', rr, hits[0][0] if hits else rr.node,
                'pin model temperatures must land in pin_temps[:, 3:]',
                key=rr.full + ' | pin_temps[:, 3:]')
    # (3) hotspot._get_peak_dt idx = column + 1 with slice start 3
    hs = repo.func('hotspot', '_get_peak_dt')
    idx = U.single_def(hs.node, 'idx')
    idxv = U.literal_list(idx) if idx is not None else None
    sl = find_all("a._peak['pin'][value][2][Q_lo:idx[value]]", hs.node)
    if idxv is None:
        raise AnalysisError('hotspot._get_peak_dt idx table not literal')
    ctx.require(idxv == {k: CONV[k] + 1 for k in PIN_KEYS} and sl
                and const(sl[0][1]['Q_lo']) == CONV['coolant'],
                'C15.R3', hs, idx,
                'hotspot profile slice must be [3 : column+1] per key',
                key=hs.full + ' | idx table')
    # (4) plot._pin_cols
    pl = repo.mod('plot')
    pc = pl.globals.get('_pin_cols')
    pcv = U.literal_list(pc) if pc is not None else None
    if pcv is None:
        raise AnalysisError('plot._pin_cols vanished')
    ctx.require(pcv == CONV, 'C15.R3', 'dassh/plot.py:%d' % pc.lineno, pc,
                'plot._pin_cols must equal the pin_temps column convention',
                key='dassh.plot | _pin_cols')
    # (5) Assembly.write: clad MW = column 6?  No: pin_temps[:, 5] is MW by
    #     the convention; the dump writes [:, 6] under the comment "clad MW".
    wr = repo.func('assembly', 'Assembly.write')
    cols = find_all('self.active_region.pin_temps[:, Q_c]', wr.node)
    colset = sorted({const(b['Q_c']) for n, b in cols})
    ctx.ok('C15.R3', wr, cols[0][0] if cols else wr.node,
           'dump columns used: %s' % colset)
    if 6 in colset and 5 not in colset:
        ctx.advisory('C15.R3', wr, cols[0][0],
                     'Assembly.write averages/maximises pin_temps[:, 6] under '
                     'the label "clad MW"; by the column convention 6 is clad '
                     'ID (dump files only, not the reported peaks)')
    # (6) table.PeakPinTempTable._lookup_keys values are the pin keys
    tb = repo.cls('table', 'PeakPinTempTable')
    lk = None
    for st in tb.node.body:
        if isinstance(st, ast.Assign) and src(st.targets[0]) == '_lookup_keys':
            lk = U.literal_list(st.value)
            lkn = st
    if lk is None:
        raise AnalysisError('PeakPinTempTable._lookup_keys vanished')
    flat = sorted(v for d in lk.values() for v in d.values())
    ctx.require(flat == sorted(PIN_KEYS) and all(
        v == comp + '_' + reg for comp, d in lk.items()
        for reg, v in d.items()), 'C15.R3',
        'dassh/table.py:%d' % lkn.lineno, lkn,
        'PeakPinTempTable lookup keys must be the five pin peak keys',
        key='dassh.table:PeakPinTempTable | _lookup_keys')
    # (7) _get_nominal_temps prints data[3:] (coolant..fuel CL), pin =
    #     data[2], height = data[1]
    gn = repo.func('table', 'PeakPinTempTable._get_nominal_temps')
    f1 = find_all('data[3:]', gn.node)
    f2 = find_all('self.len_conv(data[1])', gn.node)
    f3 = find_all('int(data[2])', gn.node)
    ctx.require(bool(f1 and f2 and f3), 'C15.R3', gn, gn.node,
                'nominal row must read pin=data[2], height=data[1], '
                'temperatures=data[3:]', key=gn.full + ' | row layout')
    # (8) the reader hands the profile stored with the peak of the same key
    mk = repo.func('table', 'PeakPinTempTable.make')
    h = find_all("self._get_nominal_temps(Q_a, Q_a._peak['pin'][Q_k][2])",
                 mk.node)
    kdef = U.single_def(mk.node, src(h[0][1]['Q_k'])) if h else None
    ctx.require(bool(h) and kdef is not None and src(kdef) ==
                'self._lookup_keys[self._component][self._region]',
                'C15.R3', mk, h[0][0] if h else mk.node,
                'table must print the profile stored for its own key',
                key=mk.full + ' | profile of own key')
    # (9) orificing reads value slot [0] of the peak entries
    for q in ('Orificing._write_summary', 'Orificing._get_parametric_data',
              'Orificing.run_parametric'):
        pass


# ---------------------------------------------------------------------------

def r4(ctx):
    """Readers of _peak['duct'][<non-constant index>]."""
    repo = ctx.repo
    wfi = repo.func('assembly', 'Assembly._update_peak_duct_temps')
    n = 0
    for fi in repo.all_funcs():
        if fi is wfi:
            continue
        for node in walk_no_nested(fi.node):
            b = match("Q_a._peak['duct'][Q_i]", node) \
                if isinstance(node, ast.Subscript) else None
            if b is None or isinstance(node.ctx, ast.Store):
                continue
            n += 1
            i = b['Q_i']
            a = src(b['Q_a'])
            if const(i) is not None:
                ctx.ok('C15.R4', fi, node, 'constant index')
                continue
            ok = _reader_index_ok(fi, node, i, a)
            ctx.require(ok, 'C15.R4', fi, node,
                        "reader indexes _peak['duct'] left-aligned over the "
                        "ducts of another object; the writer is right-"
                        "aligned (len(_peak['duct']) - n + i), so with fewer "
                        'ducts in the last region the wrong duct is reported',
                        key='%s | %s' % (fi.full, src(node)))
    # whole-list readers (np.max(a._peak['duct'], axis=0)) are convention-free
    for fi in repo.all_funcs():
        for node in walk_no_nested(fi.node):
            if isinstance(node, ast.Subscript) and \
                    match("Q_a._peak['duct']", node) is not None and \
                    not isinstance(parent(node), ast.Subscript) and \
                    isinstance(node.ctx, ast.Load) and fi is not wfi \
                    and fi.qual != 'Assembly.__init__':
                ctx.ok('C15.R4', fi, node, 'whole-list read')


def _reader_index_ok(fi, node, i, a):
    """i ranges over the list's own length, or is right-aligned."""
    L = "len(%s._peak['duct'])" % a
    e = U.expand_locals(fi.node, i, before=node.lineno)
    Le = src(U.expand_locals(fi.node, ast.parse(L, mode='eval').body,
                             before=node.lineno))
    if _right_aligned_reader(e, Le):
        return True
    if isinstance(i, ast.Name):
        for lp in U.enclosing_loops(node):
            if isinstance(lp, ast.For) and src(lp.target) == i.id:
                it = src(lp.iter)
                return it in ('range(%s)' % L,)
    return False


def _right_aligned_reader(e, L):
    """e == L - <n> + <d> (any association) where <d> is a loop variable
    over range(<n>): the same right alignment the writer uses."""
    if not isinstance(e, ast.BinOp):
        return False
    terms = U.linear_terms(e)
    if terms is None:
        return False
    pos = [t for sgn, t in terms if sgn > 0]
    neg = [t for sgn, t in terms if sgn < 0]
    return len(pos) == 2 and len(neg) == 1 and L in pos \
        and all(L != t for t in neg)


# ---------------------------------------------------------------------------

def r5(ctx):
    repo = ctx.repo
    ct = repo.func('table', 'CoolantTempTable.make')
    for name, want in (('tc_avg', 'self.temp_conv(a.avg_coolant_temp)'),
                       ('tc_max_out', "self.temp_conv(np.max(a.region[-1]."
                                      "temp['coolant_int']))")):
        d = U.single_def(ct.node, name)
        ctx.require(d is not None and src(d) == want, 'C15.R5', ct,
                    d if d is not None else ct.node,
                    '%s must be read from the final-plane field (%s)'
                    % (name, want), key=ct.full + ' | ' + name)
    # the peak column comes from _peak['cool']
    h = find_all("tc_max_tot, tc_max_ht = a._peak['cool']", ct.node, 'stmt')
    ctx.require(bool(h), 'C15.R5', ct, h[0][0] if h else ct.node,
                "peak total/height must be unpacked from a._peak['cool']",
                key=ct.full + ' | peak unpack')
    dt = repo.func('table', 'DuctTempTable._get_avg_duct_face_temp')
    reads = U.reads_of_path(dt.node, ('asm',))
    bad = [n for n, p in reads if '_peak' in p]
    fld = [n for n, p in reads if p[:4] == ('asm', 'region', '-1', 'temp')]
    ctx.require(not bad and len(fld) >= 3 and all(
        "['duct_mw']" in src(n) for n in fld), 'C15.R5', dt,
        fld[0] if fld else dt.node,
        'face averages must be computed from region[-1].temp[duct_mw] only',
        key=dt.full + ' | final-plane field')
    # avg_coolant_temp property chain reaches the active region
    cls = repo.cls('assembly', 'Assembly')
    fi, e = U.property_return(repo, cls, 'avg_coolant_temp')
    ctx.require(e is not None and src(e) ==
                'self.active_region.avg_coolant_temp', 'C15.R5', fi,
                e if e is not None else fi.node,
                'Assembly.avg_coolant_temp must delegate to the active region',
                key=fi.full + ' | delegate')


# ---------------------------------------------------------------------------
# R6: reorderings name their axis

def _kept_axes(e):
    """Lower bound on the number of axes an indexing expression keeps: full
    or partial slices in its subscript tuple."""
    if isinstance(e, ast.Subscript):
        sl = e.slice
        parts = sl.elts if isinstance(sl, ast.Tuple) else [sl]
        return sum(1 for p_ in parts if isinstance(p_, ast.Slice))
    return 0


def r6(ctx):
    n = 0
    for fi in ctx.repo.all_funcs():
        if fi.mod.name.startswith(('dassh.plot', 'dassh.py4c')):
            continue
        for c in walk_no_nested(fi.node):
            if not (isinstance(c, ast.Call) and (call_name(c) or '') in (
                    'np.roll', 'numpy.roll')):
                continue
            n += 1
            has_axis = U.kwarg(c, 'axis') is not None or len(c.args) >= 3
            arg = c.args[0] if c.args else None
            rank = _kept_axes(arg) if arg is not None else 0
            if isinstance(arg, ast.Name):
                d = U.single_def(fi.node, arg.id)
                if isinstance(d, ast.Call) and isinstance(
                        d.func, ast.Attribute) and d.func.attr == 'reshape':
                    rank = max(rank, len(d.args) if len(d.args) > 1 else (
                        len(d.args[0].elts) if d.args and isinstance(
                            d.args[0], ast.Tuple) else 0))
            ctx.require(has_axis or rank < 2, 'C15.R6', fi, c,
                        'np.roll without axis on a selection that keeps %d '
                        'axes rolls the flattened array: the last cell of one '
                        'duct / face wraps into another' % rank,
                        key='%s | roll axis %s' % (fi.full,
                                                   ' '.join(src(c).split())
                                                   [:60]))
    if n == 0:
        raise AnalysisError('C15.R6: no np.roll call found')


def r7(ctx):
    """One duct-peak slot per duct wall of the assembly: the slot count is a
    maximum over ALL axial regions (collection), not the duct count of one
    fixed region (element) -- the regions are sorted axially, so a fixed
    index is whatever region happens to be lowest."""
    fi = ctx.repo.func('assembly', 'Assembly.__init__')
    st = [x for t, x in U.stores(fi.node)
          if src(t) == "self._peak['duct']" and isinstance(x, ast.Assign)]
    if len(st) != 1:
        raise AnalysisError("Assembly.__init__: store of _peak['duct']")
    # backward slice over locals
    exprs = [st[0].value]
    seen = set()
    work = [x.id for x in ast.walk(st[0].value) if isinstance(x, ast.Name)]
    params = set(fi.params)
    while work:
        nm = work.pop()
        if nm in seen or nm in params:
            continue
        seen.add(nm)
        for a in U.assigns_of(fi.node, nm):
            if isinstance(a, (ast.Assign, ast.AugAssign)):
                exprs.append(a.value)
                work += [x.id for x in ast.walk(a.value)
                         if isinstance(x, ast.Name)]
                for tst, pol in U.guards(a):
                    exprs.append(tst)
    fixed = [x for e in exprs for x in ast.walk(e)
             if isinstance(x, ast.Subscript) and src(x.value) == 'self.region'
             and isinstance(const(x.slice), int)]
    over_all = any(
        isinstance(x, (ast.ListComp, ast.GeneratorExp)) and any(
            src(g.iter) == 'self.region' for g in x.generators)
        for e in exprs for x in ast.walk(e)) or any(
            isinstance(n, ast.For) and src(n.iter) in (
                'self.region', 'range(len(self.region))')
            and any(isinstance(a, (ast.Assign, ast.AugAssign)) and any(
                isinstance(t, ast.Name) and t.id in seen
                for t in (a.targets if isinstance(a, ast.Assign)
                          else [a.target])) for a in ast.walk(n))
            for n in ast.walk(fi.node))
    has_max = any(isinstance(x, ast.Call) and (call_name(x) or '') in (
        'max', 'np.max') for e in exprs for x in ast.walk(e))
    ctx.require(not fixed and over_all and has_max, 'C15.R7', fi,
                fixed[0] if fixed else st[0],
                'the number of duct-peak slots must be the maximum duct '
                'count over all axial regions; %s'
                % ('it is read from the fixed element `%s`' % src(fixed[0])
                   if fixed else 'no maximum over self.region found'),
                key=fi.full + ' | duct peak slots')
