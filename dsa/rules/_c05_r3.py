"""C05.R3 decided on values (called from rules/c05.py:r3, through its alias
from C03.R7, and for the cm -> m clause of C03.R5).

Clause: the boundary set `Reactor._setup_axial_region_bnds` stores in
`self.axial_bnds` merges all four sources -- the fine mesh of the binary power
distribution and of every user power entry (cm, hence x 0.01), the lower and
upper bound of every axial region of every assembly type, the planes the user
asked for -- rounded to 1e-12 and uniqued (sorted); `self.core_length` is its
last element.

Decision: the function (with the private methods / nested helpers it calls)
is evaluated by the checker's own finite-domain evaluator (dsa/finite.py with
the array / closure / model-object extensions of rules/_f_c19_2.py and
rules/_c19_r3.py; nothing of /repo is imported or run) on *model reactors*:
every subset of {'dif3d', 'user'} as the keys of `self.power`, requested
planes given or None, two user power entries, two assembly types with two
axial regions each; every mesh point, region bound and plane is a distinct
symbol (exact polynomials, dsa/poly.py).  `np.around(x, d)` / `np.unique(x)`
are kept as formal operations.  The stored value must be unique(around(L,
12)) and L must hold, for every source that is present in the scenario, every
one of its symbols with the right factor.  Loops, comprehensions, extracted
helpers with guard returns, renamed accumulators, `.values()` / `.items()` /
index loops are all the same value.
"""
import ast
from fractions import Fraction

from ..core import AnalysisError, src
from .. import finite as F
from ..poly import Poly
from ._f_c19_2 import Arr
from ._c19_r3 import PeakEval, Obj, _poly

RULE = 'C05.R3'
ANCHOR = 'Reactor._setup_axial_region_bnds'
DIGITS = 12
CM = Fraction(1, 100)


def _s(n):
    return ' '.join(src(n).split())


class Rounded:
    """np.around(items, digits), element-wise, as a formal operation."""

    def __init__(self, items, digits):
        self.items, self.digits = items, digits

    def __repr__(self):
        return 'around(%r, %r)' % (self.items, self.digits)


class Unique:
    """np.unique(x): sorted, duplicates dropped (formal)."""

    def __init__(self, of):
        self.of = of

    def __repr__(self):
        return 'unique(%r)' % (self.of,)


class Last:
    """The last (= largest) element of a Unique."""

    def __init__(self, of):
        self.of = of

    def __repr__(self):
        return 'last(%r)' % (self.of,)


class Item:
    """Some other element / part of a Unique (formal)."""

    def __init__(self, of, key):
        self.of, self.key = of, key

    def __repr__(self):
        return '%r[%r]' % (self.of, self.key)


class Formal:
    """Any other operation on a rounded / uniqued value (kept formal so that
    it is reported as what it is, not as an analysis error)."""

    def __init__(self, name, args):
        self.name, self.args = name, args

    def __repr__(self):
        return '%s(%s)' % (self.name, ', '.join(repr(a) for a in self.args))


FORMAL = (Rounded, Unique, Last, Item, Formal)


def _flat(v, n):
    """A sequence of scalars from nested sequences (np.concatenate & co)."""
    if v is F.OPAQUE or not isinstance(v, (list, tuple)):
        raise F.Unsupported('sequence expected: %s' % ast.unparse(n))
    out = []
    for x in v:
        if isinstance(x, (list, tuple)):
            out.extend(_flat(x, n))
        else:
            out.append(x)
    return out


class BndsEval(PeakEval):
    """PeakEval + methods of the model object's class, attribute stores on
    model objects, formal np.around / np.unique."""

    def __init__(self, defs, literals, cls_name, methods):
        PeakEval.__init__(self, defs, literals)
        self.cls_name, self.methods = cls_name, methods
        self.stores = []        # (object, attribute, value) in program order

    # -- calls ---------------------------------------------------------------
    def _method(self, fnode, recv, n, env):
        deco = [ast.unparse(d) for d in fnode.decorator_list]
        if [d for d in deco if d != 'staticmethod']:
            raise F.Unsupported('decorated method %s' % fnode.name)
        if any(isinstance(a, ast.Starred) for a in n.args) or any(
                k.arg is None for k in n.keywords):
            raise F.Unsupported('star arguments: %s' % ast.unparse(n))
        args = [self.ev(a, env) for a in n.args]
        kw = {k.arg: self.ev(k.value, env) for k in n.keywords}
        if 'staticmethod' not in deco:
            if recv is None:
                raise F.Unsupported('unbound call %s' % ast.unparse(n))
            args = [recv] + args
        kind, val, node = self.call_function(fnode, args, kw)
        if kind == 'raise':
            raise F.Raised(node)
        return val

    def call(self, n, env):
        f = n.func
        fname = ast.unparse(f)
        if isinstance(f, ast.Attribute) and f.attr in self.methods:
            if isinstance(f.value, ast.Name) and f.value.id == self.cls_name \
                    and f.value.id not in env:
                return self._method(self.methods[f.attr], None, n, env)
            recv = self.ev(f.value, env)
            if isinstance(recv, Obj) and recv.kind == 'reactor':
                return self._method(self.methods[f.attr], recv, n, env)
        if fname in ('np.around', 'np.round', 'np.round_', 'numpy.around',
                     'numpy.round') and n.args:
            x = self.ev(n.args[0], env)
            d = n.args[1] if len(n.args) > 1 else None
            for k in n.keywords:
                if k.arg == 'decimals':
                    d = k.value
                else:
                    raise F.Unsupported(ast.unparse(n))
            d = self.ev(d, env) if d is not None else 0
            if isinstance(x, (list, tuple)):
                return Rounded(_flat(x, n), d)
            return Rounded(x, d)
        if fname in ('np.unique', 'numpy.unique') and len(n.args) == 1 \
                and not n.keywords:
            return Unique(self.ev(n.args[0], env))
        if fname in ('np.max', 'np.amax', 'max', 'numpy.max') and \
                len(n.args) == 1 and not n.keywords:
            x = self.ev(n.args[0], env)
            if isinstance(x, Unique):
                return Last(x)
        if isinstance(f, ast.Attribute) and f.attr == 'max' and not n.args:
            x = self.ev(f.value, env)
            if isinstance(x, Unique):
                return Last(x)
        if fname in ('np.concatenate', 'np.hstack', 'numpy.concatenate',
                     'numpy.hstack') and len(n.args) == 1 and not n.keywords:
            return Arr(_flat(self.ev(n.args[0], env), n))
        if fname in ('np.append', 'numpy.append') and len(n.args) == 2 and \
                not n.keywords:
            a, b = self.ev(n.args[0], env), self.ev(n.args[1], env)
            return Arr(_flat([a, b], n))
        if n.args and not isinstance(f, ast.Attribute) or \
                fname.startswith(('np.', 'numpy.')):
            args = [self.ev(a, env) for a in n.args
                    if not isinstance(a, ast.Starred)]
            if any(isinstance(a, FORMAL) for a in args):
                return Formal(fname, args)
        return PeakEval.call(self, n, env)

    def _load(self, n, env):
        base = self.ev(n.value, env)
        if isinstance(base, Unique):
            k = self.ev(n.slice, env)
            if k == -1:
                return Last(base)
            return Item(base, k)
        if isinstance(base, FORMAL):
            return Item(base, self.ev(n.slice, env))
        return PeakEval._load(self, n, env)

    def run(self, st, env):
        if isinstance(st, ast.AugAssign) and isinstance(st.op, ast.Add):
            cur, rhs = self.ev(st.target, env), self.ev(st.value, env)
            if isinstance(cur, list) and not isinstance(cur, Arr) and (
                    rhs is None or _poly(rhs) is not None):
                raise F.Raised(st)      # list += None / number: TypeError
        PeakEval.run(self, st, env)

    # -- stores --------------------------------------------------------------
    def bind(self, tgt, val, env):
        if isinstance(tgt, ast.Attribute):
            base = self.ev(tgt.value, env)
            if isinstance(base, Obj):
                base.fields[tgt.attr] = val
                self.stores.append((base, tgt.attr, val))
                return
        PeakEval.bind(self, tgt, val, env)


# ---------------------------------------------------------------------------
# model reactors

N_POINTS = 3    # mesh points per power distribution
ASMS = ('fuel', 'refl')
REGIONS = ('lower', 'upper')


class Model:
    def __init__(self, dif3d, user, planes):
        self.has = {'dif3d': dif3d, 'user': user, 'planes': planes}
        self.label = 'power from %s, requested planes %s' % (
            ' and '.join(k for k in ('dif3d', 'user') if self.has[k])
            or 'nowhere', 'given' if planes else 'None')
        # expected[source] = [(symbol, factor, description)]
        self.expected = {k: [] for k in (
            'binary fine mesh', 'user power mesh', 'region z_lo',
            'region z_hi', 'requested planes')}
        power = {}
        if dif3d:
            pts = []
            for j in range(N_POINTS):
                s = 'dif3d.z%d' % j
                pts.append(Poly.sym(s))
                self.expected['binary fine mesh'].append(
                    (s, CM, 'point %d of the binary fine mesh' % j, ()))
            power['dif3d'] = Obj('binary power', z_finemesh=Arr(pts))
        if user:
            ents = []
            for i in range(2):
                pts = []
                for j in range(N_POINTS):
                    s = 'user%d.z%d' % (i, j)
                    pts.append(Poly.sym(s))
                    self.expected['user power mesh'].append(
                        (s, CM, 'point %d of the mesh of user power entry %d'
                         % (j, i), ('entry', i)))
                ents.append([7 + 4 * i, {
                    'zfm': Arr(pts), 'pow': F.OPAQUE,
                    'avg': Poly.sym('user%d.avg' % i)}])
            power['user'] = ents
        asm = {}
        for a in ASMS:
            regs = {}
            for r in REGIONS:
                rec = {}
                for b in ('z_lo', 'z_hi'):
                    s = '%s.%s.%s' % (a, r, b)
                    rec[b] = Poly.sym(s)
                    self.expected['region ' + b].append(
                        (s, Fraction(1), '%s of region %r of assembly type '
                         '%r' % (b, r, a), ('asm', a, 'reg', r)))
                rec['model'] = 'simple'
                regs[r] = rec
            asm[a] = {'AxialRegion': regs, 'num_rings': 3}
        pl = None
        if planes:
            pl = []
            for j in range(2):
                s = 'plane%d' % j
                pl.append(Poly.sym(s))
                self.expected['requested planes'].append(
                    (s, Fraction(1), 'requested plane %d' % j, ()))
        self.obj = Obj('reactor', power=power,
                       _options={'axial_plane': pl, 'dif3d_idx': None})
        self.inp = Obj('input', data={'Assembly': asm,
                                      'Setup': {'axial_plane': pl}})


def _models():
    return [Model(d, u, p) for d in (True, False) for u in (True, False)
            for p in (True, False)]


def _factor(p, sym):
    """factor when p == factor * sym, else None."""
    if not isinstance(p, Poly) or p.symbols() != {sym} or len(p.t) != 1:
        return None
    (k, v), = p.t.items()
    return v if k == ((sym, 1),) else None


def evaluate(repo):
    """[(model, outcome)]: outcome = dict(stored=..., core=..., order_ok=...,
    raised=node or None)."""
    fi = repo.func('reactor', ANCHOR)
    a = fi.node.args
    if len(fi.params) != 2 or a.vararg or a.kwarg or a.kwonlyargs:
        raise AnalysisError('%s: %s no longer takes (self, inp)'
                            % (RULE, fi.full))
    mod = fi.mod
    defs = {f.name: f.node for f in mod.funcs.values()
            if f.cls is None and f.outer is None}
    methods = {f.name: f.node for f in mod.funcs.values()
               if f.cls is not None and f.cls is fi.cls and f.outer is None
               and not f.is_property}
    literals, _ = F.module_literals(mod.tree)
    out = []
    for m in _models():
        ev = BndsEval(defs, literals, fi.cls.name, methods)
        res = {'raised': None}
        try:
            k, val, node = ev.call_function(fi.node, [m.obj, m.inp])
        except F.Unsupported as e:
            raise AnalysisError('%s: %s cannot be evaluated on the model '
                                'reactor (%s): %s' % (RULE, fi.full, m.label,
                                                      e))
        except F.Raised as e:
            k, node = 'raise', e.node
        except (F._Break, F._Continue):
            raise AnalysisError('%s: stray break/continue in %s'
                                % (RULE, fi.full))
        if k == 'raise':
            res['raised'] = node
        res['stored'] = m.obj.fields.get('axial_bnds')
        res['core'] = m.obj.fields.get('core_length')
        names = [nm for o, nm, v in ev.stores if o is m.obj]
        res['order_ok'] = 'axial_bnds' in names and 'core_length' in names \
            and names.index('axial_bnds') < len(names) - 1 - \
            names[::-1].index('core_length')
        out.append((m, res))
    return fi, out


def _items(stored):
    """(items, problem): the list that was rounded / uniqued (None when there
    is none) and what is wrong with the way it was (None: it is
    unique(around(list, 12)))."""
    problem = None
    if not isinstance(stored, Unique):
        problem = 'the stored value is %s, not np.unique(...)' % (
            'missing' if stored is None else repr(stored)[:80])
    elif not isinstance(stored.of, Rounded):
        problem = 'the values are uniqued without being rounded first'
    elif stored.of.digits != DIGITS:
        problem = 'the values are rounded to %r decimals, not %d' % (
            stored.of.digits, DIGITS)
    v = stored
    for _ in range(6):
        if isinstance(v, Unique):
            v = v.of
        elif isinstance(v, Rounded):
            v = v.items
        elif isinstance(v, Formal) and v.args:
            v = v.args[0]
        else:
            break
    if isinstance(v, list) and v is not F.OPAQUE:
        return list(v), problem
    return None, problem or 'what is stored is not built from the list of ' \
        'boundaries (%r)' % (v,)


def _missing(model, items):
    """{source: [(description, tag, why)]} of expected elements not among
    the items."""
    have = {}
    for it in items:
        if isinstance(it, Poly) and len(it.symbols()) == 1:
            s, = it.symbols()
            f = _factor(it, s)
            if f is not None:
                have.setdefault(s, []).append(f)
    out = {}
    for source, exp in model.expected.items():
        for s, fac, desc, tag in exp:
            got = have.get(s, [])
            if any(abs(float(g) - float(fac)) <= 1e-12 * float(fac)
                   for g in got):
                continue
            why = 'is missing' if not got else 'enters with the factor %g ' \
                'instead of %g' % (float(got[0]), float(fac))
            out.setdefault(source, []).append((desc, tag, why))
    return out


def check(ctx, rule=RULE):
    fi, outcomes = evaluate(ctx.repo)
    site = fi.node
    st = [n for n in ast.walk(fi.node) if isinstance(n, ast.Assign) and any(
        _s(t) == 'self.axial_bnds' for t in n.targets)]
    if st:
        site = st[0]
    note = '%d model reactors' % len(outcomes)
    shape_bad = core_bad = None
    no_items = False
    miss = {}           # source -> (description, tag, why, label)
    part = {}           # 'entry' / 'asm' / 'reg' -> message
    for m, res in outcomes:
        if res['raised'] is not None and res['stored'] is None:
            no_items = True
            shape_bad = shape_bad or (
                'for %s the evaluation ends in an exception at `%s` before '
                'the boundary set is stored' % (m.label,
                                                _s(res['raised'])[:80]))
            continue
        items, why = _items(res['stored'])
        if why is not None:
            shape_bad = shape_bad or 'for %s %s' % (m.label, why)
        if items is None:
            no_items = True
            continue
        core = res['core']
        if not (isinstance(core, Last) and core.of is res['stored'] and
                res['order_ok']):
            core_bad = core_bad or 'for %s self.core_length is %s' % (
                m.label, 'not stored after the boundary set' if isinstance(
                    core, Last) and core.of is res['stored']
                else repr(core)[:80])
        mm = _missing(m, items)
        for source, lst in mm.items():
            miss.setdefault(source, lst[0] + (m.label,))
            exp = m.expected[source]
            # which entries / assemblies / regions are left out while
            # others are there
            for dim, pos in (('entry', 1), ('asm', 1), ('reg', 3)):
                tags = {t[pos] for _, _, _, t in exp
                        if len(t) > pos and t[pos - 1] == dim}
                gone = {t[pos] for _, t, _ in lst
                        if len(t) > pos and t[pos - 1] == dim}
                if tags and gone and gone != tags:
                    part.setdefault(dim, '%s (%s)' % (lst[0][0], m.label))
    names = {
        'binary fine mesh': 'binary fine mesh',
        'user power mesh': 'user power mesh',
        'region z_lo': 'region z_lo', 'region z_hi': 'region z_hi',
        'requested planes': 'requested planes'}
    for source in names:
        b = miss.get(source)
        ctx.require(b is None and not no_items, rule, fi, site,
                    'boundary source "%s" must be merged into the plane set'
                    % source + (': %s %s (%s)' % (b[0], b[2], b[3])
                                if b else ': ' + (shape_bad or '')),
                    note=note, key='%s | source %s' % (fi.full, source))
    for dim, it in (('entry', "range(len(self.power['user']))"),
                    ('asm', "inp.data['Assembly'].keys()"),
                    ('reg', 'tmp.keys()')):
        b = part.get(dim)
        ctx.require(b is None, rule, fi, site,
                    'boundary collection must iterate over %s: left out: %s'
                    % (it, b), note=note,
                    key='%s | iterate %s' % (fi.full, it))
    b = part.get('reg') or part.get('asm')
    ctx.require(b is None, rule, fi, site,
                'regions must be read from the assembly being iterated: '
                'left out: %s' % b, note=note,
                key=fi.full + ' | regions of a')
    ctx.require(shape_bad is None, rule, fi, site,
                'bounds must be rounded to 1e-12 and uniqued (sorted): %s'
                % shape_bad, note=note, key=fi.full + ' | round unique')
    ctx.require(core_bad is None and not no_items, rule, fi, site,
                'core length must be the last (largest) boundary: %s'
                % (core_bad or shape_bad), note=note,
                key=fi.full + ' | core length')
    ctx.trusted.append(
        '%s: model reactors (self.power with the keys dif3d / user, '
        '.z_finemesh, user entries [id, {zfm: ...}], self._options['
        'axial_plane], inp.data[Assembly][type][AxialRegion][region][z_lo / '
        'z_hi]) and the formal np.around / np.unique in dsa/rules/_c05_r3.py'
        % rule)


def user_mesh_scale(repo):
    """(ok, why): every mesh point of every user power entry enters the
    boundary set multiplied by 0.01 (cm -> m).  Used by C03.R5."""
    fi, outcomes = evaluate(repo)
    for m, res in outcomes:
        if not m.has['user']:
            continue
        items, why = _items(res['stored'])
        if items is None:
            return False, 'for %s %s' % (m.label, why)
        mm = _missing(m, items).get('user power mesh')
        if mm:
            return False, '%s %s (%s)' % (mm[0][0], mm[0][2], m.label)
    return True, ''
