"""C20.R8 -- the total flow handed out is the energy balance of the sweep whose
results are handed in.

Clause (a necessary condition of "the distributed flows sum to the total flow
required by the bulk outlet temperature target"):

    on every call of Orificing.distribute(res_prev, t_out_prev) the quantity
    the flows are distributed from and the conservation guard compares their
    sum with -- the *total* -- is a function of THIS call's arguments and of
    the configuration only:

      no previous sweep     Q_equals_mCdT(sum of the assembly powers, T_in,
                            coolant, t_out = T_target)
      previous sweep given  (sum of the flow column of res_prev over the rows
                            of one timestep)
      and, whenever the outlet temperature of that sweep is given, times
                            (t_out_prev - T_in) / (T_target - T_in);

    and the pair (res_prev, t_out_prev) the optimiser hands in describes one
    sweep: t_out_prev is the flow-weighted mean outlet temperature
    sum(T_out m) / sum(m) of the very result set passed as res_prev.

How it is decided.  A small path-sensitive symbolic evaluator (below) walks
the statements of a function for a fixed truth assignment of the argument
tests (`res_prev is None`, `t_out_prev is not None`), keeps for every local
the fully expanded expression of its current value (assignments, augmented
assignments, tuple unpacking, conditional expressions; values that come out of
a loop, out of an undecided branch or out of an object modified in place
become opaque markers) and stops at the distribution loop.  The value of the
total is then converted to an exact rational function (dsa/poly.py) over the
atoms T_in, T_target, t_out_prev and opaque leaves, divided by the required
temperature ratio, and what remains must be ONE leaf that is recognised
structurally (index algebra on the result table: which rows, which column) as
the flow total of one timestep of res_prev, respectively as the Q = m cp dT
estimate with the right arguments.  The column numbers are not hard-coded: they
are read from the row display of Orificing._read_dassh_results.

Nothing here looks at the text of a statement as a whole, at line numbers or
at a particular wrong expression: renaming, hoisting, branch swapping,
commuting factors, `x *= e` against `x = x * e` leave the value unchanged.
"""
import ast
from fractions import Fraction

from ..core import AnalysisError, call_name, const, src, walk_no_nested
from ..poly import Rat
from ..resolve import bind_args
from .. import util as U

PROPS = ('C20',)
RULE = 'C20.R8'
GIVEN = '<given>'

_MUTATORS = {'append', 'extend', 'insert', 'pop', 'remove', 'clear', 'sort',
             'reverse', 'update', 'fill', 'resize', 'put', 'itemset',
             'setdefault', 'popitem', 'add', 'discard', 'partition'}


_MODULES = {'self', 'np', 'numpy', 'dassh', 'os', 'sys', 'math', 'copy',
            'logging', 'module_logger'}


def _s(n):
    return ' '.join(src(n).split())


def _clone(e):
    return ast.parse(ast.unparse(e), mode='eval').body


def _ident(text):
    return ''.join(c if (c.isalnum() or c == '_') else '_' for c in text)


def _marker(key, why):
    return ast.Name(id='%s__%s' % (_ident(key), why), ctx=ast.Load())


def _base(t):
    """(key, is_subscripted) of a store target: the Name / attribute chain
    under the subscripts."""
    sub = False
    while isinstance(t, (ast.Subscript, ast.Starred)):
        sub = sub or isinstance(t, ast.Subscript)
        t = t.value
    if isinstance(t, ast.Name):
        return t.id, sub
    if isinstance(t, ast.Attribute):
        return _s(t), sub
    return None, sub


def _const_index(t):
    """Flattened tuple of integer constants indexing a Name (x[-1, 0] and
    x[-1][0] -> (-1, 0)); None if any index is not an integer constant."""
    idx = []
    while isinstance(t, ast.Subscript):
        try:
            v = U.const_eval(t.slice, _CONSTS)
        except (ValueError, TypeError, KeyError, IndexError):
            return None
        v = tuple(v) if isinstance(v, (tuple, list)) else (v,)
        if not all(isinstance(x, int) and not isinstance(x, bool)
                   for x in v):
            return None
        idx = list(v) + idx
        t = t.value
    return tuple(idx)


def _inside(node, anc):
    return any(x is node for x in ast.walk(anc))


def _never_none(n):
    """The value of n is certainly not None (arithmetic, comparisons,
    numbers, displays, numpy calls)."""
    if isinstance(n, ast.Constant):
        return n.value is not None
    if isinstance(n, (ast.BinOp, ast.Compare, ast.Tuple, ast.List, ast.Dict,
                      ast.ListComp, ast.JoinedStr)):
        return True
    if isinstance(n, ast.UnaryOp):
        return True
    if isinstance(n, ast.Call):
        cn = call_name(n) or ''
        return cn.split('.')[0] in ('np', 'numpy') or cn in (
            'float', 'int', 'len', 'abs', 'sum', 'min', 'max')
    return False


def decide(test, flags):
    """dsa.util.eval_test, after `E is None` / `E is not None` with E an
    arithmetic expression has been folded."""
    class Fold(ast.NodeTransformer):
        def visit_Compare(self, n):
            self.generic_visit(n)
            if len(n.ops) == 1 and isinstance(n.ops[0], (ast.Is, ast.IsNot)):
                for x, y in ((n.left, n.comparators[0]),
                             (n.comparators[0], n.left)):
                    if isinstance(y, ast.Constant) and y.value is None and \
                            _s(x) not in flags and _never_none(x):
                        return ast.Constant(
                            value=isinstance(n.ops[0], ast.IsNot))
            return n
    v = U.eval_test(test, flags)
    if v is None:
        v = U.eval_test(ast.fix_missing_locations(
            Fold().visit(_clone(test))), flags)
    return v


# ---------------------------------------------------------------------------
# path-sensitive symbolic evaluation of one function

class Paths:
    """Values of the locals of `fi` along the path selected by `flags`
    ({source text: python value} for dsa.util.eval_test)."""

    def __init__(self, fi, flags=None):
        self.fi = fi
        self.flags = dict(flags or {})
        self.defs = {}          # name -> [statements binding it on the path]
        self.events = []        # ('set', base, const index, value) /
        #                         ('blur', base)

    # -- expressions --
    def expand(self, e, env):
        ev = self

        class Sub(ast.NodeTransformer):
            def __init__(s):
                s.hidden = []

            def visit_Name(s, n):
                if isinstance(n.ctx, ast.Load) and n.id in env and not any(
                        n.id in h for h in s.hidden):
                    return _clone(env[n.id])
                return n

            def visit_Attribute(s, n):
                if isinstance(n.ctx, ast.Load):
                    t = _s(n)
                    if t in env:
                        return _clone(env[t])
                return s.generic_visit(n)

            def _comp(s, n):
                names = set()
                for g in n.generators:
                    names |= {x.id for x in ast.walk(g.target)
                              if isinstance(x, ast.Name)}
                s.hidden.append(names)
                r = s.generic_visit(n)
                s.hidden.pop()
                return r
            visit_ListComp = visit_SetComp = _comp
            visit_GeneratorExp = visit_DictComp = _comp

            def visit_Lambda(s, n):
                a = n.args
                s.hidden.append({x.arg for x in a.posonlyargs + a.args
                                 + a.kwonlyargs})
                r = s.generic_visit(n)
                s.hidden.pop()
                return r

            def visit_IfExp(s, n):
                n = s.generic_visit(n)
                v = decide(n.test, ev.flags)
                if v is True:
                    return n.body
                if v is False:
                    return n.orelse
                return n
        return ast.fix_missing_locations(Sub().visit(_clone(e)))

    # -- effects of calls --
    def effects(self, node, env):
        for c in ast.walk(node):
            if not isinstance(c, ast.Call) or not isinstance(
                    c.func, ast.Attribute):
                continue
            recv = c.func.value
            if isinstance(recv, ast.Name) and recv.id == 'self':
                if c.func.attr != 'log':
                    # a method of the object may store into its attributes
                    for k in [k for k in env if k.startswith('self.')]:
                        del env[k]
                continue
            if c.func.attr in _MUTATORS:
                key, _ = _base(recv)
                if key is not None and key not in _MODULES:
                    self.modified(key, env)

    # -- stores --
    def modified(self, key, env, why='modified_in_place', blur=True):
        """The object `key` names is changed in place -- and so is the object
        it is an alias / a view of."""
        cur = env.get(key)
        env[key] = _marker(key, why)
        if blur:
            self.events.append(('blur', key))
        x = cur
        while isinstance(x, ast.Subscript):
            x = x.value
        if isinstance(x, ast.Name) and x.id != key and '__' not in x.id:
            env[x.id] = _marker(x.id, 'modified_through_' + _ident(key))
            self.events.append(('blur', x.id))

    def bind(self, t, v, env, st):
        if isinstance(t, ast.Name):
            env[t.id] = v
            self.defs.setdefault(t.id, []).append(st)
            self.events.append(('blur', t.id))
            return
        if isinstance(t, (ast.Tuple, ast.List)):
            if any(isinstance(e, ast.Starred) for e in t.elts):
                for e in t.elts:
                    self.kill_target(e, env, 'unpacked')
                return
            if isinstance(v, (ast.Tuple, ast.List)) and len(v.elts) == len(
                    t.elts) and not any(isinstance(e, ast.Starred)
                                        for e in v.elts):
                for e, x in zip(t.elts, v.elts):
                    self.bind(e, x, env, st)
                return
            for i, e in enumerate(t.elts):
                self.bind(e, ast.Subscript(
                    value=_clone(v), slice=ast.Constant(value=i),
                    ctx=ast.Load()), env, st)
            return
        key, sub = _base(t)
        if key is None:
            return
        if isinstance(t, ast.Attribute) and key.startswith('self.') and \
                key.count('.') == 1:
            env[key] = v
            self.defs.setdefault(key, []).append(st)
            return
        if isinstance(t, ast.Subscript) and isinstance(
                t.value, (ast.Name, ast.Subscript)) and '.' not in key:
            ci = _const_index(t)
            keep = env.get(key)
            if keep is None or not _s(keep).endswith('__modified_in_place'):
                self.modified(key, env, blur=False)
            self.events.append(('set', key, ci, v) if ci is not None
                               else ('blur', key))
            return
        self.modified(key, env)

    def kill_target(self, t, env, why):
        for x in ast.walk(t):
            if isinstance(x, ast.Name) and isinstance(x.ctx, ast.Store):
                env[x.id] = _marker(x.id, why)
                self.events.append(('blur', x.id))
        if not isinstance(t, (ast.Name, ast.Tuple, ast.List)):
            key, _ = _base(t)
            if key is not None:
                self.modified(key, env, 'modified_in_place'
                              if why == 'from_loop' else why)

    def kill_block(self, st, env, why):
        for x in walk_no_nested(st):
            if isinstance(x, (ast.Assign, ast.AugAssign, ast.AnnAssign,
                              ast.For, ast.With, ast.Delete)):
                tg = x.targets if isinstance(x, (ast.Assign, ast.Delete)) \
                    else [it.optional_vars for it in x.items
                          if it.optional_vars is not None] \
                    if isinstance(x, ast.With) else [x.target]
                for t in tg:
                    self.kill_target(t, env, why)
            elif isinstance(x, ast.NamedExpr):
                self.kill_target(x.target, env, why)
        self.effects(st, env)

    def store_at(self, base, index):
        """Value of the last store `base[index] = v` on the path when no
        later store can have touched the element; else None."""
        for ev in reversed(self.events):
            if ev[1] != base:
                continue
            if ev[0] == 'set':
                if ev[2] == index:
                    return ev[3]
                if len(ev[2]) == len(index):
                    continue        # another element
                k = len(ev[2])
                if k < len(index) and ev[2] != index[:k]:
                    continue        # another row
                if k == len(index) - 1 and isinstance(
                        ev[3], (ast.List, ast.Tuple)) and not any(
                            isinstance(e, ast.Starred) for e in ev[3].elts) \
                        and -len(ev[3].elts) <= index[-1] < len(ev[3].elts):
                    return ev[3].elts[index[-1]]    # row display
            return None
        return None

    # -- statements --
    def run(self, stmts, env, stop=None):
        for st in stmts:
            if st is stop:
                return 'stop'
            r = self.stmt(st, env, stop)
            if r:
                return r
        return None

    def _undecided(self, what, st):
        raise AnalysisError(
            '%s: the anchor of %s lies under `%s`, which the rule cannot '
            'decide from the arguments' % (self.fi.qual, RULE, what))

    def stmt(self, st, env, stop):
        has_stop = stop is not None and _inside(stop, st)
        if isinstance(st, ast.Assign):
            self.effects(st.value, env)
            v = self.expand(st.value, env)
            for t in st.targets:
                if not isinstance(t, (ast.Name, ast.Tuple, ast.List)):
                    self.effects(t, env)
                self.bind(t, v, env, st)
            return None
        if isinstance(st, ast.AnnAssign):
            if st.value is not None:
                self.effects(st.value, env)
                self.bind(st.target, self.expand(st.value, env), env, st)
            return None
        if isinstance(st, ast.AugAssign):
            self.effects(st.value, env)
            rhs = self.expand(st.value, env)
            if isinstance(st.target, ast.Name):
                cur = env.get(st.target.id)
                if cur is None:
                    cur = ast.Name(id=st.target.id, ctx=ast.Load())
                env[st.target.id] = ast.fix_missing_locations(ast.BinOp(
                    left=_clone(cur), op=st.op, right=rhs))
                self.defs.setdefault(st.target.id, []).append(st)
                self.events.append(('blur', st.target.id))
            else:
                key, _ = _base(st.target)
                if key is not None:
                    self.modified(key, env)
            return None
        if isinstance(st, ast.Expr):
            if isinstance(st.value, ast.Call):
                cn = call_name(st.value) or ''
                a0 = st.value.args[0] if st.value.args else None
                if (cn.endswith('.log') and const(a0) in (
                        'error', 'critical')) or cn in ('sys.exit', 'exit'):
                    return 'end'
            self.effects(st.value, env)
            return None
        if isinstance(st, ast.If):
            self.effects(st.test, env)
            test = self.expand(st.test, env)
            v = decide(test, self.flags)
            if v is not None:
                return self.run(st.body if v else st.orelse, env, stop)
            if has_stop:
                self._undecided(_s(st.test), st)
            e1, e2 = dict(env), dict(env)
            n0 = len(self.events)
            r1 = self.run(st.body, e1, None)
            r2 = self.run(st.orelse, e2, None)
            for b in {ev[1] for ev in self.events[n0:]}:
                self.events.append(('blur', b))
            if r1 == 'end' and r2 == 'end':
                return 'end'
            if r1 == 'end':
                new = e2
            elif r2 == 'end':
                new = e1
            else:
                new = {}
                for k in set(e1) | set(e2):
                    a, b = e1.get(k), e2.get(k)
                    if a is not None and b is not None:
                        new[k] = a if _s(a) == _s(b) else \
                            ast.fix_missing_locations(ast.IfExp(
                                test=_clone(test), body=_clone(a),
                                orelse=_clone(b)))
                    elif not k.startswith('self.'):
                        new[k] = _marker(k, 'bound_on_one_branch_only')
            env.clear()
            env.update(new)
            return None
        if isinstance(st, (ast.For, ast.While, ast.Try)):
            if has_stop:
                self._undecided('a loop / try block', st)
            self.kill_block(st, env, 'from_loop'
                            if not isinstance(st, ast.Try) else 'from_try')
            return None
        if isinstance(st, (ast.With, ast.AsyncWith)):
            for it in st.items:
                self.effects(it.context_expr, env)
                if it.optional_vars is not None:
                    self.kill_target(it.optional_vars, env, 'context')
            return self.run(st.body, env, stop)
        if isinstance(st, (ast.Return, ast.Raise, ast.Break, ast.Continue)):
            return 'end'
        if isinstance(st, ast.Delete):
            for t in st.targets:
                if isinstance(t, ast.Name):
                    env.pop(t.id, None)
                else:
                    self.kill_target(t, env, 'modified_in_place')
            return None
        if isinstance(st, (ast.Pass, ast.Assert, ast.Import, ast.ImportFrom,
                           ast.Global, ast.Nonlocal, ast.FunctionDef,
                           ast.AsyncFunctionDef, ast.ClassDef)):
            return None
        raise AnalysisError('%s: statement not modelled by %s: %s'
                            % (self.fi.qual, RULE, _s(st)[:60]))


# ---------------------------------------------------------------------------
# index algebra on a 2-D record table

def _is_full_slice(n):
    return isinstance(n, ast.Slice) and n.lower is None and \
        n.upper is None and n.step is None


_CONSTS = {}


def _int(n):
    try:
        v = U.const_eval(n, _CONSTS)
    except (ValueError, TypeError, KeyError, IndexError):
        return None
    return v if isinstance(v, int) and not isinstance(v, bool) else None


class Table:
    """Selections out of the table `root` (source text) whose first column
    `ts` numbers the timesteps."""

    def __init__(self, root, ts=None):
        self.root = root
        self.ts = ts

    def select(self, e):
        """(rows, col): rows in 'all' | 'one timestep' | int (one row);
        col None (all columns) | int.  None if e is not such a selection."""
        if _s(e) == self.root:
            return 'all', None
        if isinstance(e, ast.Call):
            cn = call_name(e) or ''
            if cn in ('np.array', 'np.asarray', 'numpy.array', 'np.copy',
                      'numpy.asarray') and len(e.args) == 1 and \
                    not e.keywords:
                return self.select(e.args[0])
            if isinstance(e.func, ast.Attribute) and e.func.attr == 'copy' \
                    and not e.args:
                return self.select(e.func.value)
            return None
        if not isinstance(e, ast.Subscript):
            return None
        inner = self.select(e.value)
        if inner is None:
            return None
        rows, col = inner
        sl = e.slice
        if isinstance(sl, ast.Tuple):
            if len(sl.elts) != 2 or col is not None or isinstance(rows, int):
                return None
            r, c = sl.elts
        elif isinstance(rows, int) and col is None:
            r, c = None, sl           # table[k][c]
        else:
            r, c = sl, None
        if r is not None and not _is_full_slice(r):
            k = _int(r)
            if k is not None:
                if rows != 'all':
                    return None
                rows = k
            elif self.is_timestep_mask(r):
                if rows != 'all':
                    return None
                rows = 'one timestep'
            else:
                return None
        if c is not None and not _is_full_slice(c):
            k = _int(c)
            if k is None or col is not None:
                return None
            col = k
        return rows, col

    def is_timestep_value(self, e):
        """e is the timestep label of one row of the table."""
        if self.ts is None:
            return False
        s = self.select(e)
        if s is not None and isinstance(s[0], int) and s[1] == self.ts:
            return True
        # element k of the timestep column / of its distinct values
        if isinstance(e, ast.Subscript) and _int(e.slice) is not None:
            v = e.value
            if isinstance(v, ast.Call) and (call_name(v) or '') in (
                    'np.unique', 'numpy.unique', 'np.sort', 'sorted') and \
                    len(v.args) == 1 and not v.keywords:
                v = v.args[0]
            if self.select(v) == ('all', self.ts):
                return True
        if isinstance(e, ast.Call):
            cn = call_name(e) or ''
            arg = None
            if cn in ('np.min', 'np.max', 'min', 'max', 'np.amin',
                      'np.amax') and len(e.args) == 1 and not e.keywords:
                arg = e.args[0]
            elif isinstance(e.func, ast.Attribute) and e.func.attr in (
                    'min', 'max') and not e.args and not e.keywords:
                arg = e.func.value
            if arg is not None and self.select(arg) == ('all', self.ts):
                return True
        return False

    def is_timestep_mask(self, e):
        """rows whose timestep column equals the timestep of one row."""
        if isinstance(e, ast.Call):
            cn = call_name(e) or ''
            if cn in ('np.flatnonzero', 'numpy.flatnonzero') and \
                    len(e.args) == 1:
                return self.is_timestep_mask(e.args[0])
        if isinstance(e, ast.Subscript) and _int(e.slice) == 0 and \
                isinstance(e.value, ast.Call) and (call_name(e.value) or '') \
                in ('np.where', 'np.nonzero', 'numpy.where') and \
                len(e.value.args) == 1:
            return self.is_timestep_mask(e.value.args[0])
        if not (isinstance(e, ast.Compare) and len(e.ops) == 1 and
                isinstance(e.ops[0], ast.Eq)):
            return False
        a, b = e.left, e.comparators[0]
        for x, y in ((a, b), (b, a)):
            if self.select(x) == ('all', self.ts) and \
                    self.is_timestep_value(y):
                return True
        return False


def _sum_arg(e):
    """(summed expression, axis) of np.sum(x) / x.sum() / sum(x); None."""
    if not isinstance(e, ast.Call):
        return None
    cn = call_name(e) or ''
    axis = None
    kws = {k.arg: k.value for k in e.keywords}
    if set(kws) - {'axis'}:
        return None
    if cn in ('np.sum', 'numpy.sum', 'sum', 'math.fsum'):
        if len(e.args) == 2 and cn != 'sum' and 'axis' not in kws:
            arg, axis = e.args
        elif len(e.args) == 1:
            arg = e.args[0]
        else:
            return None
    elif isinstance(e.func, ast.Attribute) and e.func.attr == 'sum':
        arg = e.func.value
        if len(e.args) == 1 and 'axis' not in kws:
            axis = e.args[0]
        elif e.args:
            return None
    else:
        return None
    if 'axis' in kws:
        axis = kws['axis']
    if axis is not None:
        if const(axis, 0) is None:
            axis = None
        else:
            axis = _int(axis)
            if axis is None:
                return None
    return arg, axis


def column_total(tab, e):
    """(rows, col) if e is the sum over the selected rows of one column of
    the table; else (None, reason)."""
    # np.sum(T[rows], axis=0)[col]
    if isinstance(e, ast.Subscript) and _int(e.slice) is not None:
        sa = _sum_arg(e.value)
        if sa is not None and sa[1] == 0:
            sel = tab.select(sa[0])
            if sel is not None and sel[1] is None and not isinstance(
                    sel[0], int):
                return sel[0], _int(e.slice)
    sa = _sum_arg(e)
    if sa is None:
        return None, 'is not a sum over a column of %s' % tab.root
    arg, axis = sa
    sel = tab.select(arg)
    if sel is None or sel[1] is None or isinstance(sel[0], int) or \
            axis not in (None, 0):
        return None, 'sums `%s`, which is not one column of %s over whole ' \
            'rows' % (_s(arg)[:80], tab.root)
    return sel


# ---------------------------------------------------------------------------
# exact algebra over leaves

class Algebra:
    def __init__(self, atoms, leaf_hook=None):
        self.atoms = atoms          # {source text: symbol}
        self.leaves = {}            # symbol -> node
        self.by_text = {}
        self.leaf_hook = leaf_hook

    def leaf(self, n, name=None):
        t = _s(n)
        if t not in self.by_text:
            nm = name or 'L%d' % len(self.by_text)
            self.by_text[t] = nm
            self.leaves[nm] = n
        return Rat.sym(self.by_text[t])

    def rat(self, n):
        t = _s(n)
        if t in self.atoms:
            return Rat.sym(self.atoms[t])
        c = const(n)
        if isinstance(c, (int, float)) and not isinstance(c, bool):
            return Rat.const(Fraction(str(c)))
        if isinstance(n, ast.UnaryOp) and isinstance(n.op, ast.USub):
            return -self.rat(n.operand)
        if isinstance(n, ast.UnaryOp) and isinstance(n.op, ast.UAdd):
            return self.rat(n.operand)
        if isinstance(n, ast.BinOp):
            if isinstance(n.op, ast.Pow):
                k = const(n.right)
                if isinstance(k, int) and not isinstance(k, bool) \
                        and abs(k) <= 4:
                    return self.rat(n.left) ** k
                return self.leaf(n)
            if isinstance(n.op, (ast.Add, ast.Sub, ast.Mult, ast.Div)):
                l, r = self.rat(n.left), self.rat(n.right)
                if isinstance(n.op, ast.Add):
                    return l + r
                if isinstance(n.op, ast.Sub):
                    return l - r
                if isinstance(n.op, ast.Mult):
                    return l * r
                if r.is_zero():
                    return self.leaf(n)
                return l / r
            return self.leaf(n)
        if isinstance(n, ast.Call) and (call_name(n) or '') in (
                'float', 'np.float64', 'numpy.float64') and \
                len(n.args) == 1 and not n.keywords:
            return self.rat(n.args[0])
        if self.leaf_hook is not None:
            r = self.leaf_hook(self, n)
            if r is not None:
                return r
        return self.leaf(n)


def _single_leaf(alg, q):
    hits = [s for s in alg.leaves if q.equals(Rat.sym(s))]
    return hits[0] if len(hits) == 1 else None


# ---------------------------------------------------------------------------
# record layout of the sweep results

def _layout(ctx):
    """Column numbers of the result rows built by _read_dassh_results."""
    fi = ctx.repo.func('orificing', 'Orificing._read_dassh_results')
    if len(fi.params) < 3:
        raise AnalysisError('_read_dassh_results: parameters')
    ts_par = fi.params[2]
    rows = [d for d in ast.walk(fi.node) if isinstance(d, ast.List)
            and any(isinstance(e, ast.Attribute) and e.attr == 'flow_rate'
                    for e in d.elts)]
    if len(rows) != 1:
        raise AnalysisError('_read_dassh_results: the row display [timestep, '
                            'id, power, flow_rate, ...] was not found')
    out = {}
    for k, e in enumerate(rows[0].elts):
        if isinstance(e, ast.Name) and e.id == ts_par:
            out['timestep'] = k
        elif isinstance(e, ast.Attribute) and isinstance(e.value, ast.Name):
            out.setdefault(e.attr, k)
    for need in ('timestep', 'flow_rate'):
        if need not in out:
            raise AnalysisError('_read_dassh_results: column of %s' % need)
    if 'avg_coolant_temp' not in out:
        # the flows that are rescaled are TOTAL assembly flows (bundle +
        # bypass), so the outlet temperature stored with them must be the
        # mixed mean of the whole assembly; any other attribute in that slot
        # is the regression this rule exists for, not a lost anchor
        temps = [(k, e) for k, e in enumerate(rows[0].elts)
                 if isinstance(e, ast.Attribute) and 'temp' in e.attr
                 and 'avg' in e.attr]
        ctx.violation(
            RULE, fi, rows[0],
            'the outlet temperature stored with the total flow of an '
            'assembly must be its overall mixed-mean coolant temperature '
            '`avg_coolant_temp` (bundle and bypass together): the rows built '
            'here carry %s instead, so the total flow rescaled by '
            '(T_out_prev - T_in)/(T_target - T_in) is not the one the bulk '
            'outlet temperature target requires'
            % (', '.join('`%s`' % _s(e) for _, e in temps) or
               'no average coolant temperature'),
            key=fi.full + ' | bulk outlet temperature column')
        if len(temps) != 1:
            raise AnalysisError('_read_dassh_results: column of the bulk '
                                'outlet temperature')
        out['avg_coolant_temp'] = temps[0][0]
    else:
        ctx.ok(RULE, fi, rows[0], 'outlet temperature column is '
               'avg_coolant_temp (column %d)' % out['avg_coolant_temp'])
    return out


# ---------------------------------------------------------------------------
# the total inside distribute

def _conservation_total(di, w):
    """Name the conservation guard after the loop compares sum(m) with."""
    names = []
    for st in walk_no_nested(di.node):
        if not (isinstance(st, ast.If) and st.lineno > w.end_lineno):
            continue
        if not any(isinstance(x, ast.Call) and (call_name(x) or '').endswith(
                '.log') and x.args and const(x.args[0]) in ('error',
                                                            'critical')
                   for x in ast.walk(st)):
            continue
        for b in ast.walk(st.test):
            if isinstance(b, ast.BinOp) and isinstance(b.op, ast.Sub):
                for x, y in ((b.left, b.right), (b.right, b.left)):
                    if _sum_arg(x) is not None and isinstance(y, ast.Name):
                        names.append(y.id)
    names = sorted(set(names))
    if len(names) == 1:
        return names[0]
    # no guard (reported by C20.R3): what the remainder starts from
    rem = [a for a in walk_no_nested(w) if isinstance(a, ast.Assign)
           and len(a.targets) == 1 and isinstance(a.targets[0], ast.Name)
           and isinstance(a.value, ast.Name)
           and any(isinstance(g, ast.AugAssign) and isinstance(g.op, ast.Sub)
                   and _s(g.target) == a.targets[0].id
                   for g in walk_no_nested(w))]
    names = sorted({a.value.id for a in rem})
    if len(names) == 1:
        return names[0]
    raise AnalysisError('distribute: the total flow (the quantity the '
                        'conservation guard compares sum(m) with) was not '
                        'identified')


def _check_first_estimate(ctx, node, target):
    """None if node is Q_equals_mCdT(total power, T_in, coolant,
    t_out=T_target); else the reason."""
    callee = ctx.repo.func('utils', 'Q_equals_mCdT')
    if not (isinstance(node, ast.Call) and (call_name(node) or '').split(
            '.')[-1] == callee.name):
        return 'is not the Q = m cp dT estimate %s(...)' % callee.name
    p = callee.params
    if len(p) < 5:
        raise AnalysisError('utils.Q_equals_mCdT: parameters %s' % p)
    b = bind_args(node, callee)
    rows_col = column_total(Table('self._power'), b[p[0]]) \
        if p[0] in b else (None, 'missing')
    if rows_col != ('all', 1):
        return 'its power argument `%s` is not the total of the assembly ' \
            'powers sum(self._power[:, 1])' % _s(b.get(p[0]))[:80]
    if _s(b.get(p[1])) != 'self.t_in':
        return 'its inlet temperature `%s` is not self.t_in' % _s(b.get(p[1]))
    if _s(b.get(p[2])) != 'self.coolant':
        return 'its coolant `%s` is not self.coolant' % _s(b.get(p[2]))
    if _s(b.get(p[3])) != target:
        return 'its outlet temperature `%s` is not the target %s' % (
            _s(b.get(p[3]))[:80], target)
    if p[4] in b and const(b[p[4]], 0) is not None:
        return 'a flow rate is passed as well'
    return None


TARGET = "self.orifice_input['bulk_coolant_temp']"


def _total_case(ctx, di, w, total, tab, fcol, has_res, has_t, case):
    """(holds, node, note / what) for one truth assignment of the argument
    tests."""
    res, tout = di.params[1], di.params[2]
    pe = Paths(di, {res: GIVEN if has_res else None,
                    tout: GIVEN if has_t else None})
    env = {}
    if pe.run(di.node.body, env, w) != 'stop':
        raise AnalysisError('distribute: the distribution loop is not '
                            'reached (%s)' % case)
    val = env.get(total)
    if val is None:
        raise AnalysisError('distribute: `%s` is not bound when the '
                            'distribution loop starts (%s)' % (total, case))
    defs = pe.defs.get(total) or [w]
    atoms = {'self.t_in': 'T_in', TARGET: 'T_target'}
    if has_t:
        atoms[tout] = 'T_out_prev'
    alg = Algebra(atoms)
    v = alg.rat(val)
    want = 'the flow total of the sweep passed in (sum of column %d of %s ' \
        'over the rows of one timestep)' % (fcol, res) if has_res else \
        'Q_equals_mCdT(total power, T_in, coolant, t_out=T_target)'
    q = v
    if has_t:
        ratio = (Rat.sym('T_out_prev') - Rat.sym('T_in')) / (
            Rat.sym('T_target') - Rat.sym('T_in'))
        want += ' x (%s - self.t_in) / (%s - self.t_in)' % (tout, TARGET)
        q = v / ratio
    # which leaves would do as the starting value
    good = {}
    for s_, n_ in alg.leaves.items():
        if has_res:
            sel = column_total(tab, n_)
            good[s_] = None if sel == ('one timestep', fcol) else (
                sel[1] if sel[0] is None else
                'sums column %s over %s rows of %s; the flow rates of one '
                'sweep are column %d of the rows of one timestep'
                % (sel[1], 'the' if sel[0] == 'one timestep' else 'ALL',
                   res, fcol))
        else:
            good[s_] = _check_first_estimate(ctx, n_, TARGET)
    base = _single_leaf(alg, q)
    if base is not None and good[base] is None:
        return True, defs[0], 'total = %s' % want
    if base is not None:
        why = 'its starting value `%s` %s' % (_s(alg.leaves[base])[:120],
                                              good[base])
        at = defs[0]
    elif any(g is None for g in good.values()):
        why = 'the starting value is right but the scaling with the ' \
            'temperature rises is not'
        at = defs[-1]
    else:
        why = 'it is not that quantity'
        at = defs[0]
    return False, at, (
        'the total flow distributed (`%s`: the value the flows are split '
        'from and the conservation guard compares their sum with) must be '
        'the energy balance of THIS call\'s inputs -- %s -- but with %s it '
        'evaluates to `%s`: %s.  The flows then sum to a total other than '
        'the one the bulk outlet temperature target requires for the sweep '
        'handed in, and the conservation guard, which compares with the '
        'same value, still passes' % (total, want, case, _s(val)[:300], why))


def _distribute_total(ctx, lay):
    di = ctx.repo.func('orificing', 'Orificing.distribute')
    if len(di.params) < 3:
        raise AnalysisError('distribute: parameters %s' % di.params)
    res, tout = di.params[1], di.params[2]
    ws = [n for n in walk_no_nested(di.node) if isinstance(n, ast.While)]
    if len(ws) != 1:
        raise AnalysisError('distribute: expected one while loop')
    w = ws[0]
    total = _conservation_total(di, w)
    tab = Table(res, lay['timestep'])
    fcol = lay['flow_rate']
    for has_res in (False, True):
        for has_t in (False, True):
            case = '%s, %s' % (
                'results of a previous sweep given' if has_res
                else 'first sweep',
                'its outlet temperature given' if has_t
                else 'no outlet temperature')
            # optimize hands in (None, None) first and a complete pair
            # afterwards (decided below): the mixed cases do not occur in an
            # iteration history and are reported as advisories only
            feasible = has_res == has_t
            try:
                ok, at, note = _total_case(ctx, di, w, total, tab, fcol,
                                           has_res, has_t, case)
            except AnalysisError as e:
                if feasible:
                    raise
                ok, at, note = False, w, str(e)
            if ok or not feasible:
                ctx.ok(RULE, di, at, '%s: %s' % (case, note if ok else
                                                 'not an iteration history'))
                if not ok:
                    ctx.advisory(RULE, di, at, note)
            else:
                ctx.violation(RULE, di, at, note,
                              key='%s | total flow | %s' % (di.full, case))
    # the total is fixed once the distribution has started
    late = [st for st in walk_no_nested(di.node)
            if isinstance(st, (ast.Assign, ast.AugAssign, ast.AnnAssign))
            and st.lineno >= w.lineno and any(
                isinstance(x, ast.Name) and x.id == total
                and isinstance(x.ctx, ast.Store) for x in ast.walk(st))]
    ctx.require(not late, RULE, di, late[0] if late else w,
                'the total flow `%s` is re-bound after the distribution loop '
                'has started: the flows and the conservation guard no longer '
                'refer to the energy-balance total' % total,
                key='%s | total fixed during distribution' % di.full)


# ---------------------------------------------------------------------------
# the pair (results, outlet temperature) handed to distribute

def _one_call(fi, name, root=None):
    cs = [c for c in walk_no_nested(root or fi.node)
          if isinstance(c, ast.Call) and call_name(c) == 'self.' + name]
    if len(cs) != 1:
        raise AnalysisError('%s: expected one call of %s, found %d'
                            % (fi.qual, name, len(cs)))
    return cs[0]


def _stmt_of(fi, node):
    for st in walk_no_nested(fi.node):
        if isinstance(st, ast.stmt) and not isinstance(
                st, (ast.If, ast.For, ast.While, ast.With, ast.Try,
                     ast.FunctionDef)) and _inside(node, st):
            return st
    raise AnalysisError('%s: statement of %s' % (fi.qual, _s(node)[:50]))


def _single_entry(ctx):
    """distribute / _do_iter / _summarize_group_data are reached through the
    chain optimize -> _do_iter only (the pair handed to distribute is decided
    on that chain)."""
    want = {'distribute': 1, '_do_iter': 1, '_summarize_group_data': 1}
    got = dict.fromkeys(want, 0)
    for m in ctx.repo.modules.values():
        for c in ast.walk(m.tree):
            if isinstance(c, ast.Call) and isinstance(
                    c.func, ast.Attribute) and c.func.attr in want:
                got[c.func.attr] += 1
    if got != want:
        raise AnalysisError('%s: call sites of the distribution chain in the '
                            'package are %s, confirmed by reading: %s'
                            % (RULE, got, want))


def _do_iter_pair(ctx):
    fi = ctx.repo.func('orificing', 'Orificing._do_iter')
    di = ctx.repo.func('orificing', 'Orificing.distribute')
    sw = ctx.repo.func('orificing', 'Orificing.run_dassh_orifice')
    if len(fi.params) < 4 or len(sw.params) < 3:
        raise AnalysisError('_do_iter / run_dassh_orifice: parameters')
    call = _one_call(fi, 'distribute')
    st = _stmt_of(fi, call)
    pe = Paths(fi)
    env = {}
    if pe.run(fi.node.body, env, st) != 'stop':
        raise AnalysisError('_do_iter: call of distribute not reached')
    b = bind_args(call, di)
    got = [_s(pe.expand(b[p], env)) if p in b else 'None (default)'
           for p in di.params[1:3]]
    ctx.require(got == fi.params[2:4], RULE, fi, call,
                'distribute must be handed the results of the previous sweep '
                'and the outlet temperature of that same sweep as they were '
                'passed to _do_iter (%s); it is given (%s): the total is '
                'then scaled with a temperature and a flow that belong to '
                'different sweeps' % (', '.join(fi.params[2:4]),
                                      ', '.join(got)),
                key='%s | arguments of distribute' % fi.full)
    rets = [r for r in walk_no_nested(fi.node) if isinstance(r, ast.Return)]
    if len(rets) != 1 or not any(r is rets[0] for r in fi.node.body):
        raise AnalysisError('_do_iter: expected one final return')
    pe = Paths(fi)
    env = {}
    if pe.run(fi.node.body, env, rets[0]) != 'stop':
        raise AnalysisError('_do_iter: return not reached')
    rv = pe.expand(rets[0].value, env) if rets[0].value is not None else None
    if not (isinstance(rv, ast.Tuple) and len(rv.elts) == 2):
        raise AnalysisError('_do_iter: return value is not a pair (results, '
                            'summary): %s' % _s(rv)[:80])
    r_, s_ = rv.elts
    ok = isinstance(s_, ast.Call) and call_name(s_) == \
        'self._summarize_group_data' and len(s_.args) + len(s_.keywords) == 1 \
        and _s((s_.args + [k.value for k in s_.keywords])[0]) == _s(r_)
    ctx.require(ok, RULE, fi, rets[0],
                'the summary returned with the sweep results must be '
                '_summarize_group_data of those very results (the next '
                'distribution scales the flow total of the results with the '
                'outlet temperature of the summary); got results `%s`, '
                'summary `%s`' % (_s(r_)[:100], _s(s_)[:140]),
                key='%s | summary of the returned results' % fi.full)
    ok = isinstance(r_, ast.Call) and call_name(r_) == 'self.' + sw.name
    flows = None
    if ok:
        flows = bind_args(r_, sw).get(sw.params[2])
        ok = isinstance(flows, ast.Subscript) and _int(flows.slice) == 0 and \
            isinstance(flows.value, ast.Call) and call_name(flows.value) == \
            'self.distribute'
    ctx.require(ok, RULE, fi, rets[0],
                'the sweep whose results are returned must be run with the '
                'flows distribute() has just returned; got `%s`'
                % _s(flows if flows is not None else r_)[:140],
                key='%s | sweep run with the distributed flows' % fi.full)


def _optimize_pair(ctx):
    """-> the constant index of the summary optimize reads the outlet
    temperature from."""
    fi = ctx.repo.func('orificing', 'Orificing.optimize')
    it = ctx.repo.func('orificing', 'Orificing._do_iter')
    call = _one_call(fi, '_do_iter')
    loops = [l for l in fi.node.body if isinstance(l, (ast.For, ast.While))
             and _inside(call, l)]
    if len(loops) != 1:
        raise AnalysisError('optimize: the iteration loop around _do_iter')
    lp = loops[0]
    b = bind_args(call, it)
    args = [b.get(p) for p in it.params[2:4]]
    if not all(isinstance(a, ast.Name) for a in args):
        raise AnalysisError('optimize: _do_iter is not called with two '
                            'loop-carried names (%s)'
                            % [_s(a) for a in args])
    rn, tn = args[0].id, args[1].id
    pe = Paths(fi)
    env = {}
    if pe.run(fi.node.body, env, lp) != 'stop':
        raise AnalysisError('optimize: iteration loop not reached')
    first = [_s(env[n]) if n in env else '<unbound>' for n in (rn, tn)]
    ctx.require(first == ['None', 'None'], RULE, fi, lp,
                'the first distribution must start without previous results '
                'and without a previous outlet temperature; `%s`, `%s` start '
                'as %s' % (rn, tn, first),
                key='%s | first iteration' % fi.full)
    pe = Paths(fi)
    env = {}
    if pe.run(lp.body, env, _stmt_of(fi, call)) != 'stop':
        raise AnalysisError('optimize: call of _do_iter not reached')
    ctext = _s(pe.expand(call, env))
    pe = Paths(fi)
    env = {}
    pe.run(lp.body, env, None)
    r_, t_ = env.get(rn), env.get(tn)
    ok = isinstance(r_, ast.Subscript) and _int(r_.slice) == 0 and \
        _s(r_.value) == ctext
    idx = None
    if ok:
        head = ctext + '[1]'
        tt = _s(t_) if t_ is not None else ''
        ok = isinstance(t_, ast.Subscript) and tt.startswith(head + '[')
        if ok:
            # index relative to the summary (element 1 of the pair)
            try:
                probe = ast.parse('S' + tt[len(head):], mode='eval').body
            except SyntaxError:
                probe = None
            idx = _const_index(probe) if isinstance(
                probe, ast.Subscript) else None
            ok = bool(idx)
    ctx.require(ok, RULE, fi, call,
                'results and outlet temperature carried to the next '
                'iteration must come from the same _do_iter call: `%s` '
                'must become element 0 of its return value and `%s` a '
                'constant entry of element 1 (the summary); at the end of '
                'the loop body they are `%s` and `%s`'
                % (rn, tn, _s(r_)[:120], _s(t_)[:160]),
                key='%s | pair carried to the next iteration' % fi.full)
    return idx


def _summary_value(ctx, lay, idx):
    fi = ctx.repo.func('orificing', 'Orificing._summarize_group_data')
    if len(fi.params) < 2:
        raise AnalysisError('_summarize_group_data: parameters')
    res = fi.params[1]
    rets = [r for r in walk_no_nested(fi.node) if isinstance(r, ast.Return)]
    if len(rets) != 1 or not any(r is rets[0] for r in fi.node.body) or \
            not isinstance(rets[0].value, ast.Name):
        raise AnalysisError('_summarize_group_data: expected one final '
                            '`return <table>`')
    tabname = rets[0].value.id
    pe = Paths(fi)
    env = {}
    if pe.run(fi.node.body, env, rets[0]) != 'stop':
        raise AnalysisError('_summarize_group_data: return not reached')
    if _s(env.get(res, ast.Name(id=res))) != res:
        raise AnalysisError('_summarize_group_data: `%s` is re-bound or '
                            'modified' % res)
    tab = Table(res)
    tcol, fcol = lay['avg_coolant_temp'], lay['flow_rate']

    def hook(alg, n):
        sel = tab.select(n)
        if sel is not None and sel[0] == 'all' and sel[1] is not None:
            return alg.leaf(n, 'col%d' % sel[1])
        sa = _sum_arg(n)
        inner = None
        if sa is not None and sa[1] is None:
            inner = alg.rat(sa[0])
        elif isinstance(n, ast.Call) and (call_name(n) or '') in (
                'np.dot', 'numpy.dot', 'np.inner', 'np.vdot') and \
                len(n.args) == 2 and not n.keywords:
            inner = alg.rat(n.args[0]) * alg.rat(n.args[1])
        elif isinstance(n, ast.Call) and isinstance(n.func, ast.Attribute) \
                and n.func.attr == 'dot' and len(n.args) == 1 and \
                not n.keywords and (call_name(n) or '') not in ('np.dot',):
            inner = alg.rat(n.func.value) * alg.rat(n.args[0])
        elif isinstance(n, ast.BinOp) and isinstance(n.op, ast.MatMult):
            inner = alg.rat(n.left) * alg.rat(n.right)
        elif isinstance(n, ast.Call) and (call_name(n) or '') in (
                'np.average', 'numpy.average') and len(n.args) == 1 and \
                [k.arg for k in n.keywords] == ['weights']:
            wgt = alg.rat(n.keywords[0].value)
            return total(alg, alg.rat(n.args[0]) * wgt) / total(alg, wgt)
        if inner is not None:
            return total(alg, inner)
        return None

    def total(alg, r):
        nm = 'SUM{%r}' % (r,)
        alg.leaves.setdefault(nm, None)
        return Rat.sym(nm)
    ct, cf = 'col%d' % tcol, 'col%d' % fcol

    def is_bulk(v):
        alg = Algebra({}, hook)
        got = alg.rat(v)
        want = total(alg, Rat.sym(ct) * Rat.sym(cf)) / total(alg,
                                                             Rat.sym(cf))
        return got.equals(want)
    # entries of the table with a constant index, as stored last
    entries = {idx: pe.store_at(tabname, idx)}
    for ev in pe.events:
        if ev[1] == tabname and ev[0] == 'set':
            cand = [ev[2]]
            if isinstance(ev[3], (ast.List, ast.Tuple)):
                cand = [ev[2] + (k,) for k in range(len(ev[3].elts))]
            for i in cand:
                if len(i) == len(idx):
                    entries[i] = pe.store_at(tabname, i)
    bulk = sorted(i for i, v in entries.items()
                  if v is not None and is_bulk(v))
    val = entries.get(idx)
    st = [s for s in walk_no_nested(fi.node) if isinstance(s, ast.Assign)
          and isinstance(s.targets[0], ast.Subscript)
          and _base(s.targets[0])[0] == tabname
          and _const_index(s.targets[0]) == idx]
    ctx.require(idx in bulk, RULE, fi, st[-1] if st else rets[0],
                'the outlet temperature the next total is scaled with -- '
                'entry [%s] of the summary, as read by optimize -- must be '
                'the flow-weighted mean outlet temperature of the result '
                'set, sum(%s[:, %d] * %s[:, %d]) / sum(%s[:, %d]): the '
                'temperature the core mixes to, the other factor of the '
                'energy balance.  That entry %s; entries holding the '
                'flow-weighted mean: %s'
                % (', '.join(map(str, idx)), res, tcol, res, fcol, res, fcol,
                   'evaluates to `%s`' % _s(val)[:200] if val is not None
                   else 'is not stored unconditionally after the loops',
                   [list(i) for i in bulk] or 'none'),
                key='%s | flow-weighted bulk outlet temperature' % fi.full)


def run(ctx):
    ctx.decided.append(
        'R8 the total flow distribute() splits among the groups is the '
        'energy balance of this call\'s own inputs on each of the four '
        'argument cases (exact algebra on the expanded value: Q = m cp dT '
        'estimate of the total power for the first sweep, otherwise the '
        'flow total of one timestep of the results passed in, times '
        '(T_out_prev - T_in) / (T_target - T_in) when the outlet temperature '
        'is given), it is not re-bound once the distribution has started, '
        'and the optimiser hands in results and outlet temperature of one '
        'and the same sweep (flow-weighted mean of that result set)')
    _CONSTS.clear()
    for st in ctx.repo.mod('orificing').tree.body:
        if isinstance(st, ast.Assign) and len(st.targets) == 1 and \
                isinstance(st.targets[0], ast.Name) and isinstance(
                    const(st.value), int) and not isinstance(
                        const(st.value), bool):
            _CONSTS[st.targets[0].id] = const(st.value)
    lay = _layout(ctx)
    ctx.extra['sweep_result_columns'] = lay
    _single_entry(ctx)
    _distribute_total(ctx, lay)
    _do_iter_pair(ctx)
    idx = _optimize_pair(ctx)
    if idx is not None:
        _summary_value(ctx, lay, idx)
    ctx.min_instances(RULE, 11)
