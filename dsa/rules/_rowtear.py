"""Row integrity of record tables: sorting a 2-D table along axis 0 with
np.sort / ndarray.sort orders every column independently and tears the
records apart (ids no longer next to their own type / value).  Re-ordering a
record table must go through one permutation applied to whole rows
(`A[A[:, k].argsort()]`).

A name is a record table in a function when it is indexed with a two-element
index (`A[:, 0]`, `A[i, 1]`) or built from a list of lists in that function
(or, for `self._x[...]` tables, anywhere in the class)."""
import ast

from ..core import AnalysisError, Module, call_name, src

POSITIVE = """
import numpy as np
def order(ids):
    ids = np.array(ids, dtype=int)
    first = ids[:, 0]
    return np.sort(ids, axis=0), first
"""


def _two_d_names(scope_nodes):
    out = set()
    for root in scope_nodes:
        for x in ast.walk(root):
            if isinstance(x, ast.Subscript) and isinstance(
                    x.slice, ast.Tuple) and len(x.slice.elts) == 2:
                out.add(src(x.value))
            if isinstance(x, ast.Call) and isinstance(
                    x.func, ast.Attribute) and x.func.attr == 'append' and \
                    x.args and isinstance(x.args[0], (ast.List, ast.Tuple)):
                out.add(src(x.func.value))
    return out


def tears(fn_node, class_node=None):
    two_d = _two_d_names([fn_node] + ([class_node] if class_node is not None
                                      else []))
    hits = []
    for c in ast.walk(fn_node):
        if not isinstance(c, ast.Call):
            continue
        nm = call_name(c) or ''
        axis = None
        for k in c.keywords:
            if k.arg == 'axis':
                axis = k.value
        target = None
        if nm in ('np.sort', 'numpy.sort') and c.args:
            target = c.args[0]
            if len(c.args) > 1:
                axis = c.args[1]
        elif isinstance(c.func, ast.Attribute) and c.func.attr == 'sort' \
                and not nm.startswith('np.'):
            target = c.func.value
            if c.args:
                axis = c.args[0]
        if target is None or axis is None:
            continue
        if not (isinstance(axis, ast.Constant) and axis.value == 0):
            continue
        if src(target) in two_d:
            hits.append(c)
    return hits


def check(ctx, rule, modules):
    n = 0
    for mn in modules:
        m = ctx.repo.mod(mn)
        for fi in m.funcs.values():
            cls = None
            if fi.cls is not None:
                cls = fi.cls if isinstance(fi.cls, ast.ClassDef) else getattr(
                    fi.cls, 'node', None)
            for c in tears(fi.node, cls):
                ctx.violation(rule, fi, c,
                              'a record table is sorted along axis 0: every '
                              'column is ordered independently, so the rows '
                              '(assembly id, type, value) are torn apart; '
                              're-order whole rows by one argsort permutation',
                              key='%s | axis-0 sort of %s' % (fi.full,
                                                              src(c)[:40]))
            n += 1
    pm = Module('dassh._positive', '<positive>', 'dassh/_positive.py',
                POSITIVE)
    if len(tears(pm.funcs['order'].node)) != 1:
        raise AnalysisError('%s positive example not detected' % rule)
    ctx.ok(rule, 'synthetic positive example', None,
           'detected; %d functions scanned' % n)
